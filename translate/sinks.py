"""Translator for C17(b): calls to dangerous sinks in every module of diffpy.structure reachable from
the parser entry points, with a conservative intraprocedural taint flag.

Nothing is imported or executed: the sources are read with `ast`.

* reachable modules: closure of `parsers/*.py` under `import` statements (any nesting level) that
  resolve to files under src/diffpy/structure;
* functions on the parse path: name-based call graph (a call `x.f(...)` / `f(...)` may reach every
  function named `f` in the reachable modules) from the entry points `parse`, `parseLines`, `parseFile`,
  `getParser`, `read`, `readStr`, `loadStructure`; module-level code of reachable modules, dunder
  methods, functions handed to `property(...)`/decorated as properties and nested functions of reachable
  functions are on the path too (lazy imports happen while parsing);
* sinks: eval, exec, compile, __import__, importlib.*, os.system/popen/exec*/spawn*, subprocess.*,
  open-like calls with a writing or non-literal mode, pickle/marshal loads, getattr/setattr/delattr
  with a non-literal attribute name, `<non-literal>.format(...)`;
* taint: parameters (own and enclosing), `self`, and every local assigned from an expression that
  mentions a tainted name, are "possibly derived from file content".  Refinement: a parameter is not
  tainted when the function is only ever referenced in call position and every call site in the
  reachable modules passes a literal for it (recorded in `guards`).

Emits lean/DS/Gen/Sinks.lean and a JSON report; cross-checks the AST pass against a plain text scan.
"""
import ast
import copy
import json
import os
import re
import sys

VERIF = os.path.dirname(os.path.dirname(os.path.abspath(__file__)))
ENTRY_NAMES = {"parse", "parseLines", "parseFile", "getParser", "read", "readStr", "loadStructure"}
OS_CMD = {"system", "popen", "startfile", "posix_spawn", "posix_spawnp", "execl", "execle", "execlp", "execlpe", "execv", "execve",
          "execvp", "execvpe", "spawnl", "spawnle", "spawnlp", "spawnlpe", "spawnv", "spawnve", "spawnvp", "spawnvpe", "fork"}
UNPICKLE_MODS = {"pickle", "cPickle", "marshal", "shelve", "dill", "yaml", "jsonpickle"}
KIND_LEAN = {"eval": ".eval", "exec": ".exec", "compile": ".compile", "import": ".import_", "importlib": ".importlib",
             "oscommand": ".osCommand", "subprocess": ".subprocess", "openwrite": ".openWrite", "unpickle": ".unpickle",
             "getattr": ".getattr", "setattr": ".setattr", "delattr": ".delattr", "format": ".format"}


def lean_str(s):
    out = ['"']
    for ch in s:
        if ch == '"':
            out.append('\\"')
        elif ch == "\\":
            out.append("\\\\")
        elif ch == "\n":
            out.append("\\n")
        elif ch == "\t":
            out.append("\\t")
        elif 32 <= ord(ch) < 127:
            out.append(ch)
        else:
            out.append("\\u{%x}" % ord(ch))
    out.append('"')
    return "".join(out)


def discover(root):
    mods = {}
    for d, _, files in os.walk(root):
        for f in files:
            if f.endswith(".py"):
                p = os.path.join(d, f)
                rel = os.path.relpath(p, root)[:-3].replace(os.sep, ".")
                if rel.endswith("__init__"):
                    rel = rel[:-len("__init__")].rstrip(".")
                mods[rel] = p
    return mods


def imports_of(tree, modname, mods, is_pkg):
    """module names (relative to diffpy.structure) imported anywhere in the tree"""
    out = set()
    pkg = modname if is_pkg else modname.rpartition(".")[0]

    def add(full):
        # full is relative to diffpy.structure ("" = the package itself)
        parts = full.split(".") if full else []
        for i in range(len(parts), -1, -1):
            cand = ".".join(parts[:i])
            if cand in mods:
                out.add(cand)
                break

    for n in ast.walk(tree):
        if isinstance(n, ast.Import):
            for a in n.names:
                if a.name == "diffpy.structure" or a.name.startswith("diffpy.structure."):
                    add(a.name[len("diffpy.structure"):].lstrip("."))
        elif isinstance(n, ast.ImportFrom):
            if n.level:
                base = pkg.split(".") if pkg else []
                base = base[:len(base) - (n.level - 1)] if n.level > 1 else base
                b = ".".join(base + ([n.module] if n.module else []))
            elif n.module and (n.module == "diffpy.structure" or n.module.startswith("diffpy.structure.")):
                b = n.module[len("diffpy.structure"):].lstrip(".")
            else:
                continue
            add(b)
            for a in n.names:
                add((b + "." if b else "") + a.name)
    return out


class Func:
    def __init__(self, module, qual, node, parent):
        self.module, self.qual, self.node, self.parent = module, qual, node, parent
        self.simple = qual.split(".")[-1]
        self.calls = set()
        self.own_nodes = []      # AST nodes belonging to this function (not to nested defs)
        self.params = []
        self.is_property = False


def collect_functions(module, tree):
    funcs = []
    top = Func(module, "<module>", tree, None)
    funcs.append(top)

    def visit(node, cur, qual_prefix):
        for child in ast.iter_child_nodes(node):
            if isinstance(child, (ast.FunctionDef, ast.AsyncFunctionDef)):
                q = (qual_prefix + "." if qual_prefix else "") + child.name
                f = Func(module, q, child, cur if cur.qual != "<module>" else None)
                a = child.args
                f.params = [x.arg for x in a.posonlyargs + a.args + a.kwonlyargs] + ([a.vararg.arg] if a.vararg else []) + ([a.kwarg.arg] if a.kwarg else [])
                for dec in child.decorator_list:
                    d = ast.unparse(dec)
                    if d == "property" or d.endswith(".setter") or d.endswith(".getter") or d.endswith(".deleter"):
                        f.is_property = True
                    cur.own_nodes.append(dec)
                funcs.append(f)
                for dflt in a.defaults + [d for d in a.kw_defaults if d is not None]:
                    cur.own_nodes.append(dflt)
                visit(child, f, q + ".<locals>")
            elif isinstance(child, ast.Lambda):
                q = (qual_prefix + "." if qual_prefix else "") + "<lambda@%d>" % child.lineno
                f = Func(module, q, child, cur if cur.qual != "<module>" else None)
                a = child.args
                f.params = [x.arg for x in a.posonlyargs + a.args + a.kwonlyargs] + ([a.vararg.arg] if a.vararg else []) + ([a.kwarg.arg] if a.kwarg else [])
                funcs.append(f)
                visit(child, f, q + ".<locals>")
            elif isinstance(child, ast.ClassDef):
                cur.own_nodes.append(child)
                visit(child, cur, (qual_prefix + "." if qual_prefix else "") + child.name)
            else:
                cur.own_nodes.append(child)
                visit(child, cur, qual_prefix)

    visit(tree, top, "")
    return funcs


def own_walk(f):
    return f.own_nodes


def const_str(node):
    """node is built from string literals only"""
    if isinstance(node, ast.Constant):
        return isinstance(node.value, str)
    if isinstance(node, ast.JoinedStr):
        return all(isinstance(v, ast.Constant) for v in node.values)
    if isinstance(node, ast.BinOp) and isinstance(node.op, ast.Add):
        return const_str(node.left) and const_str(node.right)
    return False


class Subst(ast.NodeTransformer):
    def __init__(self, env):
        self.env = env

    def visit_Name(self, node):
        if isinstance(node.ctx, ast.Load) and node.id in self.env:
            return copy.deepcopy(self.env[node.id])
        return node


def single_assignments(nodes, simple_only=False):
    count, val = {}, {}
    for n in nodes:
        targets = []
        if isinstance(n, ast.Assign):
            targets = [(t, n.value) for t in n.targets]
        elif isinstance(n, (ast.AugAssign, ast.AnnAssign)):
            targets = [(n.target, None)]
        elif isinstance(n, (ast.For, ast.AsyncFor)):
            targets = [(x, None) for x in ast.walk(n.target) if isinstance(x, ast.Name)]
        elif isinstance(n, ast.comprehension):
            targets = [(x, None) for x in ast.walk(n.target) if isinstance(x, ast.Name)]
        elif isinstance(n, ast.NamedExpr):
            targets = [(n.target, None)]
        elif isinstance(n, ast.withitem) and n.optional_vars is not None:
            targets = [(x, None) for x in ast.walk(n.optional_vars) if isinstance(x, ast.Name)]
        for t, v in targets:
            names = [t] if isinstance(t, ast.Name) else [x for x in ast.walk(t) if isinstance(x, ast.Name)]
            for x in names:
                count[x.id] = count.get(x.id, 0) + 1
                val[x.id] = v if isinstance(t, ast.Name) else None
    env = {}
    for k, c in count.items():
        v = val.get(k)
        if c == 1 and v is not None:
            if simple_only and not (const_str(v) or isinstance(v, ast.Constant)):
                continue
            env[k] = v
    return env


def derive(expr, envs):
    e = copy.deepcopy(expr)
    for _ in range(5):
        before = ast.dump(e)
        for env in envs:
            e = Subst(env).visit(e)
        if ast.dump(e) == before:
            break
    return ast.unparse(e), e


def analyse(repo):
    root = os.path.join(repo, "src", "diffpy", "structure")
    mods = discover(root)
    trees = {}
    for m, p in mods.items():
        trees[m] = ast.parse(open(p, encoding="utf-8").read(), p)
    imps = {m: imports_of(trees[m], m, mods, os.path.basename(mods[m]) == "__init__.py") for m in mods}
    start = {m for m in mods if m == "parsers" or m.startswith("parsers.")}
    reach = set(start)
    work = list(start)
    while work:
        m = work.pop()
        for d in imps[m]:
            if d not in reach:
                reach.add(d)
                work.append(d)
    funcs = []
    for m in sorted(reach):
        funcs += collect_functions(m, trees[m])
    # call names, property references, bare references
    byname = {}
    for f in funcs:
        byname.setdefault(f.simple, []).append(f)
    callpos, barepos, propfuncs = set(), set(), set()
    callsites = {}      # simple name -> list of Call nodes
    for f in funcs:
        nodes = own_walk(f)
        call_funcs = set()
        for n in nodes:
            if isinstance(n, ast.Call):
                fn = n.func
                nm = fn.id if isinstance(fn, ast.Name) else fn.attr if isinstance(fn, ast.Attribute) else None
                if nm:
                    f.calls.add(nm)
                    callsites.setdefault(nm, []).append(n)
                    call_funcs.add(id(fn))
                if nm == "property" or nm == "staticmethod" or nm == "classmethod":
                    for a in list(n.args) + [k.value for k in n.keywords]:
                        for x in ast.walk(a):
                            if isinstance(x, ast.Name):
                                propfuncs.add(x.id)
                            elif isinstance(x, ast.Attribute):
                                propfuncs.add(x.attr)
        for n in nodes:
            if isinstance(n, (ast.Name, ast.Attribute)) and id(n) not in call_funcs and isinstance(getattr(n, "ctx", None), ast.Load):
                nm = n.id if isinstance(n, ast.Name) else n.attr
                if nm in byname:
                    barepos.add(nm)
    # reachability
    on = set()
    names = set(ENTRY_NAMES)
    changed = True
    while changed:
        changed = False
        for f in funcs:
            if id(f) in on:
                continue
            hit = (f.qual == "<module>" or f.simple in names or (f.simple.startswith("__") and f.simple.endswith("__")) or f.is_property
                   or f.simple in propfuncs or (f.parent is not None and id(f.parent) in on) or (f.simple in barepos and f.simple in names))
            if not hit and f.simple in barepos:
                # referenced as a value somewhere (callback, table of setters, ...): conservatively reachable
                hit = True
            if hit:
                on.add(id(f))
                new = f.calls - names
                if new:
                    names |= new
                changed = True
    # literal-only parameters
    def literal_param(f, pname):
        """all call sites pass a literal for parameter pname and f is never referenced as a value"""
        if f.simple in barepos or f.simple in propfuncs or f.qual == "<module>" or isinstance(f.node, ast.Lambda):
            return None
        if len(byname.get(f.simple, [])) != 1:
            return None
        params = [p for p in f.params]
        is_method = "." in f.qual and "<locals>" not in f.qual.split(".")[-2:] and params[:1] in (["self"], ["cls"])
        if pname not in params:
            return None
        idx = params.index(pname) - (1 if is_method else 0)
        sites = callsites.get(f.simple, [])
        if not sites:
            return None
        vals = []
        for c in sites:
            v = None
            if idx < len(c.args) and not any(isinstance(a, ast.Starred) for a in c.args[:idx + 1]):
                v = c.args[idx]
            for k in c.keywords:
                if k.arg == pname:
                    v = k.value
                if k.arg is None:
                    return None
            if v is None:
                dflt = None
                a = f.node.args
                pos = a.posonlyargs + a.args
                names_pos = [x.arg for x in pos]
                if pname in names_pos:
                    j = names_pos.index(pname) - (len(pos) - len(a.defaults))
                    if j >= 0:
                        dflt = a.defaults[j]
                if dflt is None:
                    return None
                v = dflt
            if not isinstance(v, ast.Constant):
                return None
            vals.append(repr(v.value))
        return sorted(set(vals))

    modenv = {m: single_assignments([n for n in trees[m].body], simple_only=True) for m in reach}
    sinks = []
    for f in funcs:
        nodes = own_walk(f)
        # names imported from dangerous modules
        alias = {}
        for n in ast.walk(trees[f.module]):
            if isinstance(n, ast.ImportFrom) and n.module:
                for a in n.names:
                    nm = a.asname or a.name
                    if n.module == "os" and a.name in OS_CMD:
                        alias[nm] = "oscommand"
                    elif n.module == "subprocess":
                        alias[nm] = "subprocess"
                    elif n.module == "importlib" and a.name in ("import_module", "__import__", "reload"):
                        alias[nm] = "importlib"
                    elif n.module in UNPICKLE_MODS and a.name in ("load", "loads", "Unpickler"):
                        alias[nm] = "unpickle"
        # taint
        chain, g = [], f
        while g is not None:
            chain.append(g)
            g = g.parent
        lit = {}
        tainted = set()
        for g in chain:
            for p in g.params:
                lp = literal_param(g, p) if p not in ("self", "cls") else None
                if lp is not None:
                    lit[p] = (g.qual, lp)
                else:
                    tainted.add(p)
        def is_t(e):
            return any(isinstance(x, ast.Name) and x.id in tainted for x in ast.walk(e))
        for _ in range(6):
            before = len(tainted)
            for n in nodes:
                if isinstance(n, ast.Assign) and is_t(n.value):
                    for t in n.targets:
                        tainted.update(x.id for x in ast.walk(t) if isinstance(x, ast.Name) and isinstance(x.ctx, ast.Store))
                elif isinstance(n, ast.AugAssign) and is_t(n.value):
                    tainted.update(x.id for x in ast.walk(n.target) if isinstance(x, ast.Name))
                elif isinstance(n, ast.AnnAssign) and n.value is not None and is_t(n.value):
                    tainted.update(x.id for x in ast.walk(n.target) if isinstance(x, ast.Name))
                elif isinstance(n, (ast.For, ast.AsyncFor)) and is_t(n.iter):
                    tainted.update(x.id for x in ast.walk(n.target) if isinstance(x, ast.Name))
                elif isinstance(n, ast.comprehension) and is_t(n.iter):
                    tainted.update(x.id for x in ast.walk(n.target) if isinstance(x, ast.Name))
                elif isinstance(n, ast.NamedExpr) and is_t(n.value):
                    tainted.add(n.target.id)
                elif isinstance(n, ast.withitem) and n.optional_vars is not None and is_t(n.context_expr):
                    tainted.update(x.id for x in ast.walk(n.optional_vars) if isinstance(x, ast.Name))
                elif isinstance(n, ast.ExceptHandler) and n.name:
                    tainted.add(n.name)
                elif isinstance(n, ast.Call) and isinstance(n.func, ast.Attribute) and isinstance(n.func.value, ast.Name) \
                        and n.func.attr in ("append", "extend", "insert", "update", "add", "setdefault") and any(is_t(a) for a in n.args):
                    tainted.add(n.func.value.id)
            if len(tainted) == before:
                break
        locenv = single_assignments(nodes)
        envs = [locenv, modenv[f.module]]
        body = f.node.body if isinstance(getattr(f.node, "body", None), list) else []
        raises = [(st.lineno, ast.unparse(st.test)) for st in body
                  if isinstance(st, ast.If) and st.body and isinstance(st.body[-1], ast.Raise)]

        def add(kind, call, crit, extra_guard=None, obj=None):
            der, dnode = derive(crit, envs)
            if obj is not None:      # attribute sinks: the object whose attribute is named is part of the reviewed text
                der = "%s . (%s)" % (ast.unparse(obj), der)
            guards = [t for ln, t in raises if ln < call.lineno]
            for x in ast.walk(crit):
                if isinstance(x, ast.Name) and x.id in lit:
                    guards.append("all callers of %s pass literals for %s: %s" % (lit[x.id][0], x.id, ", ".join(lit[x.id][1])))
            if extra_guard:
                guards.append(extra_guard)
            sinks.append({"module": f.module or "__init__", "func": f.qual, "line": call.lineno, "kind": kind, "onParsePath": id(f) in on,
                          "tainted": bool(is_t(crit)), "arg": ast.unparse(crit), "derivation": der, "guards": " ; ".join(guards)})

        for n in nodes:
            if not isinstance(n, ast.Call):
                continue
            fn = n.func
            args = n.args
            none = ast.Constant(value=None)
            if isinstance(fn, ast.Name):
                nm = fn.id
                if nm in ("eval", "exec", "compile"):
                    add(nm, n, args[0] if args else none)
                elif nm == "__import__":
                    add("import", n, args[0] if args else none)
                elif nm in alias:
                    add(alias[nm], n, ast.Tuple(elts=list(args), ctx=ast.Load()) if len(args) != 1 else args[0])
                elif nm in ("getattr", "setattr", "delattr") and len(args) >= 2 and not isinstance(args[1], ast.Constant):
                    add(nm, n, args[1], obj=args[0])
                elif nm == "open":
                    mode = args[1] if len(args) > 1 else next((k.value for k in n.keywords if k.arg == "mode"), None)
                    if mode is not None and not (isinstance(mode, ast.Constant) and isinstance(mode.value, str) and not set(mode.value) & set("wax+")):
                        add("openwrite", n, args[0] if args else none, "mode " + ast.unparse(mode))
            elif isinstance(fn, ast.Attribute):
                base = ast.unparse(fn.value)
                if base == "importlib" or base.startswith("importlib."):
                    add("importlib", n, args[0] if args else none)
                elif base == "os" and fn.attr in OS_CMD:
                    add("oscommand", n, args[0] if args else none)
                elif base == "subprocess" or base.startswith("subprocess."):
                    add("subprocess", n, ast.Tuple(elts=list(args), ctx=ast.Load()) if len(args) != 1 else args[0])
                elif base in UNPICKLE_MODS and fn.attr in ("load", "loads", "Unpickler", "unsafe_load", "full_load", "decode"):
                    add("unpickle", n, args[0] if args else none)
                elif base == "builtins" and fn.attr in ("eval", "exec", "compile", "__import__"):
                    add("import" if fn.attr == "__import__" else fn.attr, n, args[0] if args else none)
                elif fn.attr == "open" and base in ("codecs", "io", "gzip", "bz2", "lzma"):
                    mode = args[1] if len(args) > 1 else next((k.value for k in n.keywords if k.arg == "mode"), None)
                    if mode is not None and not (isinstance(mode, ast.Constant) and isinstance(mode.value, str) and not set(mode.value) & set("wax+")):
                        add("openwrite", n, args[0] if args else none, "mode " + ast.unparse(mode))
                elif fn.attr in ("write_text", "write_bytes", "unlink", "rmdir", "mkdir", "rename", "replace") and base not in ("os", "shutil") \
                        and not isinstance(fn.value, ast.Constant) and fn.attr in ("write_text", "write_bytes"):
                    add("openwrite", n, fn.value)
                elif fn.attr in ("format", "format_map"):
                    der, dnode = derive(fn.value, envs)
                    if not const_str(dnode):
                        add("format", n, fn.value)
    sinks.sort(key=lambda s: (s["module"], s["line"], s["kind"]))
    # cross-check with a plain text scan of the reachable modules
    rx = re.compile(r"(?<![\w.])(eval|exec|compile|__import__)\s*\(")
    text_hits = 0
    for m in reach:
        src = open(mods[m], encoding="utf-8").read()
        # drop comments and docstrings roughly: use tokenize
        import io
        import tokenize
        toks = []
        try:
            for tok in tokenize.generate_tokens(io.StringIO(src).readline):
                if tok.type in (tokenize.COMMENT, tokenize.STRING):
                    continue
                toks.append(tok.string)
        except tokenize.TokenError:
            pass
        code = " ".join(toks)
        text_hits += len(re.findall(r"(?<![\w.] )(?<![\w.])\b(eval|exec|compile|__import__) \(", code))
    ast_hits = sum(1 for s in sinks if s["kind"] in ("eval", "exec", "compile", "import"))
    return {"reachable_modules": sorted(m or "__init__" for m in reach), "n_functions": len(funcs),
            "n_on_path": len(on), "sinks": sinks, "text_hits": text_hits, "ast_hits": ast_hits,
            "crosscheck_ok": text_hits == ast_hits}


def emit(rep, gen_dir):
    lines = ["import DS.Model.Sinks",
             "/-! GENERATED by translate/sinks.py from the ast of %d reachable modules (%d functions, %d on the parse path) — do not edit. -/" % (
                 len(rep["reachable_modules"]), rep["n_functions"], rep["n_on_path"]),
             "namespace DS.Gen", "open DS.Sinks",
             "def sinkModules : List String := [%s]" % ", ".join(lean_str(m) for m in rep["reachable_modules"]),
             "/-- the plain-text scan for eval/exec/compile/__import__ agrees with the ast pass -/",
             "def sinkCrosscheck : Bool := %s" % ("true" if rep["crosscheck_ok"] else "false"),
             "def sinks : List Sink := ["]
    rows = []
    for s in rep["sinks"]:
        rows.append("  { module := %s, func := %s, line := %d, kind := %s, onParsePath := %s, tainted := %s,\n    arg := %s,\n    derivation := %s,\n    guards := %s }" % (
            lean_str(s["module"]), lean_str(s["func"]), s["line"], KIND_LEAN[s["kind"]], "true" if s["onParsePath"] else "false",
            "true" if s["tainted"] else "false", lean_str(s["arg"]), lean_str(s["derivation"]), lean_str(s["guards"])))
    lines.append(",\n".join(rows))
    lines.append("]")
    lines.append("end DS.Gen")
    text = "\n".join(lines) + "\n"
    os.makedirs(gen_dir, exist_ok=True)
    path = os.path.join(gen_dir, "Sinks.lean")
    try:
        old = open(path, encoding="utf-8").read()
    except OSError:
        old = None
    if old != text:
        with open(path, "w", encoding="utf-8") as f:
            f.write(text)
    with open(os.path.join(gen_dir, "sinks_report.json"), "w") as f:
        json.dump(rep, f, indent=1)


def main(gen_dir=None, repo=None):
    repo = repo or os.environ.get("VERIF_REPO", "/repo")
    gen_dir = gen_dir or os.path.join(VERIF, "lean", "DS", "Gen")
    rep = analyse(repo)
    emit(rep, gen_dir)
    return rep


if __name__ == "__main__":
    r = main()
    print("sinks: %d modules reachable, %d functions (%d on the parse path), %d sinks, text/ast cross-check %s" % (
        len(r["reachable_modules"]), r["n_functions"], r["n_on_path"], len(r["sinks"]), "ok" if r["crosscheck_ok"] else "MISMATCH %d/%d" % (r["text_hits"], r["ast_hits"])))
    for s in r["sinks"]:
        print("  %-22s %-45s %4d %-9s path=%d taint=%d  %s  <=  %s  [%s]" % (s["module"], s["func"][:45], s["line"], s["kind"], s["onParsePath"], s["tainted"],
                                                                              s["arg"][:30], s["derivation"][:70], s["guards"][:90]))
