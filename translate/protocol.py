"""Translator for C19: which build protocol do the two lazily built lookup tables of
`diffpy/structure/spacegroups.py` use, and do the reader functions test emptiness first?

Reads the source with `ast` (nothing is imported or executed) and emits
`lean/DS/Gen/Protocol.lean` (+ a JSON report with the events it saw).

Classification of a module-level dictionary N:
  publish   exactly one statement in the whole module mutates N; it is `N.update(X)` / `N |= X`
            / `global N; N = X`, it is not inside a loop or comprehension, and X is a local name
            bound exactly once in that function to an empty dict display / `dict()`.
  inplace   N is mutated by per-key stores (`N[k] = v`, `N.setdefault`, `del N[k]`, `N.pop…`)
            or by a bulk update inside a loop; `clr` = `N.clear()` also occurs.
  unknown   anything else (e.g. clear + update, update from a non-private dict).
Reader shape of a function that looks keys up in N (directly or through a local alias obtained from
an accessor function returning N):
  ensureFirst  the first event on N is the emptiness test guarding the build (possibly inside the
               accessor), it is the only emptiness test / build, and all later events are
               `k in N` / `N[k]` / `N.get(k)`.
  other        anything else.
"""
import ast
import json
import os
import sys

VERIF = os.path.dirname(os.path.dirname(os.path.abspath(__file__)))
REPO = os.environ.get("VERIF_REPO", "/repo")
TABLES = {"id": "_sg_lookup_table", "hash": "_sg_hash_lookup_table"}
PERKEY_METHODS = {"setdefault", "pop", "popitem", "__setitem__", "__delitem__"}
BULK_METHODS = {"update"}
READ_METHODS = {"get", "__getitem__", "__contains__", "keys", "values", "items", "copy"}


class FuncScan(ast.NodeVisitor):
    """Ordered events on the names in `names` (the table or its local aliases) inside one function."""

    def __init__(self, func, table, accessors):
        self.func = func
        self.table = table
        self.accessors = accessors  # functions returning the table (name -> summary)
        self.names = {table}
        self.events = []  # (lineno, col, kind, in_loop, detail)
        self.loop = 0
        self.globals = set()
        self.assign_count = {}
        self.assign_value = {}
        for st in func.body:
            self.visit(st)
        self.events.sort(key=lambda e: (e[0], e[1]))

    def ev(self, node, kind, detail=""):
        self.events.append((node.lineno, node.col_offset, kind, self.loop > 0, detail))

    def is_tab(self, node):
        return isinstance(node, ast.Name) and node.id in self.names

    # scopes
    def visit_FunctionDef(self, node):  # nested function: treat conservatively as a loop body
        self.loop += 1
        self.generic_visit(node)
        self.loop -= 1

    visit_Lambda = visit_FunctionDef

    def _loop(self, node):
        self.loop += 1
        self.generic_visit(node)
        self.loop -= 1

    visit_For = visit_While = visit_ListComp = visit_SetComp = visit_DictComp = visit_GeneratorExp = _loop

    def visit_Global(self, node):
        self.globals.update(node.names)

    def visit_Assign(self, node):
        for t in node.targets:
            if isinstance(t, ast.Name):
                self.assign_count[t.id] = self.assign_count.get(t.id, 0) + 1
                self.assign_value[t.id] = node.value
                if t.id == self.table:
                    self.ev(node, "rebind", ast.unparse(node.value))
                # alias: x = N  or  x = accessor()
                if self.is_tab(node.value):
                    self.names.add(t.id)
                    self.ev(node, "alias", t.id)
                elif (isinstance(node.value, ast.Call) and isinstance(node.value.func, ast.Name)
                      and self.accessors.get(node.value.func.id)):
                    self.names.add(t.id)
            elif isinstance(t, ast.Subscript) and self.is_tab(t.value):
                self.ev(node, "perkey", "store")
        self.generic_visit(node)

    def visit_AugAssign(self, node):
        if self.is_tab(node.target):
            self.ev(node, "bulk" if isinstance(node.op, ast.BitOr) else "rebind", ast.unparse(node.value))
        elif isinstance(node.target, ast.Subscript) and self.is_tab(node.target.value):
            self.ev(node, "perkey", "augstore")
        self.generic_visit(node)

    def visit_Delete(self, node):
        for t in node.targets:
            if isinstance(t, ast.Subscript) and self.is_tab(t.value):
                self.ev(node, "perkey", "del")
        self.generic_visit(node)

    def visit_Call(self, node):
        f = node.func
        if isinstance(f, ast.Attribute) and self.is_tab(f.value):
            if f.attr == "clear":
                self.ev(node, "clear")
            elif f.attr in PERKEY_METHODS:
                self.ev(node, "perkey", f.attr)
            elif f.attr in BULK_METHODS:
                self.ev(node, "bulk", ast.unparse(node.args[0]) if node.args else "")
            elif f.attr in READ_METHODS:
                self.ev(node, "get" if f.attr in ("get", "__getitem__") else "contains" if f.attr == "__contains__" else "read", f.attr)
            else:
                self.ev(node, "othermethod", f.attr)
        elif isinstance(f, ast.Name):
            if f.id == "len" and node.args and self.is_tab(node.args[0]):
                self.ev(node, "empty?", "len")
            elif f.id in ("bool",) and node.args and self.is_tab(node.args[0]):
                self.ev(node, "empty?", "bool")
            elif f.id in self.accessors:
                self.ev(node, "call", f.id)
            else:
                for a in node.args:
                    if self.is_tab(a):
                        self.ev(node, "escape", f.id)
        self.generic_visit(node)

    def visit_Subscript(self, node):
        if self.is_tab(node.value) and isinstance(node.ctx, ast.Load):
            self.ev(node, "get", "subscript")
        self.generic_visit(node)

    def visit_Compare(self, node):
        for op, c in zip(node.ops, node.comparators):
            if isinstance(op, (ast.In, ast.NotIn)) and self.is_tab(c):
                self.ev(node, "contains", "in")
        self.generic_visit(node)

    def _truth(self, test):
        if self.is_tab(test):
            self.ev(test, "empty?", "truth")
        elif isinstance(test, ast.UnaryOp) and isinstance(test.op, ast.Not) and self.is_tab(test.operand):
            self.ev(test, "empty?", "not")
        elif isinstance(test, ast.BoolOp):
            for v in test.values:
                self._truth(v)

    def visit_If(self, node):
        self._truth(node.test)
        self.generic_visit(node)

    visit_IfExp = visit_If

    def visit_Assert(self, node):
        # assertions about the table are reads that do not influence the protocol
        return

    def visit_Return(self, node):
        if node.value is not None and self.is_tab(node.value):
            self.ev(node, "return-table")
        self.generic_visit(node)


MUTATING = ("perkey", "clear", "bulk", "rebind")


def private_dict(scan, expr):
    """Is the argument of the bulk update a local name bound once to an empty dict?"""
    try:
        node = ast.parse(expr, mode="eval").body
    except SyntaxError:
        return False
    if not isinstance(node, ast.Name) or node.id in scan.names or node.id in scan.globals:
        return False
    if scan.assign_count.get(node.id) != 1:
        return False
    v = scan.assign_value[node.id]
    if isinstance(v, ast.Dict) and not v.keys:
        return True
    return isinstance(v, ast.Call) and isinstance(v.func, ast.Name) and v.func.id == "dict" and not v.args and not v.keywords


def analyse(src_path):
    tree = ast.parse(open(src_path, encoding="utf-8").read(), src_path)
    funcs = [n for n in tree.body if isinstance(n, ast.FunctionDef)]
    report = {}
    for tag, table in TABLES.items():
        # module-level initialisation
        inits = [n for n in tree.body if isinstance(n, ast.Assign) and any(isinstance(t, ast.Name) and t.id == table for t in n.targets)]
        # pass 1: accessor functions (return the table object itself)
        accessors = {}   # functions returning the table object or mutating it: their calls are events
        for _ in range(2):
            scans = {f.name: FuncScan(f, table, accessors) for f in funcs}
            for name, sc in scans.items():
                if any(e[2] == "return-table" or e[2] in MUTATING for e in sc.events):
                    accessors[name] = any(e[2] == "return-table" for e in sc.events)
        writers = {n: sc for n, sc in scans.items() if any(e[2] in MUTATING for e in sc.events)}
        muts = [(n, e) for n, sc in writers.items() for e in sc.events if e[2] in MUTATING]
        why = ""
        if len(inits) != 1:
            proto, why = "unknown", "table initialised %d times at module level" % len(inits)
        elif not muts:
            proto, why = "unknown", "no function mutates %s" % table
        elif any(e[2] == "perkey" for _, e in muts) or any(e[2] == "bulk" and e[3] for _, e in muts):
            proto = "inplace-clear" if any(e[2] == "clear" for _, e in muts) else "inplace-noclear"
            why = "per-key store / update inside a loop on the shared dictionary at line(s) %s" % sorted({e[0] for _, e in muts})[:6]
        elif len(muts) == 1 and muts[0][1][2] in ("bulk", "rebind") and not muts[0][1][3] and private_dict(writers[muts[0][0]], muts[0][1][4]):
            proto = "publish"
            why = "single %s from the private dictionary %r at line %d of %s" % (muts[0][1][2], muts[0][1][4], muts[0][1][0], muts[0][0])
        else:
            proto, why = "unknown", "mutations %r" % [(n, e[0], e[2], e[4]) for n, e in muts]
        # builders = writers; ensure-functions = functions whose first event is `empty?` and which call a writer or are one
        readers = {}
        for name, sc in scans.items():
            evs = [e for e in sc.events if e[2] not in ("alias",)]
            kinds = []
            for e in evs:
                k = e[2]
                if k == "call":
                    callee = scans.get(e[4])
                    ck = [x[2] for x in callee.events if x[2] != "alias"] if callee else []
                    if e[4] in writers and ck and ck[0] == "empty?":
                        k = "ensure"       # accessor that tests emptiness itself and builds
                    elif e[4] in writers:
                        k = "build"
                    else:
                        k = "call-accessor"
                kinds.append(k)
            if not any(k in ("contains", "get") for k in kinds):
                continue
            if name in writers and not any(k == "empty?" for k in kinds):
                continue  # the builder's own reads of the (private) table
            # collapse `empty?` + (`build` | own mutations) into ensure
            seq = []
            i = 0
            while i < len(kinds):
                k = kinds[i]
                if k == "empty?" and i + 1 < len(kinds) and kinds[i + 1] == "build":
                    seq.append("ensure")
                    i += 2
                    continue
                seq.append(k)
                i += 1
            shape = "ensureFirst" if seq and seq[0] == "ensure" and all(k in ("contains", "get") for k in seq[1:]) else "other"
            readers[name] = {"shape": shape, "events": seq, "lines": [e[0] for e in evs]}
        report[tag] = {
            "table": table,
            "protocol": proto,
            "why": why,
            "writers": {n: [(e[0], e[2], e[3], e[4]) for e in sc.events] for n, sc in writers.items()},
            "readers": readers,
        }
    return report


LEAN_PROTO = {"publish": ".publish", "inplace-clear": ".inplace true", "inplace-noclear": ".inplace false", "unknown": ".unknown"}


def emit(report, gen_dir):
    def reader_shape(tag):
        rs = report[tag]["readers"]
        # public lookup functions only (the accessor itself is covered through its callers)
        pub = {n: r for n, r in rs.items() if not n.startswith("_")}
        if not pub:
            return ".other"
        return ".ensureFirst" if all(r["shape"] == "ensureFirst" for r in pub.values()) else ".other"

    lines = [
        "import DS.Model.Sched",
        "/-! GENERATED by translate/protocol.py from spacegroups.py — do not edit. -/",
        "namespace DS.Gen",
        "open DS.Sched",
    ]
    for tag in ("id", "hash"):
        r = report[tag]
        lines.append("/-- %s: %s -/" % (r["table"], r["why"].replace("-/", "- /")))
        lines.append("def %sProtocol : Protocol := %s" % (tag, LEAN_PROTO[r["protocol"]]))
        lines.append("/-- readers of %s: %s -/" % (r["table"], ", ".join("%s=%s" % (n, "/".join(x["events"])) for n, x in sorted(r["readers"].items()))))
        lines.append("def %sReader : Reader := %s" % (tag, reader_shape(tag)))
        report[tag]["reader_shape"] = reader_shape(tag).lstrip(".")
    lines.append("end DS.Gen")
    text = "\n".join(lines) + "\n"
    os.makedirs(gen_dir, exist_ok=True)
    path = os.path.join(gen_dir, "Protocol.lean")
    old = None
    try:
        old = open(path, encoding="utf-8").read()
    except OSError:
        pass
    if old != text:
        with open(path, "w", encoding="utf-8") as f:
            f.write(text)
    with open(os.path.join(gen_dir, "protocol_report.json"), "w") as f:
        json.dump(report, f, indent=1)
    return report


def main(gen_dir=None, repo=None):
    repo = repo or os.environ.get("VERIF_REPO", "/repo")
    gen_dir = gen_dir or os.path.join(VERIF, "lean", "DS", "Gen")
    rep = analyse(os.path.join(repo, "src", "diffpy", "structure", "spacegroups.py"))
    return emit(rep, gen_dir)


if __name__ == "__main__":
    r = main()
    for tag in ("id", "hash"):
        print("%s: %s, readers %s (%s)" % (r[tag]["table"], r[tag]["protocol"], r[tag]["reader_shape"], r[tag]["why"]))
