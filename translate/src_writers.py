"""Source tie of the WRITERS (`toLines` of the parsers; property C04).

Plug-in of translate/pysrc.py (the module global `pysrc` is injected).  Reads the *current*
`src/diffpy/structure/parsers/p_{xyz,rawxyz,discus,pdffit,pdb,xcfg,cif}.py` with `ast` and writes
`lean/DS/Gen/SrcWriters.lean` (namespace `DS.Src.Writers`):

LEVEL 1 - executable transliteration (xyz, rawxyz, discus, pdffit, pdb): `toLines` (and for PDB `cryst1Lines`,
`atomLines`, the record of `titleLines`) statement by statement as a Lean function of the document type of
`DS.Formats` (`XyzS`, `List PAtom`, `DiscusS`, `PdffitS`, `PdbS`).  Every `"<template>" % args` becomes
`pyFormat <pieces> <args>` / `pyFormatD <pieces> <dict>` of `DS/Model/PyFormat.lean`; the pieces are emitted as
`<fmt>_t<k>` together with the source string `<fmt>_t<k>_src` (re-parsed in Lean: `templates_parse`).

  statements   docstring; `lines = []` (`self.lines = lines = []`); `lines.append(E)`; `lines.extend([E, ...])`;
               `lines.extend(self.<helper>(...))` for the translated helpers; `x = E` (a string expression becomes a
               `let`, anything else is kept symbolically and substituted where `x` is used - so local names are free);
               `if C: ...` / `if C: ... else: ...` with `C` in the binding table; `for a in stru:` (`self.stru`);
               `for i in range(len(stru)):`; `return lines` as the last statement; the statements listed in
               `PREAMBLE` (bookkeeping of `self.stru` / the pdffit dictionary), compared as normalised text
  expressions  string constants, `+` on strings, `T % args` (tuple, single value, `tuple(X)`, dictionary),
               `.strip() .lstrip() .rstrip() .upper() .lower()`, `str(n)`, `s[i:j]` with constant bounds,
               integer `+`, and the LEAVES of the binding table below
  binding      the table `BIND[fmt]`: normalised source text of an expression of the structure (after substitution
               of the locals and the `ALIASES`) -> field of the document.  It is the inverse of `doc_fields` of
               harness/c04.py, which fills the same document from the same expressions through the public API
               (e.g. `a.xyz_cartn[0]` <-> `PAtom.x`, `a.Bisoequiv` <-> `DAtom.b`, `stru.lattice.abcABG()` <->
               `DiscusS.cell`).  A condition is bound to a Boolean (`0 < d.spd`), to an `Option` field of the document
               (`d.cell`: CRYST1 only for a non-default cell; `a.aniso`: ANISOU only for an anisotropic atom) or to
               `False` (PDB: the sigma records; the documents carry zero standard deviations).
  anything else (another statement, an expression not in the table, a flag such as `%+8.3f`) raises `Untranslatable`
  and the writer is emitted as `<fmt>_toLines_untranslatable`, so the theorems of `DS.Props.SrcWriters` about it no
  longer elaborate.

LEVEL 2 - data (all seven writers, also xcfg and cif whose control flow is not in the subset): for every function
read, in source order, the list of `%` templates with their parsed pieces and the normalised text of their argument
(`<fmt>_templates`), and the text of the function with the docstring removed and the local names replaced by
their position of first binding (`<fmt>_<function>_src`), which the `_data` theorems pin.  PDB `titleLines` (a `while`
loop with `rfind`) is tied this way: its record and continuation number are transliterated, the chunking loop is text.
"""
import ast
import copy
import os
import re

GROUP = "writers"
OUTFILE = "SrcWriters.lean"

if "pysrc" not in globals():
    from translate import pysrc  # noqa: F401


def U(msg):
    return pysrc.Untranslatable(msg)


# ======================================================================================================
# rendering
# ======================================================================================================

def lean_char(c):
    o = ord(c)
    if c == "'":
        return "'\\''"
    if c == "\\":
        return "'\\\\'"
    if c == "\n":
        return "'\\n'"
    if c == "\t":
        return "'\\t'"
    if 32 <= o < 127:
        return "'%s'" % c
    return "(Char.ofNat %d)" % o


def lean_chars(s):
    if s == "":
        return "([] : Str)"
    return "[" + ", ".join(lean_char(c) for c in s) + "]"


def lean_string(s):
    out = ['"']
    for c in s:
        o = ord(c)
        if c == "\\":
            out.append("\\\\")
        elif c == '"':
            out.append('\\"')
        elif c == "\n":
            out.append("\\n")
        elif c == "\t":
            out.append("\\t")
        elif 32 <= o < 127:
            out.append(c)
        else:
            out.append("\\u{%x}" % o)
    out.append('"')
    return "".join(out)


RX_CONV = re.compile(r"%(?:\((?P<key>[^)]*)\))?(?P<flags>[-0]*)(?P<w>\d*)(?:\.(?P<p>\d*))?(?P<ty>[fgidsc])")
TY = {"f": ".f", "g": ".g", "i": ".i", "d": ".i", "s": ".s", "c": ".c"}


def parse_template(t):
    """-> list of ("lit", text) | ("conv", key|None, left, zero, width, prec|None, ty)"""
    out = []
    lit = ""
    i = 0
    while i < len(t):
        c = t[i]
        if c != "%":
            lit += c
            i += 1
            continue
        if t.startswith("%%", i):
            lit += "%"
            i += 2
            continue
        m = RX_CONV.match(t, i)
        if not m:
            raise U("conversion outside the subset in template %r at %d" % (t, i))
        if lit:
            out.append(("lit", lit))
            lit = ""
        fl = m.group("flags")
        out.append(("conv", m.group("key"), "-" in fl, "0" in fl, int(m.group("w") or 0),
                    None if m.group("p") is None else int(m.group("p") or 0), TY[m.group("ty")]))
        i = m.end()
    if lit:
        out.append(("lit", lit))
    return out


def lean_pieces(ps):
    r = []
    for p in ps:
        if p[0] == "lit":
            r.append(".lit %s" % lean_chars(p[1]))
        else:
            _, key, left, zero, w, pr, ty = p
            spec = "⟨%s, %s, %d, %s, %s⟩" % ("true" if left else "false", "true" if zero else "false", w,
                                            "none" if pr is None else "some %d" % pr, ty)
            if key is None:
                r.append(".conv %s" % spec)
            else:
                r.append(".named %s %s" % (lean_chars(key), spec))
    return "[" + ", ".join(r) + "]"


# ======================================================================================================
# normalised text
# ======================================================================================================

def strip_doc(body):
    if body and isinstance(body[0], ast.Expr) and isinstance(body[0].value, ast.Constant) and isinstance(body[0].value.value, str):
        return body[1:]
    return body


def alpha_text(fn):
    """text of a function: docstring removed, parameters and local names replaced by `_k` (k = position of first
    binding in source order), so that renaming a local does not change the text"""
    fn = copy.deepcopy(fn)
    fn.body = strip_doc(fn.body) or [ast.Pass()]
    fn.decorator_list = []
    fn.returns = None
    order = []

    def bind(n):
        if n not in order:
            order.append(n)

    for a in fn.args.posonlyargs + fn.args.args + fn.args.kwonlyargs:
        bind(a.arg)

    class B(ast.NodeVisitor):
        def visit_Name(self, n):
            if isinstance(n.ctx, (ast.Store, ast.Del)):
                bind(n.id)

        def visit_FunctionDef(self, n):     # nested definitions: name only
            bind(n.name)
            self.generic_visit(n)

        def visit_Import(self, n):
            for al in n.names:
                bind((al.asname or al.name).split(".")[0])

    for st in fn.body:
        B().visit(st)
    ren = {n: "_%d" % k for k, n in enumerate(order)}

    class R(ast.NodeTransformer):
        def visit_Name(self, n):
            if n.id in ren:
                return ast.copy_location(ast.Name(id=ren[n.id], ctx=n.ctx), n)
            return n

        def visit_arg(self, n):
            if n.arg in ren:
                n.arg = ren[n.arg]
            n.annotation = None
            return n

        def visit_alias(self, n):
            return n

    fn = R().visit(fn)
    fn.name = "f"
    return ast.unparse(ast.fix_missing_locations(fn))


def templates_of(fn):
    """every `"<str>" % X` of a function in source order: (template, pieces, text of X)"""
    out = []

    def const_str(n):
        if isinstance(n, ast.Constant) and isinstance(n.value, str):
            return n.value
        if isinstance(n, ast.BinOp) and isinstance(n.op, ast.Add):
            a, b = const_str(n.left), const_str(n.right)
            if a is not None and b is not None:
                return a + b
        return None

    class V(ast.NodeVisitor):
        def visit_BinOp(self, n):
            if isinstance(n.op, ast.Mod):
                t = const_str(n.left)
                if t is not None:
                    out.append((t, ast.unparse(n.right)))
                    self.visit(n.right)
                    return
            self.generic_visit(n)

    V().visit(fn)
    return out


# ======================================================================================================
# the per-format binding tables
# ======================================================================================================

PF = "PDFFitStructure().pdffit"
ALIASES_COMMON = [
    ("self.stru", "stru"),
    ("stru[idx]", "a"),
    (PF, "PF"),
    ("a.__dict__.get('sigxyz', numpy.zeros(3, dtype=float))", "a.sigxyz"),
    ("a.__dict__.get('sigo', 0.0)", "a.sigo"),
    ("a.__dict__.get('sigU', numpy.zeros((3, 3), dtype=float))", "a.sigU"),
]

ATOM_CART = {
    "a.element": ("a.el", "S"),
    "a.xyz_cartn[0]": ("a.x", "R"),
    "a.xyz_cartn[1]": ("a.y", "R"),
    "a.xyz_cartn[2]": ("a.z", "R"),
}

SHAPE = {
    "PF['spcgr']": ("d.spcgr", "S"),
    "PF.get('spdiameter', 0.0) > 0.0": ("0 < d.spd", "B"),
    "PF['spdiameter']": ("d.spd", "R"),
    "PF.get('stepcut', 0.0) > 0.0": ("0 < d.stepcut", "B"),
    "PF['stepcut']": ("d.stepcut", "R"),
}

FRAC = {
    "a.element": ("a.el", "S"),
    "a.xyz[0]": ("a.pos.x", "R"),
    "a.xyz[1]": ("a.pos.y", "R"),
    "a.xyz[2]": ("a.pos.z", "R"),
}

LATPAR_TUPLE = "(stru.lattice.a, stru.lattice.b, stru.lattice.c, stru.lattice.alpha, stru.lattice.beta, stru.lattice.gamma)"

PDB_SIGMAS = ("numpy.any(numpy.fabs(numpy.concatenate((a.sigxyz, [a.sigo], [8 * pi ** 2 * numpy.average([a.sigU[i, i] for i in range(3)])]))) "
              ">= numpy.array(3 * [0.0005] + 2 * [0.005])) or numpy.any(numpy.fabs(a.sigU) > 5e-05)")

FORMATS = {
    "xyz": dict(
        file="p_xyz.py", cls="P_xyz", doc="(d : XyzS)", atoms="d.atoms", atom="PAtom",
        bind=dict(ATOM_CART, **{
            "len(stru)": ("d.atoms.length", "N"),
            "stru.title": ("d.title", "S"),
        }), preamble=[]),
    "rawxyz": dict(
        file="p_rawxyz.py", cls="P_rawxyz", doc="(d : List PAtom)", atoms="d", atom="PAtom",
        bind=dict(ATOM_CART), preamble=[]),
    "discus": dict(
        file="p_discus.py", cls="P_discus", doc="(d : DiscusS)", atoms="d.atoms", atom="DAtom",
        bind=dict(FRAC, **dict(SHAPE, **{
            "stru.title": ("d.title", "S"),
            "stru.lattice.abcABG()": ("d.cell.toList.map Val.num", "T"),
            "len(stru)": ("(d.atoms.length : Int)", "Z"),
            "a.Bisoequiv": ("a.b", "R"),
        })),
        preamble=["stru = stru",
                  "if not isinstance(stru, PDFFitStructure):\n    stru = PDFFitStructure(stru)",
                  "if stru.pdffit:\n    PF.update(stru.pdffit)"]),
    "pdffit": dict(
        file="p_pdffit.py", cls="P_pdffit", doc="(d : PdffitS)", atoms="d.atoms", atom="PFAtom",
        bind=dict(FRAC, **dict(SHAPE, **{
            "stru.title": ("d.title", "S"),
            "PF['scale']": ("d.scale", "R"),
            "PF['delta2']": ("d.delta2", "R"),
            "PF['delta1']": ("d.delta1", "R"),
            "PF['sratio']": ("d.sratio", "R"),
            "PF['rcut']": ("d.rcut", "R"),
            "stru.lattice.a": ("d.cell.a", "R"),
            "stru.lattice.b": ("d.cell.b", "R"),
            "stru.lattice.c": ("d.cell.c", "R"),
            "stru.lattice.alpha": ("d.cell.al", "R"),
            "stru.lattice.beta": ("d.cell.be", "R"),
            "stru.lattice.gamma": ("d.cell.ga", "R"),
            "PF['dcell']": ("d.dcell.toList.map Val.num", "T"),
            "len(stru)": ("(d.atoms.length : Int)", "Z"),
            "a.occupancy": ("a.occ", "R"),
            "numpy.concatenate((a.sigxyz, [a.sigo]))": ("[Val.num a.sigpos.x, Val.num a.sigpos.y, Val.num a.sigpos.z, Val.num a.sigo]", "T"),
            "a.U[0][0]": ("a.uii.x", "R"), "a.U[1][1]": ("a.uii.y", "R"), "a.U[2][2]": ("a.uii.z", "R"),
            "a.U[0][1]": ("a.uij.x", "R"), "a.U[0][2]": ("a.uij.y", "R"), "a.U[1][2]": ("a.uij.z", "R"),
            "a.sigU[0][0]": ("a.suii.x", "R"), "a.sigU[1][1]": ("a.suii.y", "R"), "a.sigU[2][2]": ("a.suii.z", "R"),
            "a.sigU[0][1]": ("a.suij.x", "R"), "a.sigU[0][2]": ("a.suij.y", "R"), "a.sigU[1][2]": ("a.suij.z", "R"),
        })),
        preamble=["if stru.pdffit:\n    PF.update(stru.pdffit)"]),
    "pdb": dict(
        file="p_pdb.py", cls="P_pdb", doc="(d : PdbS)", atoms="d.atoms", atom="PdbAtom",
        bind={
            "len(stru)": ("(d.atoms.length : Int)", "Z"),
            "idx": ("(idx : Int)", "Z"),
            LATPAR_TUPLE + " != (1.0, 1.0, 1.0, 90.0, 90.0, 90.0)": ("d.cell", "O", "c"),
            "stru.lattice.a": ("c.a", "R"), "stru.lattice.b": ("c.b", "R"), "stru.lattice.c": ("c.c", "R"),
            "stru.lattice.alpha": ("c.al", "R"), "stru.lattice.beta": ("c.be", "R"), "stru.lattice.gamma": ("c.ga", "R"),
            "a.label or a.element": ("a.name", "S"),
            "a.element": ("a.el", "S"),
            "a.xyz_cartn[0]": ("a.pos.x", "R"), "a.xyz_cartn[1]": ("a.pos.y", "R"), "a.xyz_cartn[2]": ("a.pos.z", "R"),
            "a.occupancy": ("a.occ", "R"),
            "a.Bisoequiv": ("a.b", "R"),
            "not numpy.all(a.U == a.U[0, 0] * numpy.identity(3))": ("a.aniso", "O", "u"),
            "numpy.around(10000.0 * numpy.array([a.U[0, 0], a.U[1, 1], a.U[2, 2], a.U[0, 1], a.U[0, 2], a.U[1, 2]]))": ("u.map Val.int", "T"),
            PDB_SIGMAS: ("False", "F"),
        },
        preamble=[]),
}


# ======================================================================================================
# the statement / expression translator
# ======================================================================================================

class LeanVar:
    def __init__(self, name, ty):
        self.name, self.ty = name, ty


POISON = object()


class Writer:
    def __init__(self, fmt, cfg, out_templates):
        self.fmt = fmt
        self.cfg = cfg
        self.bind = cfg["bind"]
        self.templates = out_templates      # list of (name, src, pieces), in order of first use
        self.leanvars = {}
        self.skipped = []
        self.nlet = 0
        self.acc = None
        self.helpers = {}
        self.loopdefs = []
        self.fname = "toLines"

    # ---- names -------------------------------------------------------------------------------------
    def inline(self, node, env, strict=True):
        w = self

        class T(ast.NodeTransformer):
            def visit_Name(self, n):
                if isinstance(n.ctx, ast.Load) and n.id in env:
                    v = env[n.id]
                    if v is POISON:
                        if not strict:
                            return n
                        raise U("`%s` is used after a branch or loop that assigns it" % n.id)
                    if isinstance(v, LeanVar):
                        return ast.Name(id=v.name, ctx=ast.Load())
                    return copy.deepcopy(v)
                return n

        return T().visit(copy.deepcopy(node))

    def text(self, node):
        t = ast.unparse(node)
        for a, b in ALIASES_COMMON:
            t = t.replace(a, b)
        return t

    # ---- templates ---------------------------------------------------------------------------------
    def const_str(self, n):
        if isinstance(n, ast.Constant) and isinstance(n.value, str):
            return n.value
        if isinstance(n, ast.BinOp) and isinstance(n.op, ast.Add):
            a, b = self.const_str(n.left), self.const_str(n.right)
            if a is not None and b is not None:
                return a + b
        return None

    def template(self, t):
        ps = parse_template(t)
        for name, src, _ in self.templates:
            if src == t:
                return name, ps
        name = "%s_t%d" % (self.fmt, len(self.templates))
        self.templates.append((name, t, ps))
        return name, ps

    # ---- expressions (already inlined) -------------------------------------------------------------
    def val(self, node):
        s, t = self.ex(node)
        if t == "R":
            return "Val.num %s" % par(s)
        if t == "Z":
            return "Val.int %s" % par(s)
        if t == "N":
            return "Val.int ((%s : Nat) : Int)" % s
        if t == "S":
            return "Val.str %s" % par(s)
        raise U("a `%%` argument of type %s: `%s`" % (t, self.text(node)[:100]))

    def vals(self, node):
        """argument of `%` -> Lean `List Val`"""
        k = self.text(node)
        if k in self.bind and self.bind[k][1] == "T":
            return self.bind[k][0]
        if isinstance(node, ast.Call) and isinstance(node.func, ast.Name) and node.func.id == "tuple" and len(node.args) == 1 and not node.keywords:
            k = self.text(node.args[0])
            if k in self.bind and self.bind[k][1] == "T":
                return self.bind[k][0]
            raise U("`tuple(%s)` is not in the binding table" % k[:160])
        if isinstance(node, ast.Tuple):
            return "[" + ", ".join(self.val(e) for e in node.elts) + "]"
        return "[" + self.val(node) + "]"

    def ex(self, node):
        k = self.text(node)
        if k in self.bind and self.bind[k][1] in ("S", "R", "Z", "N", "T"):
            return self.bind[k][0], self.bind[k][1]
        cs = self.const_str(node)
        if cs is not None:
            return lean_chars(cs), "S"
        if isinstance(node, ast.Constant) and isinstance(node.value, int) and not isinstance(node.value, bool):
            return "(%d : Int)" % node.value, "Z"
        if isinstance(node, ast.Name) and node.id in self.leanvars:
            return node.id, self.leanvars[node.id]
        if isinstance(node, ast.BinOp) and isinstance(node.op, ast.Mod):
            t = self.const_str(node.left)
            if t is None:
                raise U("`%%` with a left operand that is not a string constant: `%s`" % k[:100])
            name, ps = self.template(t)
            named = [p for p in ps if p[0] == "conv" and p[1] is not None]
            if named:
                if len(named) != sum(1 for p in ps if p[0] == "conv") or not isinstance(node.right, ast.Dict):
                    raise U("`%(key)` conversions need a dictionary display")
                items = []
                for kk, vv in zip(node.right.keys, node.right.values):
                    if not (isinstance(kk, ast.Constant) and isinstance(kk.value, str)):
                        raise U("dictionary key that is not a string constant")
                    items.append("(%s, %s)" % (lean_chars(kk.value), self.val(vv)))
                return "pyFormatD %s [%s]" % (name, ", ".join(items)), "S"
            return "pyFormat %s %s" % (name, par(self.vals(node.right))), "S"
        if isinstance(node, ast.BinOp) and isinstance(node.op, ast.Add):
            a, at = self.ex(node.left)
            b, bt = self.ex(node.right)
            if at == "S" and bt == "S":
                return "%s ++ %s" % (par(a), par(b)), "S"
            if at in "ZN" and bt in "ZN":
                if at == "N" and bt == "N":
                    return "%s + %s" % (par(a), par(b)), "N"
                ca = a if at == "Z" else "((%s : Nat) : Int)" % a
                cb = b if bt == "Z" else "((%s : Nat) : Int)" % b
                return "%s + %s" % (par(ca), par(cb)), "Z"
            raise U("`+` on %s and %s: `%s`" % (at, bt, k[:100]))
        if isinstance(node, ast.Call) and isinstance(node.func, ast.Attribute) and not node.args and not node.keywords \
                and node.func.attr in ("strip", "lstrip", "rstrip", "upper", "lower"):
            a, at = self.ex(node.func.value)
            if at == "S":
                return "%s %s" % (node.func.attr, par(a)), "S"
        if isinstance(node, ast.Call) and isinstance(node.func, ast.Name) and node.func.id == "str" and len(node.args) == 1 and not node.keywords:
            a, at = self.ex(node.args[0])
            if at == "N":
                return "natDigits %s" % par(a), "S"
            if at == "Z":
                return "fmtIbody %s" % par(a), "S"
        if isinstance(node, ast.Subscript) and isinstance(node.slice, ast.Slice) and node.slice.step is None:
            lo, hi = node.slice.lower, node.slice.upper
            if all(isinstance(x, ast.Constant) and isinstance(x.value, int) and not isinstance(x.value, bool) and x.value >= 0 for x in (lo, hi)) \
                    and lo.value <= hi.value:
                a, at = self.ex(node.value)
                if at == "S":
                    return "slice %d %d %s" % (lo.value, hi.value, par(a)), "S"
        raise U("expression outside the subset and not in the binding table: `%s`" % k[:300])

    def cond(self, node):
        k = self.text(node)
        if k in self.bind and self.bind[k][1] in ("B", "O", "F"):
            return self.bind[k]
        raise U("condition not in the binding table: `%s`" % k[:400])

    # ---- statements --------------------------------------------------------------------------------
    def is_acc_call(self, s, meth):
        return (isinstance(s, ast.Expr) and isinstance(s.value, ast.Call) and isinstance(s.value.func, ast.Attribute)
                and isinstance(s.value.func.value, ast.Name) and s.value.func.value.id == self.acc
                and s.value.func.attr == meth and len(s.value.args) == 1 and not s.value.keywords)

    def mentions_acc(self, node):
        return any(isinstance(n, ast.Name) and n.id == self.acc for n in ast.walk(node))

    def assigned(self, stmts):
        r = set()
        for s in stmts:
            for n in ast.walk(s):
                if isinstance(n, ast.Name) and isinstance(n.ctx, ast.Store):
                    r.add(n.id)
        return r

    def block(self, stmts, env, top=False):
        if not stmts:
            if top:
                raise U("no `return %s` at the end" % self.acc)
            return "[]"
        s, rest = stmts[0], stmts[1:]
        # the accumulator
        if isinstance(s, ast.Assign) and isinstance(s.value, ast.List) and not s.value.elts and self.acc is None \
                and any(isinstance(t, ast.Name) for t in s.targets):
            self.acc = [t for t in s.targets if isinstance(t, ast.Name)][0].id
            return self.block(rest, env, top)
        if self.acc is not None and isinstance(s, ast.Return):
            if not (isinstance(s.value, ast.Name) and s.value.id == self.acc) or rest or not top:
                raise U("`return` that is not the final `return %s`" % self.acc)
            return "[]"
        # bookkeeping statements compared as text
        st = self.text(self.inline(s, env, strict=False))
        if st in self.cfg["preamble"]:
            self.skipped.append(st)
            return self.block(rest, env, top)
        if self.acc is None:
            if isinstance(s, ast.Assign) and len(s.targets) == 1 and isinstance(s.targets[0], ast.Name) and not isinstance(s.value, ast.List):
                env = dict(env)
                env[s.targets[0].id] = self.inline(s.value, env)
                return self.block(rest, env, top)
            raise U("statement before the line list is created: `%s`" % st[:200])
        if self.is_acc_call(s, "append"):
            e, t = self.ex(self.inline(s.value.args[0], env))
            if t != "S":
                raise U("`append` of a non-string: `%s`" % st[:200])
            return "[%s] ++ (%s)" % (e, self.block(rest, env, top))
        if self.is_acc_call(s, "extend"):
            arg = self.inline(s.value.args[0], env)
            k = self.text(arg)
            if k in self.helpers:
                return "%s ++ (%s)" % (self.helpers[k], self.block(rest, env, top))
            if isinstance(arg, ast.List):
                parts = []
                for e in arg.elts:
                    le, t = self.ex(e)
                    if t != "S":
                        raise U("`extend` with a non-string: `%s`" % st[:200])
                    parts.append(le)
                return "[%s] ++ (%s)" % (", ".join(parts), self.block(rest, env, top))
            raise U("`extend` argument: `%s`" % k[:200])
        if isinstance(s, ast.Assign) and len(s.targets) == 1 and isinstance(s.targets[0], ast.Name):
            if self.mentions_acc(s.value):
                raise U("assignment that reads the line list: `%s`" % st[:200])
            name = s.targets[0].id
            rhs = self.inline(s.value, env)
            env = dict(env)
            try:
                le, t = self.ex(rhs)
            except pysrc.Untranslatable:
                le, t = None, None
            if t == "S":
                self.nlet += 1
                v = "v%d_%s" % (self.nlet, re.sub(r"\W", "_", name))
                self.leanvars[v] = "S"
                env[name] = LeanVar(v, "S")
                return "(let %s : Str := %s; %s)" % (v, le, self.block(rest, env, top))
            env[name] = rhs
            return self.block(rest, env, top)
        if isinstance(s, ast.If):
            c = self.cond(self.inline(s.test, env))
            poisoned = self.assigned(s.body) | self.assigned(s.orelse)
            env2 = dict(env)
            for n in poisoned:
                env2[n] = POISON
            restl = self.block(rest, env2, top)
            if c[1] == "F":
                if s.orelse:
                    raise U("`else` of a condition bound to False")
                self.skipped.append("if %s: <%d statements, never taken for the model's documents>" % (self.text(self.inline(s.test, env)), len(s.body)))
                return restl
            body = self.block(s.body, dict(env))
            if c[1] == "B":
                orelse = self.block(s.orelse, dict(env)) if s.orelse else "[]"
                return "(if %s then %s else %s) ++ (%s)" % (c[0], body, orelse, restl)
            if s.orelse:
                raise U("`else` of a condition bound to an optional field")
            return "(match %s with | some %s => %s | none => []) ++ (%s)" % (c[0], c[2], body, restl)
        if isinstance(s, ast.For) and not s.orelse and isinstance(s.target, ast.Name):
            it = self.text(self.inline(s.iter, env))
            env2 = dict(env)
            for n in self.assigned(s.body) | {s.target.id}:
                env2[n] = POISON
            restl = self.block(rest, env2, top)
            benv = dict(env)
            if it == "stru":
                benv[s.target.id] = ast.Name(id="a", ctx=ast.Load())
                outer = set(self.leanvars)
                body = self.block(s.body, benv)
                if not any(re.search(r"\b%s\b" % re.escape(v), body) for v in outer):
                    nm = "%s_%s_forAtom%s" % (self.fmt, self.fname, "" if not self.loopdefs else str(len(self.loopdefs)))
                    self.loopdefs.append("/-- body of the loop `for a in stru` of `%s` -/\ndef %s %s (a : %s) : List Str :=\n  %s\n\n" % (
                        self.fname, nm, self.cfg["doc"], self.cfg["atom"], body))
                    return "((%s).map (fun (a : %s) => %s d a)).flatten ++ (%s)" % (self.cfg["atoms"], self.cfg["atom"], nm, restl)
                return "((%s).map (fun (a : %s) => %s)).flatten ++ (%s)" % (self.cfg["atoms"], self.cfg["atom"], body, restl)
            if it == "range(len(stru))":
                benv[s.target.id] = ast.Name(id="idx", ctx=ast.Load())
                body = self.block(s.body, benv)
                return "((%s).zipIdx.map (fun p => (fun (a : %s) (idx : Nat) => %s) p.1 p.2)).flatten ++ (%s)" % (
                    self.cfg["atoms"], self.cfg["atom"], body, restl)
            raise U("loop over `%s`" % it[:100])
        raise U("statement outside the subset: `%s`" % st[:200])

    def function(self, fn, params):
        """params: canonical names of the parameters after self"""
        args = [a.arg for a in fn.args.args]
        if len(args) != 1 + len(params) or fn.args.vararg or fn.args.kwarg or fn.args.kwonlyargs or fn.decorator_list:
            raise U("signature of %s: %s" % (fn.name, args))
        env = {}
        for a, c in zip(args, ["self"] + params):
            env[a] = ast.Name(id=c, ctx=ast.Load())
        self.acc = None
        self.fname = fn.name
        for t, _ in templates_of(fn):       # number the templates in source order
            self.template(t)
        return self.block(strip_doc(fn.body), env, top=True)


def par(s):
    s = s.strip()
    if re.fullmatch(r"[\w.']+", s):
        return s
    if s.startswith("(") and pysrc.matching(s):
        return s
    if s.startswith("[") and s.endswith("]") and s.count("[") == 1:
        return s
    return "(%s)" % s


# ======================================================================================================
# PDB titleLines: record + continuation number transliterated, the chunking loop pinned as text
# ======================================================================================================

def pdb_title(w, fn):
    body = strip_doc(fn.body)
    loops = [s for s in body if isinstance(s, ast.While)]
    if len(loops) != 1:
        raise U("titleLines: expected exactly one while loop")
    loop = loops[0]
    args = [a.arg for a in fn.args.args]
    if len(args) != 2:
        raise U("titleLines: signature")
    accs = [s.targets[0].id for s in body if isinstance(s, ast.Assign) and isinstance(s.value, ast.List) and not s.value.elts
            and isinstance(s.targets[0], ast.Name)]
    if len(accs) != 1:
        raise U("titleLines: line list")
    acc = accs[0]
    # continuation: `if len(lines) == 0: c = E1 else: c = E2`
    cont = None
    for s in loop.body:
        if isinstance(s, ast.If) and ast.unparse(s.test) == "len(%s) == 0" % acc and len(s.body) == 1 and len(s.orelse) == 1 \
                and all(isinstance(b, ast.Assign) and len(b.targets) == 1 and isinstance(b.targets[0], ast.Name) for b in (s.body[0], s.orelse[0])) \
                and s.body[0].targets[0].id == s.orelse[0].targets[0].id:
            cont = (s.body[0].targets[0].id, s.body[0].value, s.orelse[0].value)
    if cont is None:
        raise U("titleLines: continuation branch not found")
    apps = [s for s in loop.body if isinstance(s, ast.Expr) and isinstance(s.value, ast.Call) and ast.unparse(s.value.func) == acc + ".append"]
    if len(apps) != 1 or len(apps[0].value.args) != 1:
        raise U("titleLines: expected one append in the loop")
    rec = apps[0].value.args[0]
    # the chunk: the only subscript with a slice in the record
    chunks = [n for n in ast.walk(rec) if isinstance(n, ast.Subscript) and isinstance(n.slice, ast.Slice)]
    if len(chunks) != 1:
        raise U("titleLines: chunk expression")
    chunk_txt = ast.unparse(chunks[0])
    w2 = Writer("pdb", dict(w.cfg, bind={"len(%s)" % acc: ("(k : Int)", "Z"), cont[0]: ("cont", "S"), chunk_txt: ("chunk", "S")}), w.templates)
    e1, t1 = w2.ex(cont[1])
    e2, t2 = w2.ex(cont[2])
    er, tr = w2.ex(rec)
    if (t1, t2, tr) != ("S", "S", "S"):
        raise U("titleLines: types")
    out = []
    out.append("/-- continuation field of the `k`-th TITLE record (`len(lines) == 0` is the first) -/\n"
               "def pdb_titleCont (k : Nat) : Str := if k = 0 then %s else %s\n\n" % (e1, e2))
    out.append("/-- the TITLE record appended in the loop of `titleLines` -/\n"
               "def pdb_titleRecord (cont chunk : Str) : Str := %s\n\n" % er)
    out.append("/-- `titleLines`: the records of the chunks; the chunking loop itself (`while`, `rfind(\" \", 10, 60)`) is\n"
               "`titleChunks` of the model, tied by `pdb_titleLines_src` -/\n"
               "def pdb_titleLines (d : PdbS) : List Str :=\n"
               "  (titleChunks (d.title.length + 1) d.title).zipIdx.map (fun p => pdb_titleRecord (pdb_titleCont p.2) p.1)\n\n")
    return "".join(out)


# ======================================================================================================
# main
# ======================================================================================================

DATA_ONLY = {
    "xcfg": dict(file="p_xcfg.py", cls="P_xcfg", funcs=["toLines"], module_funcs=["_is_derived_auxiliary"]),
    "cif": dict(file="p_cif.py", cls="P_cif", funcs=["toLines"], module_funcs=[]),
}

HEADER = """-- GENERATED by translate/src_writers.py from src/diffpy/structure/parsers/p_*.py — do not edit
import DS.Model.Formats
import DS.Model.PyFormat
namespace DS.Src.Writers
open DS.Dec DS.Formats DS.PyFormat
set_option linter.unusedVariables false

"""


def read_class(fname, cls):
    path = os.path.join(pysrc.REPO, "src", "diffpy", "structure", "parsers", fname)
    try:
        text = open(path, encoding="utf-8").read()
        tree = ast.parse(text)
    except (OSError, SyntaxError) as e:
        raise U("cannot read %s: %s" % (fname, e))
    return tree, pysrc.find_class(tree, cls)


def translate(report):
    info = {"methods": {}, "untranslatable": {}, "skipped": {}}
    out = []
    data = []          # (fmt, function name, ast)

    def fail(name, e):
        info["untranslatable"][name] = str(e)
        out.append("def %s_untranslatable : String := %s\n\n" % (name, lean_string(str(e))))

    for fmt, cfg in FORMATS.items():
        try:
            tree, cls = read_class(cfg["file"], cfg["cls"])
        except pysrc.Untranslatable as e:
            fail("%s_toLines" % fmt, e)
            continue
        w = Writer(fmt, cfg, [])
        funcs = ["toLines"]
        defs = []
        try:
            if fmt == "pdb":
                funcs = ["titleLines", "cryst1Lines", "atomLines", "toLines"]
                fn = pysrc.find_func(cls.body, "titleLines")
                if fn is None:
                    raise U("titleLines not found")
                defs.append(pdb_title(w, fn))
                fn = pysrc.find_func(cls.body, "cryst1Lines")
                if fn is None:
                    raise U("cryst1Lines not found")
                defs.append("/-- `P_pdb.cryst1Lines` -/\ndef pdb_cryst1Lines (d : PdbS) : List Str :=\n  %s\n\n" % w.function(fn, ["stru"]))
                fn = pysrc.find_func(cls.body, "atomLines")
                if fn is None:
                    raise U("atomLines not found")
                defs.append("/-- `P_pdb.atomLines` (`a = stru[idx]`) -/\ndef pdb_atomLines (idx : Nat) (a : PdbAtom) : List Str :=\n  %s\n\n" % w.function(fn, ["stru", "idx"]))
                w.helpers = {"self.titleLines(stru)": "pdb_titleLines d", "self.cryst1Lines(stru)": "pdb_cryst1Lines d",
                             "self.atomLines(stru, idx)": "pdb_atomLines idx a"}
            fn = pysrc.find_func(cls.body, "toLines")
            if fn is None:
                raise U("toLines not found")
            body = w.function(fn, ["stru"])
            defs.append("/-- `%s.toLines` -/\ndef %s_toLines %s : List Str :=\n  %s\n\n" % (cfg["cls"], fmt, cfg["doc"], body))
            missing = [p for p in cfg["preamble"] if p not in w.skipped]
            if missing:
                raise U("bookkeeping statement no longer present: %r" % missing[0][:120])
            out.append("/-! ## %s (`%s`) -/\n\n" % (fmt, cfg["file"]))
            for name, src, ps in w.templates:
                if True:
                    out.append("def %s_src : String := %s\n@[simp] def %s : List Piece := %s\n\n" % (name, lean_string(src), name, lean_pieces(ps)))
            out.extend(w.loopdefs)
            out.extend(defs)
            out.append("/-- statements of `%s` skipped by the transliteration (bookkeeping; conditions bound to `False`) -/\n"
                       "def %s_skipped : List String := [%s]\n\n" % (fmt, fmt, ", ".join(lean_string(s) for s in w.skipped)))
            info["methods"]["%s_toLines" % fmt] = True
            info["skipped"][fmt] = w.skipped
        except pysrc.Untranslatable as e:
            fail("%s_toLines" % fmt, e)
        for f in funcs:
            fn = pysrc.find_func(cls.body, f)
            if fn is not None:
                data.append((fmt, f, fn))

    for fmt, cfg in DATA_ONLY.items():
        try:
            tree, cls = read_class(cfg["file"], cfg["cls"])
        except pysrc.Untranslatable as e:
            fail("%s_toLines_src" % fmt, e)
            continue
        for f in cfg["funcs"]:
            fn = pysrc.find_func(cls.body, f)
            if fn is None:
                fail("%s_%s_src" % (fmt, f), U("%s not found" % f))
            else:
                data.append((fmt, f, fn))
        for f in cfg["module_funcs"]:
            fn = pysrc.find_func(tree.body, f)
            if fn is None:
                fail("%s_%s_src" % (fmt, f), U("%s not found" % f))
            else:
                data.append((fmt, f, fn))

    out.append("/-! ## data: every `%` template of the functions read, in source order, and their normalised text -/\n\n")
    all_rows = []
    for fmt, f, fn in data:
        rows = []
        try:
            for t, argtxt in templates_of(fn):
                rows.append("(%s, %s, %s)" % (lean_string(t), lean_pieces(parse_template(t)), lean_string(argtxt)))
            out.append("def %s_%s_templates : List (String × List Piece × String) :=\n  [%s]\n\n" % (fmt, f, ",\n   ".join(rows)))
            all_rows.append("%s_%s_templates" % (fmt, f))
            info["methods"]["%s_%s_templates" % (fmt, f)] = True
        except pysrc.Untranslatable as e:
            fail("%s_%s_templates" % (fmt, f), e)
        out.append("def %s_%s_src : String :=\n  %s\n\n" % (fmt, f, lean_string(alpha_text(fn))))
    seen = []
    for fmt, f, fn in data:
        try:
            for t, _ in templates_of(fn):
                if t not in seen:
                    parse_template(t)
                    seen.append(t)
        except pysrc.Untranslatable:
            pass
    out.append("/-- all distinct templates (source string as characters, pieces as parsed by the translator) -/\n"
               "def allTemplates : List (Str × List Piece) :=\n  [%s]\n\n" % ",\n   ".join(
                   "(%s, %s)" % (lean_chars(t), lean_pieces(parse_template(t))) for t in seen))
    report[GROUP] = info
    return HEADER + "".join(out) + "end DS.Src.Writers\n"
