"""Source translator plug-in: `Atom.msdLat`, `Atom.msdCart` (atom.py)  ->  lean/DS/Gen/SrcMsd.lean  (namespace DS.Src.Msd).

The two methods are read with `ast` from the tree under examination (`pysrc.REPO`, read at call time) and emitted as Lean
definitions over the vocabulary of DS/Model/Adp.lean (`AtomS α`, `LatData α`, `Mat3`, `Vec3`).  `DS.Props.SrcMsd` proves that
the model functions `AtomS.msdLat` / `AtomS.msdCart` — the subject of the C09 theorems `msd_agree`, `msd_iso` — ARE this
transliteration (for every scalar type).

Conventions (= trusted base of this translator), strict templates, typed S (scalar) / V (3-vector) / M (3x3):

  if not self.anisotropy: return self.Uisoequiv     `if !s.aniso then s.uisoequiv else …`  (must be the first statement)
  lat = self.lattice or cartesian_lattice            `let lat := s.latOf`   (`cartesian_lattice` must be the module-level import
                                                     `from diffpy.structure.lattice import cartesian as cartesian_lattice`)
  numpy.array(x, dtype=float)                        `x` (a copy of a vector / matrix value)
  numpy.array([G[0] * lat.ar, G[1] * lat.br, G[2] * lat.cr], dtype=float)   `G.rowScale lat.ar lat.br lat.cr` (row i of G times the i-th factor;
                                                     the three rows must be indexed 0, 1, 2 of ONE matrix in this order)
  v / e, v /= e   (V by S)                           `v.divS e`
  lat.norm(v)                                        `lat.norm v`;  `lat.metrics`, `lat.normbase` : M;  `lat.ar lat.br lat.cr` : S
  numpy.sqrt(numpy.sum(v ** 2))                      `Elem.sqrt (v.x * v.x + v.y * v.y + v.z * v.z)`
  numpy.dot(a, b)                                    M·V `a.mulVec b`, V·V `Vec3.dot a b`, M·M `a.mul b`  (V·M is rejected: not used by the model)
  numpy.transpose(m)                                 `m.transpose`
  self.U                                             `(s.getU).1`  (the property getter; its rewrite of the storage is C09's `readU_transparent`)
  self._U                                            `s.U`         (the stored tensor)
  x = e / return x                                   `let v_x := e` / the value
Anything else makes the translator emit `<name>_untranslatable`, so the tie theorem cannot be stated.
"""
import ast
import os

GROUP = "msd"
OUTFILE = "SrcMsd.lean"


def U(msg):
    return pysrc.Untranslatable(msg)


def norm(st):
    return " ".join(ast.unparse(st).split())


def strip_doc(body):
    if body and isinstance(body[0], ast.Expr) and isinstance(body[0].value, ast.Constant) and isinstance(body[0].value.value, str):
        return body[1:]
    return list(body)


def is_np(f, name):
    return isinstance(f, ast.Attribute) and f.attr == name and isinstance(f.value, ast.Name) and f.value.id == "numpy"


class Tr:
    def __init__(self, param):
        self.env = {param: ("v_" + param, "V")}
        self.lat = None

    def expr(self, e):
        if isinstance(e, ast.Name):
            if e.id in self.env:
                return self.env[e.id]
            raise U("unknown name %s" % e.id)
        if isinstance(e, ast.Attribute) and isinstance(e.value, ast.Name):
            if e.value.id == "self":
                if e.attr == "U":
                    return "(s.getU).1", "M"
                if e.attr == "_U":
                    return "s.U", "M"
                raise U("self.%s" % e.attr)
            if e.value.id == self.lat:
                if e.attr in ("metrics", "normbase"):
                    return "lat.%s" % e.attr, "M"
                if e.attr in ("ar", "br", "cr"):
                    return "lat.%s" % e.attr, "S"
                raise U("lat.%s" % e.attr)
        if isinstance(e, ast.Call):
            f = e.func
            if is_np(f, "array") and len(e.args) == 1 and [k.arg for k in e.keywords] in ([], ["dtype"]):
                if e.keywords and not (isinstance(e.keywords[0].value, ast.Name) and e.keywords[0].value.id == "float"):
                    raise U("dtype %s" % norm(e))
                a = e.args[0]
                if isinstance(a, ast.List):
                    return self.rowscale(a)
                return self.expr(a)
            if is_np(f, "dot") and len(e.args) == 2 and not e.keywords:
                a, ta = self.expr(e.args[0])
                b, tb = self.expr(e.args[1])
                if (ta, tb) == ("M", "V"):
                    return "(%s).mulVec (%s)" % (a, b), "V"
                if (ta, tb) == ("V", "V"):
                    return "Vec3.dot (%s) (%s)" % (a, b), "S"
                if (ta, tb) == ("M", "M"):
                    return "(%s).mul (%s)" % (a, b), "M"
                raise U("numpy.dot of %s and %s" % (ta, tb))
            if is_np(f, "transpose") and len(e.args) == 1 and not e.keywords:
                a, ta = self.expr(e.args[0])
                if ta == "M":
                    return "(%s).transpose" % a, "M"
            if is_np(f, "sqrt") and len(e.args) == 1 and not e.keywords:
                g = e.args[0]
                if (isinstance(g, ast.Call) and is_np(g.func, "sum") and len(g.args) == 1 and not g.keywords and isinstance(g.args[0], ast.BinOp)
                        and isinstance(g.args[0].op, ast.Pow) and isinstance(g.args[0].right, ast.Constant) and g.args[0].right.value == 2):
                    v, tv = self.expr(g.args[0].left)
                    if tv == "V":
                        return "Elem.sqrt (%s.x * %s.x + %s.y * %s.y + %s.z * %s.z)" % ((v,) * 6), "S"
            if (isinstance(f, ast.Attribute) and f.attr == "norm" and isinstance(f.value, ast.Name) and f.value.id == self.lat
                    and len(e.args) == 1 and not e.keywords):
                v, tv = self.expr(e.args[0])
                if tv == "V":
                    return "lat.norm (%s)" % v, "S"
            raise U("call %s" % norm(e))
        if isinstance(e, ast.BinOp) and isinstance(e.op, ast.Div):
            a, ta = self.expr(e.left)
            b, tb = self.expr(e.right)
            if (ta, tb) == ("V", "S"):
                return "(%s).divS (%s)" % (a, b), "V"
            raise U("division %s / %s" % (ta, tb))
        raise U("expression %s" % norm(e))

    def rowscale(self, lst):
        if len(lst.elts) != 3:
            raise U("array literal %s" % norm(lst))
        mat, fac = None, []
        for k, el in enumerate(lst.elts):
            if not (isinstance(el, ast.BinOp) and isinstance(el.op, ast.Mult) and isinstance(el.left, ast.Subscript)
                    and isinstance(el.left.slice, ast.Constant) and el.left.slice.value == k):
                raise U("row %d of %s" % (k, norm(lst)))
            m, tm = self.expr(el.left.value)
            f, tf = self.expr(el.right)
            if tm != "M" or tf != "S" or (mat is not None and m != mat):
                raise U("row %d of %s" % (k, norm(lst)))
            mat = m
            fac.append(f)
        return "(%s).rowScale (%s) (%s) (%s)" % (mat, fac[0], fac[1], fac[2]), "M"


def translate_method(cls, name, tree):
    fn = pysrc.find_func(cls.body, name)
    if fn is None:
        raise U("method %s not found" % name)
    args = [a.arg for a in fn.args.args]
    if len(args) != 2 or args[0] != "self" or fn.args.vararg or fn.args.kwarg or fn.args.kwonlyargs or fn.decorator_list:
        raise U("signature of %s" % name)
    body = strip_doc(fn.body)
    if not body or norm(body[0]) != "if not self.anisotropy: return self.Uisoequiv":
        raise U("first statement of %s: %s" % (name, norm(body[0]) if body else ""))
    # cartesian_lattice must be the module-level import
    ok = any(isinstance(n, ast.ImportFrom) and n.module == "diffpy.structure.lattice" and any(a.name == "cartesian" and a.asname == "cartesian_lattice" for a in n.names)
             for n in tree.body)
    if not ok:
        raise U("cartesian_lattice is not `from diffpy.structure.lattice import cartesian as cartesian_lattice`")
    for n in ast.walk(fn):
        if isinstance(n, ast.Name) and isinstance(n.ctx, ast.Store) and n.id in ("numpy", "self", "cartesian_lattice"):
            raise U("%s rebound" % n.id)
    tr = Tr(args[1])
    lines = ["if !s.aniso then s.uisoequiv", "else"]
    for st in body[1:]:
        if isinstance(st, ast.Assign) and len(st.targets) == 1 and isinstance(st.targets[0], ast.Name):
            t = st.targets[0].id
            if norm(st.value) == "self.lattice or cartesian_lattice":
                if tr.lat is not None:
                    raise U("lattice bound twice")
                tr.lat = t
                lines.append("  let lat := s.latOf")
                continue
            v, ty = tr.expr(st.value)
            lines.append("  let v_%s := %s" % (t, v))
            tr.env[t] = ("v_" + t, ty)
            continue
        if isinstance(st, ast.AugAssign) and isinstance(st.op, ast.Div) and isinstance(st.target, ast.Name) and st.target.id in tr.env:
            t = st.target.id
            a, ta = tr.env[t]
            b, tb = tr.expr(st.value)
            if (ta, tb) != ("V", "S"):
                raise U("in-place division %s" % norm(st))
            lines.append("  let v_%s := (%s).divS (%s)" % (t, a, b))
            continue
        if isinstance(st, ast.Return) and st.value is not None:
            v, ty = tr.expr(st.value)
            if ty != "S":
                raise U("return of %s" % ty)
            if st is not body[-1]:
                raise U("return before the end")
            lines.append("  %s" % v)
            return lines
        raise U("statement %s" % norm(st))
    raise U("%s does not end with a return" % name)


def translate(report):
    path = os.path.join(pysrc.REPO, "src", "diffpy", "structure", "atom.py")
    try:
        tree = ast.parse(open(path, encoding="utf-8").read())
    except (OSError, SyntaxError) as e:
        raise U("cannot read atom.py: %s" % e)
    cls = pysrc.find_class(tree, "Atom")
    if cls is None:
        raise U("class Atom not found")
    rep = {"methods": {}, "untranslatable": {}}
    out = ["-- GENERATED by translate/src_msd.py from src/diffpy/structure/atom.py — do not edit\nimport DS.Model.Adp\nnamespace DS.Src.Msd\nopen DS\n\n",
           "variable {α : Type} [Add α] [Mul α] [Sub α] [Neg α] [Div α] [OfNat α 0] [OfNat α 1]\n  [OfNat α 2] [OfNat α 3] [OfNat α 8] [LT α] [DecidableLT α] [Elem α] [AdpConst α]\n\n"]
    for name, param in (("msdLat", "vl"), ("msdCart", "vc")):
        try:
            lines = translate_method(cls, name, tree)
            fn = pysrc.find_func(cls.body, name)
            p = fn.args.args[1].arg
            out.append("/-- `Atom.%s(self, %s)` -/\ndef %s (s : AtomS α) (v_%s : Vec3 α) : α :=\n  %s\n\n" % (name, p, name, p, "\n  ".join(lines)))
            rep["methods"][name] = "ok"
        except pysrc.Untranslatable as e:
            out.append("def %s_untranslatable : String := %s\n\n" % (name, pysrc.lean_str(str(e))))
            rep["untranslatable"][name] = str(e)
    out.append("end DS.Src.Msd\n")
    report[GROUP] = rep
    return "".join(out)
