#!/venv/bin/python
"""Translator: parser registry + exception filtering of the automatic parser -> lean/DS/Gen/Registry.lean.

Read at run time from the tree under VERIF_REPO (default /repo):
* `parser_index` (format name, file pattern, extension, has_input / has_output), in dict order;
  `inputFormats()` / `outputFormats()` as the code computes them (cross-checked in Lean against
  the model's own `sorted(filter has_input)`); the `format` attribute each concrete parser
  instance reports (`getParser(f).format`).
* via `ast`, from `P_auto._wrapParseMethod`: the `except` clauses of the per-candidate `try`
  (which exception classes are caught and whether the handler records a complaint or passes),
  resolved to classes at run time and tabulated over a universe of exception kinds
  (all builtin exception classes + the library's own + PyCifRW's two) with `issubclass`;
  the two header lines of the failure message; the `"%s: %s"` complaint format;
  from `P_auto._getOrderedFormats`: the excluded format name(s), the patterns that never
  reorder (`"*.*"`, `"*"`) and the pattern separator.
Shape expectations that the Lean model relies on (first success breaks the loop, `stru is None`
afterwards raises the format error, ...) are reported as flags in the report; the behavioural
tie is the correspondence stream of harness/c12.py.

The generated file has no imports (plain data); DS/Model/Load.lean wraps it.
"""
import ast
import builtins
import importlib
import json
import os
import sys

REPO = os.environ.get("VERIF_REPO", "/repo")
if os.path.join(REPO, "src") not in sys.path:
    sys.path.insert(0, os.path.join(REPO, "src"))


def lstr(s):
    """Lean string literal."""
    out = ['"']
    for ch in s:
        o = ord(ch)
        if ch == "\\":
            out.append("\\\\")
        elif ch == '"':
            out.append('\\"')
        elif ch == "\n":
            out.append("\\n")
        elif ch == "\t":
            out.append("\\t")
        elif o < 32 or o == 127 or o > 126:
            out.append("\\u{%x}" % o)
        else:
            out.append(ch)
    out.append('"')
    return "".join(out)


def lbool(b):
    return "true" if b else "false"


def write_if_changed(path, text):
    try:
        if open(path).read() == text:
            return False
    except OSError:
        pass
    os.makedirs(os.path.dirname(path), exist_ok=True)
    with open(path, "w") as f:
        f.write(text)
    return True


# ---- ast reading of p_auto ------------------------------------------------------------

def _names_of(expr):
    """Exception class names of an `except` type expression (dotted names kept dotted)."""
    if expr is None:
        return ["BaseException"]
    if isinstance(expr, ast.Tuple):
        out = []
        for e in expr.elts:
            out += _names_of(e)
        return out
    if isinstance(expr, ast.Name):
        return [expr.id]
    if isinstance(expr, ast.Attribute):
        return [ast.unparse(expr)]
    raise ValueError("except clause type is not a name or tuple: %s" % ast.dump(expr))


def _handler_action(h):
    """'collect' when the handler appends to a list (records a complaint), 'skip' when it only
    passes / continues, 'reraise' for a bare `raise`, else 'unknown'."""
    body = [s for s in h.body if not (isinstance(s, ast.Expr) and isinstance(s.value, ast.Constant))]
    if all(isinstance(s, (ast.Pass, ast.Continue)) for s in body):
        return "skip"
    if len(body) == 1 and isinstance(body[0], ast.Raise) and body[0].exc is None:
        return "escape"
    appends = [n for s in body for n in ast.walk(s)
               if isinstance(n, ast.Call) and isinstance(n.func, ast.Attribute) and n.func.attr == "append"]
    others = [s for s in body if not (isinstance(s, ast.Expr) and isinstance(s.value, ast.Call)
                                      and isinstance(s.value.func, ast.Attribute) and s.value.func.attr == "append")]
    if appends and not others:
        return "collect"
    return "unknown"


def read_auto_source(path):
    src = open(path, encoding="utf-8").read()
    tree = ast.parse(src)
    info = {"handlers": [], "flags": {}, "header": None, "complaint_format": None, "excluded": None,
            "skip_patterns": None, "separator": None, "joiner": None}
    cls = [n for n in tree.body if isinstance(n, ast.ClassDef) and n.name == "P_auto"]
    if not cls:
        raise ValueError("class P_auto not found in %s" % path)
    fns = {n.name: n for n in cls[0].body if isinstance(n, ast.FunctionDef)}
    w = fns.get("_wrapParseMethod")
    if w is None:
        raise ValueError("P_auto._wrapParseMethod not found")
    loops = [n for n in w.body if isinstance(n, ast.For)]
    flags = info["flags"]
    flags["one_loop"] = len(loops) == 1
    tries = [n for l in loops for n in l.body if isinstance(n, ast.Try)]
    flags["one_try"] = len(tries) == 1
    if tries:
        t = tries[0]
        for h in t.handlers:
            info["handlers"].append({"names": _names_of(h.type), "action": _handler_action(h), "line": h.lineno})
            for n in ast.walk(h):
                if isinstance(n, ast.BinOp) and isinstance(n.op, ast.Mod) and isinstance(n.left, ast.Constant) \
                        and isinstance(n.left.value, str):
                    info["complaint_format"] = n.left.value
        flags["break_after_success"] = bool(t.body) and isinstance(t.body[-1], ast.Break)
        flags["no_else_finally"] = not t.orelse and not t.finalbody
        flags["try_is_last_in_loop"] = loops[0].body[-1] is t and not loops[0].orelse
    # after the loop: `if stru is None: raise StructureFormatError(...)`
    after = [n for n in w.body if isinstance(n, ast.If)]
    flags["none_check_raises"] = False
    for n in after:
        c = n.test
        if isinstance(c, ast.Compare) and len(c.ops) == 1 and isinstance(c.ops[0], ast.Is) \
                and isinstance(c.comparators[0], ast.Constant) and c.comparators[0].value is None:
            raises = [s for s in n.body if isinstance(s, ast.Raise)]
            if raises:
                flags["none_check_raises"] = True
                r = raises[0].exc
                flags["raised_class"] = r.func.id if isinstance(r, ast.Call) and isinstance(r.func, ast.Name) else ast.unparse(r)
            for m in ast.walk(n):
                if isinstance(m, ast.Call) and isinstance(m.func, ast.Attribute) and m.func.attr == "join" \
                        and isinstance(m.func.value, ast.Constant):
                    info["joiner"] = m.func.value.value
                    for a in ast.walk(m):
                        if isinstance(a, ast.List) and a.elts and all(isinstance(e, ast.Constant) and isinstance(e.value, str) for e in a.elts):
                            info["header"] = [e.value for e in a.elts]
    o = fns.get("_getOrderedFormats")
    if o is None:
        raise ValueError("P_auto._getOrderedFormats not found")
    for n in ast.walk(o):
        if isinstance(n, ast.Compare) and len(n.ops) == 1 and isinstance(n.ops[0], ast.NotEq) \
                and isinstance(n.comparators[0], ast.Constant) and isinstance(n.comparators[0].value, str):
            info["excluded"] = (info["excluded"] or []) + [n.comparators[0].value]
        if isinstance(n, ast.Compare) and len(n.ops) == 1 and isinstance(n.ops[0], ast.In) \
                and isinstance(n.comparators[0], (ast.Tuple, ast.List)) \
                and all(isinstance(e, ast.Constant) for e in n.comparators[0].elts):
            info["skip_patterns"] = [e.value for e in n.comparators[0].elts]
        if isinstance(n, ast.Call) and isinstance(n.func, ast.Attribute) and n.func.attr == "split" and n.args \
                and isinstance(n.args[0], ast.Constant):
            info["separator"] = n.args[0].value
    return info


def exception_universe():
    """name -> class for every kind the table speaks about."""
    uni = {}
    for k in dir(builtins):
        v = getattr(builtins, k)
        if isinstance(v, type) and issubclass(v, BaseException) and v.__name__ == k:
            uni[k] = v
    import diffpy.structure.structureerrors as se

    for k in dir(se):
        v = getattr(se, k)
        if isinstance(v, type) and issubclass(v, BaseException) and v.__module__ == se.__name__:
            uni[k] = v
    try:
        from CifFile import StarError
        from CifFile.yapps3_compiled_rt import YappsSyntaxError

        uni["StarError"] = StarError
        uni["YappsSyntaxError"] = YappsSyntaxError
    except Exception:
        pass
    return uni


def main(outdir, report_path=None):
    pmod = importlib.import_module("diffpy.structure.parsers")
    pauto = importlib.import_module("diffpy.structure.parsers.p_auto")
    index = pmod.parser_index
    report = {"problems": [], "flags": {}}
    entries = []
    for name, prop in index.items():
        pat = prop["file_pattern"]
        if not isinstance(name, str) or not isinstance(pat, str):
            report["problems"].append("registry entry %r is not made of strings" % (name,))
            continue
        if "[" in pat:
            report["problems"].append("pattern %r of %r uses a character class, which the glob model does not cover" % (pat, name))
        selfname = None
        try:
            selfname = pmod.getParser(name).format
        except Exception as e:  # a registered format without a loadable parser
            report["problems"].append("getParser(%r) raised %r" % (name, e))
        entries.append({"name": name, "pattern": pat, "ext": prop.get("file_extension", ""), "module": prop.get("module", ""),
                        "has_input": bool(prop["has_input"]), "has_output": bool(prop["has_output"]),
                        "selfname": selfname if isinstance(selfname, str) else ""})
    info = read_auto_source(pauto.__file__.replace(".pyc", ".py"))
    report["flags"] = info["flags"]
    report["auto"] = {k: info[k] for k in ("handlers", "header", "complaint_format", "excluded", "skip_patterns", "separator", "joiner")}
    for k, dflt in (("header", None), ("complaint_format", None), ("excluded", None), ("skip_patterns", None),
                    ("separator", None), ("joiner", None)):
        if info[k] is None:
            report["problems"].append("could not read %s from p_auto.py" % k)
    header = info["header"] or []
    cfmt = info["complaint_format"] or "%s: %s"
    if cfmt.count("%s") != 2 or cfmt.replace("%s", "").count("%"):
        report["problems"].append("complaint format %r is not of the form <a>%%s<b>%%s<c>" % cfmt)
        cparts = ["", ": ", ""]
    else:
        cparts = cfmt.split("%s")
    excluded = info["excluded"] or []
    skip = info["skip_patterns"] or []
    sep = info["separator"] if info["separator"] is not None else "|"
    joiner = info["joiner"] if info["joiner"] is not None else "\n"
    # resolve handler classes
    uni = exception_universe()
    resolved = []
    for h in info["handlers"]:
        classes = []
        for nm in h["names"]:
            obj = None
            try:
                obj = eval(nm, dict(vars(pauto)), dict(vars(builtins)))
            except Exception:
                pass
            if not (isinstance(obj, type) and issubclass(obj, BaseException)):
                report["problems"].append("except clause names %r, which is not an exception class" % nm)
                continue
            classes.append(obj)
        if h["action"] == "unknown":
            report["problems"].append("except clause at line %d has a body the model does not cover" % h["line"])
        resolved.append((tuple(classes), h["action"]))
    table = []
    for k in sorted(uni):
        act = "escape"
        for classes, a in resolved:
            if classes and issubclass(uni[k], classes):
                act = a if a in ("collect", "skip", "escape") else "escape"
                break
        table.append((k, act))
    report["handler_table_nonescape"] = [(k, a) for k, a in table if a != "escape"]
    report["entries"] = entries
    report["inputFormats"] = list(pmod.inputFormats())
    report["outputFormats"] = list(pmod.outputFormats())
    L = []
    L.append("/-! GENERATED by translate/registry.py from %s — do not edit. -/" % "parser_index / p_auto.py of the tree under test")
    L.append("namespace DS.Gen.Reg")
    L.append("/-- (name, file_pattern, file_extension, has_input, has_output, `getParser(name).format`) in dict order -/")
    L.append("def entriesRaw : List (String × String × String × Bool × Bool × String) := [")
    L.append(",\n".join("  (%s, %s, %s, %s, %s, %s)" % (lstr(e["name"]), lstr(e["pattern"]), lstr(e["ext"]), lbool(e["has_input"]),
                                                       lbool(e["has_output"]), lstr(e["selfname"])) for e in entries))
    L.append("]")
    L.append("/-- `inputFormats()` / `outputFormats()` as the code returned them at translation time -/")
    L.append("def inputFormatsObserved : List String := [%s]" % ", ".join(lstr(s) for s in report["inputFormats"]))
    L.append("def outputFormatsObserved : List String := [%s]" % ", ".join(lstr(s) for s in report["outputFormats"]))
    L.append("/-- names excluded from the candidates, patterns that never reorder, pattern separator (from `_getOrderedFormats`) -/")
    L.append("def excludedRaw : List String := [%s]" % ", ".join(lstr(s) for s in excluded))
    L.append("def skipPatternsRaw : List String := [%s]" % ", ".join(lstr(s) for s in skip))
    L.append("def separatorRaw : String := %s" % lstr(sep))
    L.append("/-- exception kind ↦ 0 escape | 1 collect (complaint recorded) | 2 skip (silently), from the except clauses of")
    L.append("`_wrapParseMethod` resolved with `issubclass` over all builtin exception classes, the library's and PyCifRW's -/")
    code = {"escape": 0, "collect": 1, "skip": 2}
    L.append("def handlerRaw : List (String × Nat) := [")
    L.append(",\n".join("  (%s, %d)" % (lstr(k), code[a]) for k, a in table))
    L.append("]")
    L.append("def headerRaw : List String := [%s]" % ", ".join(lstr(s) for s in header))
    L.append("def complaintPartsRaw : List String := [%s]" % ", ".join(lstr(s) for s in cparts))
    L.append("def joinerRaw : String := %s" % lstr(joiner))
    L.append("/-- class raised when no candidate succeeded -/")
    L.append("def raisedRaw : String := %s" % lstr(str(info["flags"].get("raised_class", ""))))
    L.append("end DS.Gen.Reg")
    text = "\n".join(L) + "\n"
    report["changed"] = write_if_changed(os.path.join(outdir, "Registry.lean"), text)
    if report_path:
        with open(report_path, "w") as f:
            json.dump(report, f, indent=1, default=str)
    return report


if __name__ == "__main__":
    outdir = sys.argv[1] if len(sys.argv) > 1 else os.path.join(os.path.dirname(os.path.abspath(__file__)), "..", "lean", "DS", "Gen")
    rp = sys.argv[2] if len(sys.argv) > 2 else os.path.join(outdir, "registry_report.json")
    r = main(outdir, rp)
    print("registry: %d formats, handlers %r, flags %r, %d problems, changed=%s" % (
        len(r["entries"]), r["handler_table_nonescape"], r["flags"], len(r["problems"]), r["changed"]))
    for p in r["problems"]:
        print("  problem:", p)
