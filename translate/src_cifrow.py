"""Source tie of the atom-site row phase of the CIF reader (property C07).

Plug-in of translate/pysrc.py (the module global `pysrc` is injected).  Reads the *current*
`src/diffpy/structure/parsers/p_cif.py` (and the attributes of `Atom` it writes, from `atom.py`) with `ast` and writes
`lean/DS/Gen/SrcCifRow.lean`:

* transliterated to Lean definitions (expression by expression, strict subset):
  - `P_cif.BtoU`;
  - the body of every `_tr_*` setter (statement list -> `let` chain on the atom; the attribute written decides the
    model primitive: `a.label/element/occupancy` -> record update, `a.xyz[k]` / `a.xyz_cartn[k]` -> position write,
    `a.Uisoequiv` / `a.anisotropy` -> the `atom.py` state machine, `a.U11 …` -> `_set_Uij(i, j, ·)` with the index pair
    (and the `_BtoU` factor, if any) *read from the property definitions of `atom.py`*);
  - `_atom_setters` after the class body has run (the `dict.fromkeys` tuple and the case-folding loop are evaluated);
  - which function every class attribute `_tr_*` is bound to (`def` + `staticmethod`, aliases) = `getattr(P_cif, name)`;
  - `_get_atom_setters` (prefix literal, `.lower()`, `.get(key, default)`, `getattr`);
  - for every setter the condition under which its call returns (`<setter>_ok`: every `leading_float` call of the body succeeds);
  - the two loop methods `_parse_atom_site_label`, `_parse_atom_site_aniso_label` (class `LoopTx`): statement by statement over
    `CifRow.Loop` (`keys()` = `names`, `zip(*values())` = `rows`), `CifRow.PState` (`self.stru`, `self.labelindex`, `self.anisotropy`)
    and the vocabulary `Exc` / `Flow` / `forLoop` / `runSetters` emitted in front of them (`continue` -> `Flow.next`, `break` ->
    `Flow.brk`, `KeyError` / `IndexError` / `ValueError` / `AttributeError` -> `Flow.raise` / `Except.error` with that kind);
* recorded as normalised text (compared verbatim by `DS.Props.SrcCifRow`): the pattern of `_psymb`, the statements of
  `_parseCifBlock`, of `Atom.xyz_cartn` (getter, setter),
  `_AtomCartesianCoordinates.__init__/__setitem__`, `Structure.addNewAtom/getLastAtom`, the class-level defaults of `Atom`
  and the two array initialisations of `Atom.__init__`.

Anything outside the supported shapes yields `def <name>_untranslatable : String`, so the tie theorem cannot be stated
-> broken tie (never a silent approximation).
"""
import ast
import os

GROUP = "cifrow"
OUTFILE = "SrcCifRow.lean"

IX = {0: ".i0", 1: ".i1", 2: ".i2"}
NUMLIT = {0.0: "0", 1.0: "1", 2.0: "2", 3.0: "3", 8.0: "8"}


def U(msg):
    return pysrc.Untranslatable(msg)


def strip_doc(body):
    if body and isinstance(body[0], ast.Expr) and isinstance(body[0].value, ast.Constant) and isinstance(body[0].value.value, str):
        return body[1:]
    return list(body)


def norm(st):
    return " ".join(ast.unparse(st).split())


def body_text(fn):
    out = []
    for st in strip_doc(fn.body):
        out += [ln.rstrip() for ln in ast.unparse(st).split("\n") if ln.strip()]
    return out


def lean_list(items):
    return "[" + ", ".join(pysrc.lean_str(x) for x in items) + "]"


def numlit(node):
    """numeric constant usable as an `OfNat` literal"""
    if isinstance(node, ast.Constant) and isinstance(node.value, (int, float)) and not isinstance(node.value, bool) and float(node.value) in NUMLIT:
        return NUMLIT[float(node.value)]
    raise U("numeric constant `%s` is not one of 0, 1, 2, 3, 8" % ast.unparse(node))


def arith(node):
    """`1.0 / (8 * numpy.pi ** 2)` and the like"""
    if isinstance(node, ast.Constant):
        return "(%s : α)" % numlit(node)
    if isinstance(node, ast.Attribute) and ast.unparse(node) == "numpy.pi":
        return "(AdpConst.pi : α)"
    if isinstance(node, ast.BinOp):
        if isinstance(node.op, ast.Pow):
            if isinstance(node.right, ast.Constant) and node.right.value == 2 and not isinstance(node.right.value, bool):
                x = arith(node.left)
                return "(%s * %s)" % (x, x)
            raise U("power `%s`" % ast.unparse(node))
        ops = {ast.Add: "+", ast.Sub: "-", ast.Mult: "*", ast.Div: "/"}
        if type(node.op) in ops:
            return "(%s %s %s)" % (arith(node.left), ops[type(node.op)], arith(node.right))
    raise U("arithmetic expression `%s`" % ast.unparse(node))


# ------------------------------------------------------------------------------------------------ atom.py facts

def atom_facts(tree):
    """what assigning to an attribute of an `Atom` does: ("plain", default) | ("prop", kind) | ("uij", i, j, scaled)"""
    cls = pysrc.find_class(tree, "Atom")
    facts = {}
    setters = set()
    for st in cls.body:
        if isinstance(st, ast.FunctionDef):
            for d in st.decorator_list:
                if isinstance(d, ast.Attribute) and d.attr == "setter" and isinstance(d.value, ast.Name) and d.value.id == st.name:
                    setters.add(st.name)
    for st in cls.body:
        if isinstance(st, ast.Assign) and len(st.targets) == 1 and isinstance(st.targets[0], ast.Name):
            name = st.targets[0].id
            v = st.value
            if isinstance(v, ast.Call) and isinstance(v.func, ast.Name) and v.func.id == "property":
                if len(v.args) < 2 or not isinstance(v.args[1], ast.Lambda):
                    facts[name] = ("opaque", ast.unparse(v)[:60])
                    continue
                lam = v.args[1]
                if [a.arg for a in lam.args.args] != ["self", "value"]:
                    facts[name] = ("opaque", ast.unparse(lam)[:60])
                    continue
                c = lam.body
                if isinstance(c, ast.Call) and ast.unparse(c.func) == "self._set_Uij" and len(c.args) == 3 and not c.keywords \
                        and all(isinstance(a, ast.Constant) and a.value in (0, 1, 2) and not isinstance(a.value, bool) for a in c.args[:2]):
                    i, j = c.args[0].value, c.args[1].value
                    val = ast.unparse(c.args[2])
                    if val == "value":
                        facts[name] = ("uij", i, j, False)
                    elif val == "_BtoU * value":
                        facts[name] = ("uij", i, j, True)
                    else:
                        facts[name] = ("opaque", ast.unparse(lam)[:60])
                else:
                    facts[name] = ("opaque", ast.unparse(lam)[:60])
            else:
                facts[name] = ("plain", ast.unparse(v))
        elif isinstance(st, ast.FunctionDef) and any(isinstance(d, ast.Name) and d.id == "property" for d in st.decorator_list):
            facts[st.name] = ("prop", st.name) if st.name in setters else ("readonly", st.name)
    return cls, facts


# ------------------------------------------------------------------------------------------------ setter bodies

class SetterTx:
    """one `_tr_*(a, value)` body -> Lean `let` chain.  Types: num, str, bool, match (optional group-0 text), val (the CIF value)."""

    def __init__(self, afacts, lf_default, known_setters):
        self.afacts = afacts
        self.lf_default = lf_default
        self.known = known_setters
        self.lines = []
        self.n = 0
        self.cur = "a"
        self.locals = {}
        self.calls = []
        self.lf = []          # conditions under which the `leading_float` calls of the body do not raise

    def text_of(self, code, ty):
        if ty == "val":
            return "%s.text" % code
        if ty == "str":
            return code
        raise U("a string is expected, `%s` is %s" % (code, ty))

    def expr(self, e):
        if isinstance(e, ast.Name):
            if e.id == "value":
                return "value", "val"
            if e.id in self.locals:
                return self.locals[e.id]
            raise U("name `%s`" % e.id)
        if isinstance(e, ast.Call):
            f = ast.unparse(e.func)
            if f == "leading_float" and not e.keywords and 1 <= len(e.args) <= 2:
                c, t = self.expr(e.args[0])
                if t != "val":
                    raise U("leading_float of `%s`" % ast.unparse(e.args[0]))
                d = numlit(e.args[1]) if len(e.args) == 2 else self.lf_default
                self.lf.append("(CifRow.leadingFloat? %s (%s : α)).isSome" % (c, d))
                return "(CifRow.numOf %s %s)" % (c, d), "num"
            if f == "str" and len(e.args) == 1 and not e.keywords:
                c, t = self.expr(e.args[0])
                return self.text_of(c, t), "str"
            if f == "P_cif._psymb.match" and len(e.args) == 1 and not e.keywords:
                c, t = self.expr(e.args[0])
                return "(CifRow.psymbMatch %s)" % self.text_of(c, t), "match"
            if isinstance(e.func, ast.Attribute) and e.func.attr in ("upper", "lower") and not e.args and not e.keywords:
                c, t = self.expr(e.func.value)
                if t != "str":
                    raise U("`.%s()` of a %s" % (e.func.attr, t))
                return "(CifRow.%s %s)" % ("pyUpper" if e.func.attr == "upper" else "pyLower", c), "str"
            raise U("call `%s`" % ast.unparse(e)[:60])
        if isinstance(e, ast.BinOp):
            if isinstance(e.op, ast.Mult) and ast.unparse(e.left) == "P_cif.BtoU":
                c, t = self.expr(e.right)
                if t != "num":
                    raise U("`P_cif.BtoU * %s`" % ast.unparse(e.right))
                return "((BtoU : α) * %s)" % c, "num"
            if isinstance(e.op, ast.Add):
                c1, t1 = self.expr(e.left)
                c2, t2 = self.expr(e.right)
                if (t1, t2) == ("str", "str"):
                    return "(%s ++ %s)" % (c1, c2), "str"
            raise U("operation `%s`" % ast.unparse(e)[:60])
        if isinstance(e, ast.Compare) and len(e.ops) == 1 and len(e.comparators) == 1:
            c, t = self.expr(e.left)
            txt = self.text_of(c, t)
            rhs = e.comparators[0]
            op = e.ops[0]
            if isinstance(op, (ast.In, ast.NotIn)) and isinstance(rhs, (ast.Tuple, ast.List)) and rhs.elts \
                    and all(isinstance(x, ast.Constant) and isinstance(x.value, str) for x in rhs.elts):
                lst = lean_list([x.value for x in rhs.elts])
                core = "(%s.contains %s)" % (lst, txt)
                return ("(!%s)" % core if isinstance(op, ast.NotIn) else core), "bool"
            if isinstance(op, (ast.Eq, ast.NotEq)) and isinstance(rhs, ast.Constant) and isinstance(rhs.value, str):
                return "(%s %s %s)" % (txt, "==" if isinstance(op, ast.Eq) else "!=", pysrc.lean_str(rhs.value)), "bool"
            raise U("comparison `%s`" % ast.unparse(e)[:60])
        if isinstance(e, ast.BoolOp) and isinstance(e.op, ast.Or) and len(e.values) == 2:
            left, right = e.values
            # `rx and rx.group(0) or value`
            if isinstance(left, ast.BoolOp) and isinstance(left.op, ast.And) and len(left.values) == 2 and isinstance(left.values[0], ast.Name):
                rx = left.values[0].id
                c, t = self.expr(left.values[0])
                if t == "match" and ast.unparse(left.values[1]) == "%s.group(0)" % rx:
                    c2, t2 = self.expr(right)
                    return "(CifRow.groupOr %s %s)" % (c, self.text_of(c2, t2)), "str"
            raise U("boolean expression `%s`" % ast.unparse(e)[:60])
        if isinstance(e, ast.Subscript) and isinstance(e.slice, ast.Slice) and e.slice.step is None:
            c, t = self.expr(e.value)
            if t != "str":
                raise U("slice of a %s" % t)
            lo, hi = e.slice.lower, e.slice.upper

            def nat(x):
                if isinstance(x, ast.Constant) and isinstance(x.value, int) and not isinstance(x.value, bool) and x.value >= 0:
                    return x.value
                raise U("slice bound `%s`" % ast.unparse(x))

            if lo is None and hi is not None:
                return "(CifRow.pyTake %d %s)" % (nat(hi), c), "str"
            if hi is None and lo is not None:
                return "(CifRow.pyDrop %d %s)" % (nat(lo), c), "str"
            raise U("slice `%s`" % ast.unparse(e))
        raise U("expression `%s`" % ast.unparse(e)[:60])

    def step(self, rhs):
        self.n += 1
        new = "a%d" % self.n
        self.lines.append("let %s : CifRow.Atom α := %s" % (new, rhs))
        self.cur = new

    def call_setter(self, call):
        """`P_cif._tr_x(a, value)`"""
        if isinstance(call, ast.Call) and not call.keywords and [ast.unparse(x) for x in call.args] == ["a", "value"]:
            f = ast.unparse(call.func)
            if f.startswith("P_cif._tr_") and f[6:] in self.known:
                self.calls.append(f[6:])
                return "%s %s value" % (lname(f[6:]), self.cur)
        raise U("call `%s`" % ast.unparse(call)[:60])

    def stmt(self, st):
        if isinstance(st, ast.Return):
            if st.value is not None:
                raise U("return of a value")
            return True
        if isinstance(st, ast.Assign) and len(st.targets) == 1:
            tg = st.targets[0]
            if isinstance(tg, ast.Name):
                if tg.id in ("a", "value"):
                    raise U("assignment to the parameter `%s`" % tg.id)
                c, t = self.expr(st.value)
                self.n += 1
                v = "v%d_%s" % (self.n, tg.id)
                self.lines.append("let %s := %s" % (v, c))
                self.locals[tg.id] = (v, t)
                return False
            if isinstance(tg, ast.Attribute) and isinstance(tg.value, ast.Name) and tg.value.id == "a":
                c, t = self.expr(st.value)
                fact = self.afacts.get(tg.attr)
                if tg.attr in ("label", "element"):
                    if fact is None or fact[0] != "plain":
                        raise U("`Atom.%s` is not a plain attribute" % tg.attr)
                    self.step("CifRow.Atom.%s %s %s" % ("setLabel" if tg.attr == "label" else "setElement", self.text_of(c, t), self.cur))
                elif tg.attr == "occupancy":
                    if fact is None or fact[0] != "plain" or t != "num":
                        raise U("`a.occupancy = %s`" % ast.unparse(st.value))
                    self.step("CifRow.Atom.setOcc %s %s" % (c, self.cur))
                elif tg.attr == "Uisoequiv":
                    if fact != ("prop", "Uisoequiv") or t != "num":
                        raise U("`a.Uisoequiv = %s`" % ast.unparse(st.value))
                    self.step("CifRow.Atom.liftS (AtomS.setUiso %s) %s" % (c, self.cur))
                elif tg.attr == "anisotropy":
                    if fact != ("prop", "anisotropy") or t != "bool":
                        raise U("`a.anisotropy = %s`" % ast.unparse(st.value))
                    self.step("CifRow.Atom.liftS (AtomS.setAniso %s) %s" % (c, self.cur))
                elif fact is not None and fact[0] == "uij":
                    if t != "num":
                        raise U("`a.%s = %s`" % (tg.attr, ast.unparse(st.value)))
                    _, i, j, scaled = fact
                    self.step("CifRow.Atom.liftS (AtomS.%s %s %s %s) %s" % ("setBij" if scaled else "setUij", IX[i], IX[j], c, self.cur))
                else:
                    raise U("assignment to `a.%s`" % tg.attr)
                return False
            if isinstance(tg, ast.Subscript) and isinstance(tg.value, ast.Attribute) and isinstance(tg.value.value, ast.Name) \
                    and tg.value.value.id == "a" and tg.value.attr in ("xyz", "xyz_cartn"):
                k = tg.slice
                if not (isinstance(k, ast.Constant) and isinstance(k.value, int) and not isinstance(k.value, bool) and k.value in IX):
                    raise U("index `%s`" % ast.unparse(tg))
                c, t = self.expr(st.value)
                if t != "num":
                    raise U("`%s`" % ast.unparse(st)[:60])
                if tg.value.attr == "xyz_cartn" and self.afacts.get("xyz_cartn") != ("prop", "xyz_cartn"):
                    raise U("`Atom.xyz_cartn` is not the property the model was written for")
                prim = "setXyzIx" if tg.value.attr == "xyz" else "setCartnIx"
                self.step("CifRow.Atom.movePos (CifRow.%s %s %s) %s" % (prim, IX[k.value], c, self.cur))
                return False
        if isinstance(st, ast.If) and not st.orelse and len(st.body) == 1 and isinstance(st.body[0], ast.Expr):
            if ast.unparse(st.test) == "not a.element":
                call = self.call_setter(st.body[0].value)
                self.step('if %s.element == "" then %s else %s' % (self.cur, call, self.cur))
                return False
            raise U("condition `%s`" % ast.unparse(st.test)[:60])
        if isinstance(st, ast.Expr) and isinstance(st.value, ast.Call):
            self.step(self.call_setter(st.value))
            return False
        raise U("statement `%s`" % norm(st)[:70])

    def run(self, fn):
        if fn.decorator_list:
            raise U("decorated")
        a = fn.args
        if [x.arg for x in a.args] != ["a", "value"] or a.defaults or a.vararg or a.kwarg or a.kwonlyargs or a.posonlyargs:
            raise U("parameters are not (a, value)")
        body = strip_doc(fn.body)
        for k, st in enumerate(body):
            if self.stmt(st):
                if k != len(body) - 1:
                    raise U("statements after `return`")
                break
        return self.lines, self.cur


def lname(name):
    """Lean identifier of a method: `_tr_atom_site_label` -> tr_atom_site_label"""
    return name.lstrip("_")


# ------------------------------------------------------------------------------------------------ the two loop methods

PRELUDE = """/-! ### vocabulary of the two loop methods -/

/-- the exceptions the loop methods can raise (all of them end as `StructureFormatError` in `_parseCifDataSource`) -/
inductive Exc where
  | KeyError | IndexError | ValueError | AttributeError
deriving DecidableEq, Repr

/-- how one round of a `for` body ends: falls off the end / `continue`, `break`, exception -/
inductive Flow (σ : Type) where
  | next (s : σ)
  | brk (s : σ)
  | raise (e : Exc)

/-- `for x in xs: body` -/
def forLoop {σ β : Type} (body : σ → β → Flow σ) : σ → List β → Except Exc σ
  | s, [] => .ok s
  | s, x :: xs =>
    match body s x with
    | .next s' => forLoop body s' xs
    | .brk s' => .ok s'
    | .raise e => .error e

/-- a setter `f(a, value)`: `ok value` = the call returns (no `leading_float` of its body raises `ValueError`) -/
structure Setter (α : Type) where
  ok : CifRow.Value α → Bool
  run : CifRow.Atom α → CifRow.Value α → CifRow.Atom α

/-- `for fset, val in zip(prop_setters, values): fset(a, val)` -/
def runSetters {α : Type} (prop_setters : List (Setter α)) (values : List (CifRow.Value α)) (a : CifRow.Atom α) :
    Except Exc (CifRow.Atom α) :=
  forLoop (fun a (p : Setter α × CifRow.Value α) => if p.1.ok p.2 then Flow.next (p.1.run a p.2) else Flow.raise Exc.ValueError)
    a (prop_setters.zip values)

"""

LEAN_KEYWORDS = {"at", "from", "in", "do", "end", "then", "else", "fun", "let", "have", "show", "match", "with", "if", "by", "open",
                 "def", "theorem", "where", "for", "return", "instance", "structure", "class", "namespace", "section", "variable"}


def is_self_attr(e, attr):
    return isinstance(e, ast.Attribute) and isinstance(e.value, ast.Name) and e.value.id == "self" and e.attr == attr


def const_str(e):
    return isinstance(e, ast.Constant) and isinstance(e.value, str)


class LoopTx:
    """`_parse_atom_site_label(self, block)` / `_parse_atom_site_aniso_label(self, block)` -> a Lean definition

    `block` is seen through the one loop the method asks for (`block.GetLoop(item)`; `item not in block` = `none`), the parser
    object through `CifRow.PState` (`self.stru` = `atoms`, `self.labelindex`, `self.anisotropy`), the atom a round works on is
    a value that is written back when the round ends (appended for `addNewAtom`/`getLastAtom`, at `idx` for `self.stru[idx]`)."""

    def __init__(self):
        self.n = 0
        self.vars = {}        # python name -> (lean code, type); types: loop, bool, setters, nat, rows, row, label
        self.L = []           # emitted lines

    def ident(self, name):
        if name in LEAN_KEYWORDS or not name.isidentifier() or name in ("self", "lat", "block"):
            raise U("variable name `%s`" % name)
        return name

    def fresh(self, base):
        self.n += 1
        return "%s%d" % (base, self.n)

    def var(self, e, ty):
        if isinstance(e, ast.Name) and e.id in self.vars and self.vars[e.id][1] == ty:
            return self.vars[e.id][0]
        raise U("`%s` is not a %s" % (ast.unparse(e)[:40], ty))

    # ---- the method -----------------------------------------------------------------------------------------
    def method(self, fn, lean_name):
        a = fn.args
        if [x.arg for x in a.args] != ["self", "block"] or a.defaults or a.vararg or a.kwarg or a.kwonlyargs or a.posonlyargs or fn.decorator_list:
            raise U("parameters are not (self, block)")
        body = strip_doc(fn.body)
        guard = None
        if body and isinstance(body[0], ast.If):
            g = body[0]
            t = g.test
            if not (isinstance(t, ast.Compare) and len(t.ops) == 1 and isinstance(t.ops[0], ast.NotIn) and const_str(t.left)
                    and ast.unparse(t.comparators[0]) == "block" and not g.orelse and len(g.body) == 1
                    and isinstance(g.body[0], ast.Return) and g.body[0].value is None):
                raise U("`%s`" % norm(g)[:70])
            guard = t.left.value
            body = body[1:]
        if body and isinstance(body[-1], ast.Return) and body[-1].value is None:
            body = body[:-1]
        if not body or not isinstance(body[-1], ast.For):
            raise U("the method does not end with a `for` loop")
        item = None
        loopname = None
        for st in body[:-1]:
            if not (isinstance(st, ast.Assign) and len(st.targets) == 1 and isinstance(st.targets[0], ast.Name)):
                raise U("statement `%s`" % norm(st)[:70])
            tg = self.ident(st.targets[0].id)
            if tg in self.vars:
                raise U("`%s` is assigned twice" % tg)
            v = st.value
            if isinstance(v, ast.Call) and ast.unparse(v.func) == "block.GetLoop" and len(v.args) == 1 and not v.keywords and const_str(v.args[0]):
                if item is not None:
                    raise U("two loops")
                item = v.args[0].value
                if guard is not None and guard != item:
                    raise U("the method tests `%s in block` and reads the loop of `%s`" % (guard, item))
                loopname = tg
                self.vars[tg] = (tg, "loop")
                if guard is not None:
                    self.L.append("match block_loop with")
                    self.L.append("| none => Except.ok self0")
                    self.L.append("| some %s =>" % tg)
                continue
            if loopname is None:
                raise U("statement `%s` before the loop is fetched" % norm(st)[:60])
            if isinstance(v, (ast.BoolOp, ast.Compare)):
                parts = v.values if isinstance(v, ast.BoolOp) and isinstance(v.op, ast.Or) else [v]
                cs = []
                for c in parts:
                    if not (isinstance(c, ast.Compare) and len(c.ops) == 1 and isinstance(c.ops[0], ast.In) and const_str(c.left)):
                        raise U("`%s`" % ast.unparse(v)[:70])
                    cs.append("%s.names.contains %s" % (self.var(c.comparators[0], "loop"), pysrc.lean_str(c.left.value)))
                self.L.append("let %s : Bool := (%s)" % (tg, " || ".join(cs)))
                self.vars[tg] = (tg, "bool")
            elif isinstance(v, ast.Call) and ast.unparse(v.func) == "P_cif._get_atom_setters" and len(v.args) == 1 and not v.keywords:
                self.L.append("match get_atom_setters_chk (α := α) %s.names with" % self.var(v.args[0], "loop"))
                self.L.append("| none => Except.error Exc.AttributeError")
                self.L.append("| some %s =>" % tg)
                self.vars[tg] = (tg, "setters")
            elif isinstance(v, ast.Call) and isinstance(v.func, ast.Attribute) and v.func.attr == "index" and len(v.args) == 1 and not v.keywords \
                    and const_str(v.args[0]) and isinstance(v.func.value, ast.Call) and not v.func.value.args and not v.func.value.keywords \
                    and isinstance(v.func.value.func, ast.Attribute) and v.func.value.func.attr == "keys":
                self.L.append("match %s.names.idxOf? %s with" % (self.var(v.func.value.func.value, "loop"), pysrc.lean_str(v.args[0].value)))
                self.L.append("| none => Except.error Exc.ValueError")
                self.L.append("| some %s =>" % tg)
                self.vars[tg] = (tg, "nat")
            elif isinstance(v, ast.Call) and ast.unparse(v.func) == "zip" and len(v.args) == 1 and not v.keywords and isinstance(v.args[0], ast.Starred) \
                    and isinstance(v.args[0].value, ast.Call) and not v.args[0].value.args and not v.args[0].value.keywords \
                    and isinstance(v.args[0].value.func, ast.Attribute) and v.args[0].value.func.attr == "values":
                self.L.append("let %s := %s.rows" % (tg, self.var(v.args[0].value.func.value, "loop")))
                self.vars[tg] = (tg, "rows")
            else:
                raise U("statement `%s`" % norm(st)[:70])
        if item is None:
            raise U("no `block.GetLoop(…)`")
        loop = body[-1]
        if loop.orelse or not isinstance(loop.target, ast.Name):
            raise U("loop header `%s`" % norm(loop)[:60])
        rows = self.var(loop.iter, "rows")
        row = self.ident(loop.target.id)
        if row in self.vars:
            raise U("`%s` is assigned twice" % row)
        self.vars[row] = (row, "row")
        self.L.append("forLoop (fun (self0 : CifRow.PState α) (%s : List (CifRow.Value α)) =>" % row)
        st0 = {"self": "self0", "a": None, "apy": None, "attach": None}
        self.body(list(loop.body), st0, True)
        self.L[-1] += ") self0 %s" % rows
        doc = "; ".join(norm(s) for s in strip_doc(fn.body)).replace("-/", "- /")
        if guard is not None:
            sig = "(block_loop : Option (CifRow.Loop α))"
            how = "`block_loop` = the loop of `%s` (`none`: the item is not in the block)" % item
        else:
            sig = "(%s : CifRow.Loop α)" % loopname
            how = "`%s` = `block.GetLoop(%s)`" % (loopname, item)
        txt = "/-- the loop item `%s` reads -/\ndef %s_item : String := %s\n\n" % (fn.name, lean_name, pysrc.lean_str(item))
        txt += "/-- `%s(self, block)`; %s, `self0` = the parser object (`stru`, `labelindex`, `anisotropy`), `lat` = `self.stru.lattice`.\n%s -/\n" % (fn.name, how, doc)
        txt += "def %s (lat : Option (LatData α)) %s (self0 : CifRow.PState α) : Except Exc (CifRow.PState α) :=\n" % (lean_name, sig)
        return txt + "".join("  " + ln + "\n" for ln in self.L) + "\n"

    # ---- the body of the loop -------------------------------------------------------------------------------
    def commit(self, st):
        if st["attach"] is None:
            return st["self"]
        if st["attach"] == "append":
            return "{ %s with atoms := %s.atoms ++ [%s] }" % (st["self"], st["self"], st["a"])
        return "{ %s with atoms := %s.atoms.set %s %s }" % (st["self"], st["self"], st["attach"][1], st["a"])

    def atom(self, e, st):
        if isinstance(e, ast.Name) and st["apy"] is not None and e.id == st["apy"]:
            return st["a"]
        raise U("`%s` is not the atom of this round" % ast.unparse(e)[:40])

    def simple(self, s, st):
        """an assignment without control flow; returns True when it was one"""
        if not (isinstance(s, ast.Assign) and len(s.targets) == 1):
            return False
        tg = s.targets[0]
        # self.<dict>[label] = value
        if isinstance(tg, ast.Subscript) and (is_self_attr(tg.value, "labelindex") or is_self_attr(tg.value, "anisotropy")):
            d = tg.value.attr
            key = self.var(tg.slice, "label")
            v = s.value
            if d == "labelindex" and ast.unparse(v) == "len(self.stru)":
                val = "%s.atoms.length" % st["self"] + (" + 1" if st["attach"] == "append" else "")
            elif d == "anisotropy" and isinstance(v, ast.Constant) and isinstance(v.value, bool):
                val = "true" if v.value else "false"
            elif d == "anisotropy" and isinstance(v, ast.Attribute) and v.attr == "anisotropy":
                val = "%s.s.aniso" % self.atom(v.value, st)
            else:
                raise U("`%s`" % norm(s)[:70])
            new = self.fresh("self")
            self.L.append("let %s : CifRow.PState α := { %s with %s := %s.%s.set %s (%s) }" % (new, st["self"], d, st["self"], d, key, val))
            st["self"] = new
            return True
        # a.anisotropy = True
        if isinstance(tg, ast.Attribute) and tg.attr == "anisotropy" and isinstance(s.value, ast.Constant) and isinstance(s.value.value, bool):
            cur = self.atom(tg.value, st)
            new = self.fresh("a")
            self.L.append("let %s : CifRow.Atom α := CifRow.Atom.liftS (AtomS.setAniso %s) %s" % (new, "true" if s.value.value else "false", cur))
            st["a"] = new
            return True
        return False

    def cond(self, t, st):
        if isinstance(t, ast.Name):
            return self.var(t, "bool")
        if isinstance(t, ast.Compare) and len(t.ops) == 1 and isinstance(t.ops[0], (ast.In, ast.NotIn)) \
                and (is_self_attr(t.comparators[0], "labelindex") or is_self_attr(t.comparators[0], "anisotropy")):
            c = "(%s.%s %s).isSome" % (st["self"], t.comparators[0].attr, self.var(t.left, "label"))
            return "!" + c if isinstance(t.ops[0], ast.NotIn) else c
        raise U("condition `%s`" % ast.unparse(t)[:60])

    def body(self, stmts, st, top):
        k = 0
        while k < len(stmts):
            s = stmts[k]
            k += 1
            if self.simple(s, st):
                continue
            if isinstance(s, ast.Assign) and len(s.targets) == 1 and isinstance(s.targets[0], ast.Name) and top:
                tg = self.ident(s.targets[0].id)
                v = s.value
                if tg in self.vars:
                    raise U("`%s` is assigned twice" % tg)
                # label = values[ilb]
                if isinstance(v, ast.Subscript) and isinstance(v.value, ast.Name) and self.vars.get(v.value.id, ("", ""))[1] == "row":
                    cell = self.fresh("v_" + tg)
                    self.L.append("match %s[%s]? with" % (self.var(v.value, "row"), self.var(v.slice, "nat")))
                    self.L.append("| none => Flow.raise Exc.IndexError")
                    self.L.append("| some %s =>" % cell)
                    self.L.append("let %s : String := %s.text" % (tg, cell))
                    self.vars[tg] = (tg, "label")
                    continue
                # idx = self.labelindex[label]
                if isinstance(v, ast.Subscript) and is_self_attr(v.value, "labelindex"):
                    self.L.append("match %s.labelindex %s with" % (st["self"], self.var(v.slice, "label")))
                    self.L.append("| none => Flow.raise Exc.KeyError")
                    self.L.append("| some %s =>" % tg)
                    self.vars[tg] = (tg, "nat")
                    continue
                # a = self.stru[idx]
                if isinstance(v, ast.Subscript) and is_self_attr(v.value, "stru"):
                    if st["attach"] is not None:
                        raise U("a second atom in one round")
                    idx = self.var(v.slice, "nat")
                    new = self.fresh("a")
                    self.L.append("match %s.atoms[%s]? with" % (st["self"], idx))
                    self.L.append("| none => Flow.raise Exc.IndexError")
                    self.L.append("| some %s =>" % new)
                    st.update(a=new, apy=tg, attach=("set", idx))
                    self.vars[tg] = (tg, "atom")
                    continue
                raise U("statement `%s`" % norm(s)[:70])
            # self.stru.addNewAtom(); a = self.stru.getLastAtom()
            if top and norm(s) == "self.stru.addNewAtom()":
                nx = stmts[k] if k < len(stmts) else None
                if not (nx is not None and isinstance(nx, ast.Assign) and len(nx.targets) == 1 and isinstance(nx.targets[0], ast.Name)
                        and ast.unparse(nx.value) == "self.stru.getLastAtom()"):
                    raise U("`self.stru.addNewAtom()` is not followed by `a = self.stru.getLastAtom()`")
                k += 1
                if st["attach"] is not None:
                    raise U("a second atom in one round")
                tg = self.ident(nx.targets[0].id)
                if tg in self.vars:
                    raise U("`%s` is assigned twice" % tg)
                new = self.fresh("a")
                self.L.append("let %s : CifRow.Atom α := CifRow.Atom.fresh lat" % new)
                st.update(a=new, apy=tg, attach="append")
                self.vars[tg] = (tg, "atom")
                continue
            # for fset, val in zip(prop_setters, values): fset(a, val)
            if top and isinstance(s, ast.For):
                ok = (not s.orelse and isinstance(s.target, ast.Tuple) and len(s.target.elts) == 2 and all(isinstance(x, ast.Name) for x in s.target.elts)
                      and isinstance(s.iter, ast.Call) and ast.unparse(s.iter.func) == "zip" and len(s.iter.args) == 2 and not s.iter.keywords
                      and len(s.body) == 1 and isinstance(s.body[0], ast.Expr) and isinstance(s.body[0].value, ast.Call))
                if not ok:
                    raise U("loop `%s`" % norm(s)[:70])
                f, val = (x.id for x in s.target.elts)
                c = s.body[0].value
                if f == val or c.keywords or len(c.args) != 2 or ast.unparse(c.func) != f or ast.unparse(c.args[1]) != val:
                    raise U("loop `%s`" % norm(s)[:70])
                cur = self.atom(c.args[0], st)
                new = self.fresh("a")
                self.L.append("match runSetters %s %s %s with" % (self.var(s.iter.args[0], "setters"), self.var(s.iter.args[1], "row"), cur))
                self.L.append("| Except.error e => Flow.raise e")
                self.L.append("| Except.ok %s =>" % new)
                st["a"] = new
                continue
            if isinstance(s, ast.If) and not s.orelse and top:
                # if label == "?": continue / break
                t = s.test
                if len(s.body) == 1 and isinstance(s.body[0], (ast.Continue, ast.Break)):
                    if not (isinstance(t, ast.Compare) and len(t.ops) == 1 and isinstance(t.ops[0], ast.Eq) and const_str(t.comparators[0])):
                        raise U("condition `%s`" % ast.unparse(t)[:60])
                    self.L.append("if %s == %s then Flow.%s %s else" % (self.var(t.left, "label"), pysrc.lean_str(t.comparators[0].value),
                                                                       "next" if isinstance(s.body[0], ast.Continue) else "brk", self.commit(st)))
                    continue
                # if cond: assignments
                c = self.fresh("c")
                self.L.append("let %s : Bool := %s" % (c, self.cond(t, st)))
                sub = dict(st)
                self.body(list(s.body), sub, False)
                for key, ty in (("a", "CifRow.Atom α"), ("self", "CifRow.PState α")):
                    if sub[key] != st[key]:
                        new = self.fresh(key)
                        self.L.append("let %s : %s := if %s then %s else %s" % (new, ty, c, sub[key], st[key]))
                        st[key] = new
                continue
            raise U("statement `%s`" % norm(s)[:70])
        if top:
            self.L.append("Flow.next %s" % self.commit(st))


SECTION = ("section\nvariable {α : Type} [Add α] [Mul α] [Sub α] [Neg α] [Div α] [OfNat α 0] [OfNat α 1]\n"
           "  [OfNat α 2] [OfNat α 3] [OfNat α 8] [LT α] [DecidableLT α] [Elem α] [AdpConst α]\n\n")


def count_ident(tree, ident):
    n = 0
    for x in ast.walk(tree):
        if isinstance(x, ast.Name) and x.id == ident:
            n += 1
        elif isinstance(x, ast.Attribute) and x.attr == ident:
            n += 1
        elif isinstance(x, ast.Constant) and x.value == ident:
            n += 1
    return n


def translate(report):
    info = {"methods": {}, "untranslatable": {}}
    report[GROUP] = info
    base = os.path.join(pysrc.REPO, "src", "diffpy", "structure")
    try:
        t_cif = ast.parse(open(os.path.join(base, "parsers", "p_cif.py"), encoding="utf-8").read())
        t_atom = ast.parse(open(os.path.join(base, "atom.py"), encoding="utf-8").read())
        t_stru = ast.parse(open(os.path.join(base, "structure.py"), encoding="utf-8").read())
    except (OSError, SyntaxError) as e:
        raise U("cannot read the source: %s" % e)
    out = []
    gen = []          # definitions that need the scalar section

    def fail(name, e):
        info["untranslatable"][name] = str(e)
        return "def %s_untranslatable : String := %s\n\n" % (name, pysrc.lean_str(str(e)))

    cls = pysrc.find_class(t_cif, "P_cif")
    try:
        acls, afacts = atom_facts(t_atom)
    except pysrc.Untranslatable as e:
        acls, afacts = None, {}
        out.append(fail("atom_facts", e))

    # ---- leading_float default ------------------------------------------------------------------------------
    lf_default = None
    try:
        lf = pysrc.find_func(t_cif.body, "leading_float")
        if lf is None or [x.arg for x in lf.args.args] != ["s", "d"] or len(lf.args.defaults) != 1:
            raise U("leading_float(s, d=<default>) not found")
        lf_default = numlit(lf.args.defaults[0])
        out.append("/-- default of the parameter `d` of `leading_float` -/\ndef leading_float_default : String := %s\n\n" % pysrc.lean_str(ast.unparse(lf.args.defaults[0])))
    except pysrc.Untranslatable as e:
        out.append(fail("leading_float_default", e))

    # ---- BtoU -----------------------------------------------------------------------------------------------
    try:
        b = [st for st in cls.body if isinstance(st, ast.Assign) and any(isinstance(t, ast.Name) and t.id == "BtoU" for t in st.targets)]
        if len(b) != 1 or len(b[0].targets) != 1:
            raise U("`BtoU = …` is not defined exactly once in the class body")
        if count_ident(t_cif, "BtoU") != 1 + sum(1 for x in ast.walk(t_cif) if isinstance(x, ast.Attribute) and x.attr == "BtoU" and ast.unparse(x) == "P_cif.BtoU"):
            raise U("`BtoU` is referred to other than as `P_cif.BtoU`")
        gen.append("/-- `P_cif.BtoU = %s` -/\ndef BtoU : α := %s\n\n" % (ast.unparse(b[0].value), arith(b[0].value)))
        info["methods"]["BtoU"] = True
        have_btou = True
    except pysrc.Untranslatable as e:
        out.append(fail("BtoU", e))
        have_btou = False

    # ---- _psymb ---------------------------------------------------------------------------------------------
    try:
        p = [st for st in cls.body if isinstance(st, ast.Assign) and any(isinstance(t, ast.Name) and t.id == "_psymb" for t in st.targets)]
        if len(p) != 1 or len(p[0].targets) != 1:
            raise U("`_psymb = …` is not defined exactly once")
        c = p[0].value
        if not (isinstance(c, ast.Call) and ast.unparse(c.func) == "re.compile" and len(c.args) == 1 and not c.keywords
                and isinstance(c.args[0], ast.Constant) and isinstance(c.args[0].value, str)):
            raise U("`_psymb = %s`" % ast.unparse(c)[:60])
        out.append("/-- the pattern of `P_cif._psymb` -/\ndef psymb_pattern : String := %s\n\n" % pysrc.lean_str(c.args[0].value))
        info["methods"]["_psymb"] = True
    except pysrc.Untranslatable as e:
        out.append(fail("psymb_pattern", e))

    # ---- class namespace: which function every `_tr_*` attribute is bound to --------------------------------
    funcs = {}       # name -> FunctionDef (latest def)
    binding = {}     # attribute name -> name of the FunctionDef it is bound to (through staticmethod)
    bind_err = None
    try:
        for st in cls.body:
            if isinstance(st, ast.FunctionDef) and st.name.startswith("_tr_"):
                if st.name in funcs:
                    raise U("`%s` is defined twice" % st.name)
                funcs[st.name] = st
                binding[st.name] = ("plain", st.name)
            elif isinstance(st, ast.Assign):
                for tg in st.targets:
                    for sub in ast.walk(tg):
                        if isinstance(sub, ast.Name) and sub.id.startswith("_tr_"):
                            if len(st.targets) != 1 or sub is not tg:
                                raise U("`%s`" % norm(st)[:70])
                            v = st.value
                            if isinstance(v, ast.Call) and isinstance(v.func, ast.Name) and v.func.id == "staticmethod" and len(v.args) == 1 \
                                    and not v.keywords and isinstance(v.args[0], ast.Name) and v.args[0].id == sub.id and binding.get(sub.id, ("", ""))[0] == "plain":
                                binding[sub.id] = ("static", binding[sub.id][1])
                            elif isinstance(v, ast.Name) and binding.get(v.id, ("", ""))[0] == "static":
                                binding[sub.id] = binding[v.id]
                            else:
                                raise U("`%s`" % norm(st)[:70])
            elif isinstance(st, (ast.AugAssign, ast.AnnAssign, ast.Delete, ast.ClassDef, ast.AsyncFunctionDef)):
                if any(isinstance(x, ast.Name) and x.id.startswith("_tr_") for x in ast.walk(st)):
                    raise U("`%s`" % norm(st)[:70])
        for n, (kind, _) in binding.items():
            if kind != "static":
                raise U("`%s` is not wrapped by staticmethod" % n)
        # nothing outside the class re-binds a setter
        for x in ast.walk(t_cif):
            if isinstance(x, (ast.Assign, ast.AugAssign, ast.Delete)):
                for tg in (x.targets if not isinstance(x, ast.AugAssign) else [x.target]):
                    if isinstance(tg, ast.Attribute) and tg.attr.startswith("_tr_"):
                        raise U("`%s`" % norm(x)[:70])
            if isinstance(x, ast.Call) and isinstance(x.func, ast.Name) and x.func.id in ("setattr", "delattr"):
                raise U("`%s`" % norm(x)[:70])
    except pysrc.Untranslatable as e:
        bind_err = e

    # ---- the setters ----------------------------------------------------------------------------------------
    done = {}
    order = []
    lfs = {}

    def do_setter(name, stack=()):
        if name in done:
            return
        if name in stack:
            raise U("recursive setters")
        fn = funcs[name]
        tx = SetterTx(afacts, lf_default, set(funcs))
        if lf_default is None:
            raise U("default of leading_float unknown")
        lines, res = tx.run(fn)
        if not have_btou and any("BtoU" in ln for ln in lines):
            raise U("uses P_cif.BtoU, which is not translatable")
        for c in tx.calls:
            do_setter(c, stack + (name,))
            if not done.get(c):
                raise U("calls `%s`, which is not translatable" % c)
            if lfs.get(c):
                raise U("calls `%s`, which can raise (conditional exceptions are not supported)" % c)
        lfs[name] = list(tx.lf)
        doc = "; ".join(norm(s) for s in strip_doc(fn.body))
        txt = "/-- `%s(a, value)`: %s -/\ndef %s (a : CifRow.Atom α) (value : CifRow.Value α) : CifRow.Atom α :=\n" % (name, doc.replace("-/", "- /"), lname(name))
        for ln in lines:
            txt += "  " + ln + "\n"
        txt += "  " + res + "\n\n"
        txt += "/-- `%s(a, value)` does not raise: every `leading_float` call of its body succeeds -/\ndef %s_ok (value : CifRow.Value α) : Bool :=\n  %s\n\n" % (
            name, lname(name), " && ".join(tx.lf) if tx.lf else "true")
        done[name] = txt
        order.append(name)

    for name in funcs:
        try:
            do_setter(name)
            info["methods"][name] = True
        except pysrc.Untranslatable as e:
            done[name] = None
            out.append(fail(lname(name), e))
    for name in order:
        if done.get(name):
            gen.append(done[name])

    # ---- getattr(P_cif, name) -------------------------------------------------------------------------------
    if bind_err is None and all(done.get(f) for _, f in binding.values()):
        rows = ", ".join("(%s, %s)" % (pysrc.lean_str(n), lname(f)) for n, (_, f) in binding.items())
        gen.append("/-- `getattr(P_cif, name)` for the setter methods, in the order of the class body -/\n"
                   "def attrs : List (String × (CifRow.Atom α → CifRow.Value α → CifRow.Atom α)) :=\n  [%s]\n\n" % rows)
        rows = ", ".join("(%s, ({ ok := %s_ok, run := %s } : Setter α))" % (pysrc.lean_str(n), lname(f), lname(f)) for n, (_, f) in binding.items())
        gen.append("/-- `getattr(P_cif, name)` with the condition under which the call `f(a, value)` returns -/\n"
                   "def attrs_chk : List (String × Setter α) :=\n  [%s]\n\n" % rows)
        info["methods"]["getattr"] = True
        have_attrs = True
    else:
        out.append(fail("attrs", bind_err or U("a setter is not translatable")))
        have_attrs = False

    # ---- _atom_setters --------------------------------------------------------------------------------------
    have_table = False
    try:
        asg = [st for st in cls.body if isinstance(st, ast.Assign) and any(isinstance(t, ast.Name) and t.id == "_atom_setters" for t in st.targets)]
        if len(asg) != 1 or len(asg[0].targets) != 1:
            raise U("`_atom_setters = …` is not defined exactly once")
        v = asg[0].value
        if not (isinstance(v, ast.Call) and ast.unparse(v.func) == "dict.fromkeys" and len(v.args) == 1 and not v.keywords
                and isinstance(v.args[0], (ast.Tuple, ast.List))
                and all(isinstance(x, ast.Constant) and isinstance(x.value, str) for x in v.args[0].elts)):
            raise U("`_atom_setters = %s`" % ast.unparse(v)[:60])
        keys = [x.value for x in v.args[0].elts]
        k0 = cls.body.index(asg[0])
        loops = [st for st in cls.body[k0 + 1:] if isinstance(st, ast.For)]
        want = "for k in list(_atom_setters.keys()):\n    _atom_setters[k] = _atom_setters[k.lower()] = k"
        if len(loops) != 1 or ast.unparse(loops[0]) != want:
            raise U("the case-folding loop over `_atom_setters` is not `%s`" % " ".join(want.split()))
        # the table is touched nowhere else: 1 assignment + 3 names in the loop + 1 use in `_get_atom_setters`
        if count_ident(t_cif, "_atom_setters") != 5:
            raise U("`_atom_setters` is referred to %d times (expected: definition, loop, one lookup)" % count_ident(t_cif, "_atom_setters"))
        d = dict.fromkeys(keys)
        for k in list(d.keys()):
            d[k] = k
            d[k.lower()] = k
        out.append("/-- `P_cif._atom_setters` after the class body has run, in dictionary order -/\ndef atom_setters : List (String × String) :=\n  [%s]\n\n" % (
            ",\n   ".join("(%s, %s)" % (pysrc.lean_str(k), pysrc.lean_str(val)) for k, val in d.items())))
        info["methods"]["_atom_setters"] = True
        have_table = True
    except pysrc.Untranslatable as e:
        out.append(fail("atom_setters", e))

    # ---- _get_atom_setters ----------------------------------------------------------------------------------
    have_getter = False
    try:
        fn = pysrc.find_func(cls.body, "_get_atom_setters")
        if fn is None or [x.arg for x in fn.args.args] != ["cifloop"] or fn.decorator_list:
            raise U("_get_atom_setters(cifloop) not found")
        wrap = [st for st in cls.body if isinstance(st, ast.Assign) and norm(st) == "_get_atom_setters = staticmethod(_get_atom_setters)"]
        if len(wrap) != 1:
            raise U("_get_atom_setters is not wrapped by staticmethod exactly once")
        body = strip_doc(fn.body)
        if len(body) != 3 or norm(body[0]) != "rv = []" or not isinstance(body[1], ast.For) or norm(body[2]) != "return rv":
            raise U("_get_atom_setters: statement skeleton")
        loop = body[1]
        if not (isinstance(loop.target, ast.Name) and loop.target.id == "p" and ast.unparse(loop.iter) == "cifloop.keys()" and not loop.orelse and len(loop.body) == 4):
            raise U("_get_atom_setters: loop header `%s`" % norm(loop)[:60])
        s1, s2, s3, s4 = loop.body
        # lcname = "<prefix>" + p.lower()
        if not (isinstance(s1, ast.Assign) and ast.unparse(s1.targets[0]) == "lcname" and isinstance(s1.value, ast.BinOp) and isinstance(s1.value.op, ast.Add)
                and isinstance(s1.value.left, ast.Constant) and isinstance(s1.value.left.value, str) and ast.unparse(s1.value.right) == "p.lower()"):
            raise U("_get_atom_setters: `%s`" % norm(s1))
        prefix = s1.value.left.value
        # fncname = P_cif._atom_setters.get(lcname, "<default>")
        c = s2.value if isinstance(s2, ast.Assign) else None
        if not (c is not None and ast.unparse(s2.targets[0]) == "fncname" and isinstance(c, ast.Call) and ast.unparse(c.func) == "P_cif._atom_setters.get"
                and len(c.args) == 2 and not c.keywords and ast.unparse(c.args[0]) == "lcname" and isinstance(c.args[1], ast.Constant) and isinstance(c.args[1].value, str)):
            raise U("_get_atom_setters: `%s`" % norm(s2))
        default = c.args[1].value
        if norm(s3) != "f = getattr(P_cif, fncname)" or norm(s4) != "rv.append(f)":
            raise U("_get_atom_setters: `%s; %s`" % (norm(s3), norm(s4)))
        if not (have_table and have_attrs):
            raise U("the name table or the setters are not translatable")
        out.append("/-- `fncname` of `_get_atom_setters` for the loop item `p` -/\ndef fncName (p : String) : String :=\n"
                   "  (atom_setters.lookup (%s ++ CifRow.pyLower p)).getD %s\n\n" % (pysrc.lean_str(prefix), pysrc.lean_str(default)))
        gen.append("/-- one round of the loop of `_get_atom_setters`: `getattr(P_cif, fncname)`; `none` = AttributeError -/\n"
                   "def get_atom_setter (p : String) : Option (CifRow.Atom α → CifRow.Value α → CifRow.Atom α) :=\n  (attrs (α := α)).lookup (fncName p)\n\n"
                   "/-- `_get_atom_setters(cifloop)`: the setters in the order of `cifloop.keys()` -/\n"
                   "def get_atom_setters (keys : List String) : Option (List (CifRow.Atom α → CifRow.Value α → CifRow.Atom α)) :=\n  keys.mapM (get_atom_setter (α := α))\n\n"
                   "/-- `_get_atom_setters(cifloop)` with, for every setter, the condition under which its call returns -/\n"
                   "def get_atom_setters_chk (keys : List String) : Option (List (Setter α)) :=\n  keys.mapM (fun p => (attrs_chk (α := α)).lookup (fncName p))\n\n")
        have_getter = True
        info["methods"]["_get_atom_setters"] = True
    except pysrc.Untranslatable as e:
        out.append(fail("get_atom_setter", e))

    # ---- statements recorded as text ------------------------------------------------------------------------
    def text_fact(lean_name, doc, getter):
        try:
            fn = getter()
            if fn is None:
                raise U("not found")
            if fn.decorator_list and lean_name not in ("xyz_cartn_get", "xyz_cartn_set"):
                raise U("decorated")
            params = ", ".join(x.arg for x in fn.args.args)
            if fn.args.vararg:
                params += ", *" + fn.args.vararg.arg
            if fn.args.kwarg:
                params += ", **" + fn.args.kwarg.arg
            out.append("/-- %s -/\ndef %s : List String :=\n  [%s]\n\n" % (doc, lean_name, ",\n   ".join(pysrc.lean_str(x) for x in ["(%s)" % params] + body_text(fn))))
            info["methods"][lean_name] = True
        except pysrc.Untranslatable as e:
            out.append(fail(lean_name, e))

    def only(body, name, pred=lambda f: True):
        fs = [st for st in body if isinstance(st, ast.FunctionDef) and st.name == name and pred(st)]
        if len(fs) != 1:
            raise U("`%s` is defined %d times" % (name, len(fs)))
        return fs[0]

    for mname in ("_parse_atom_site_label", "_parse_atom_site_aniso_label"):
        try:
            if not have_getter:
                raise U("_get_atom_setters is not translatable")
            gen.append(LoopTx().method(only(cls.body, mname), lname(mname)))
            info["methods"][mname] = True
        except pysrc.Untranslatable as e:
            out.append(fail(lname(mname), e))
    text_fact("parseCifBlock", "`P_cif._parseCifBlock`, as written", lambda: only(cls.body, "_parseCifBlock"))
    if acls is not None:
        def is_setter(f):
            return any(isinstance(d, ast.Attribute) and d.attr == "setter" for d in f.decorator_list)

        text_fact("xyz_cartn_get", "`Atom.xyz_cartn` getter", lambda: only(acls.body, "xyz_cartn", lambda f: not is_setter(f)))
        text_fact("xyz_cartn_set", "`Atom.xyz_cartn` setter", lambda: only(acls.body, "xyz_cartn", is_setter))
        try:
            cc = pysrc.find_class(t_atom, "_AtomCartesianCoordinates")
            text_fact("cartn_init", "`_AtomCartesianCoordinates.__init__`", lambda: only(cc.body, "__init__"))
            text_fact("cartn_setitem", "`_AtomCartesianCoordinates.__setitem__`", lambda: only(cc.body, "__setitem__"))
        except pysrc.Untranslatable as e:
            out.append(fail("cartn_init", e))
        try:
            want = ["element", "label", "occupancy", "_anisotropy", "lattice"]
            dflt = []
            for n in want:
                f = afacts.get(n)
                if f is None or f[0] != "plain":
                    raise U("`Atom.%s` is not a plain class attribute" % n)
                dflt.append((n, f[1]))
            ini = only(acls.body, "__init__")
            arrays = [norm(st) for st in strip_doc(ini.body) if isinstance(st, ast.Assign) and ast.unparse(st.targets[0]) in ("self.xyz", "self._U")]
            out.append("/-- class-level defaults of `Atom` and the array attributes `__init__` creates -/\ndef atom_defaults : List (String × String) :=\n  [%s]\n\n" % (
                ", ".join("(%s, %s)" % (pysrc.lean_str(a), pysrc.lean_str(b)) for a, b in dflt)))
            out.append("def atom_init_arrays : List String := %s\n\n" % lean_list(arrays))
            info["methods"]["atom_defaults"] = True
        except pysrc.Untranslatable as e:
            out.append(fail("atom_defaults", e))
    try:
        scls = pysrc.find_class(t_stru, "Structure")
        text_fact("addNewAtom", "`Structure.addNewAtom`", lambda: only(scls.body, "addNewAtom"))
        text_fact("getLastAtom", "`Structure.getLastAtom`", lambda: only(scls.body, "getLastAtom"))
    except pysrc.Untranslatable as e:
        out.append(fail("addNewAtom", e))

    hdr = ("-- GENERATED by translate/src_cifrow.py from src/diffpy/structure/parsers/p_cif.py (+ atom.py, structure.py) — do not edit\n"
           "import DS.Model.CifRow\nnamespace DS.Src.CifRow\nset_option linter.unusedVariables false\nopen DS\n\n")
    return hdr + "".join(out) + PRELUDE + SECTION + "".join(gen) + "end\nend DS.Src.CifRow\n"
