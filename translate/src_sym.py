"""Source-tie plug-in "sym": `symmetryutilities.expandPosition` and its helpers -> `lean/DS/Gen/SrcSym.lean`.

Loaded by translate/pysrc.py (`pysrc` is injected as a module global).  Reads from `pysrc.REPO`:

  src/diffpy/structure/spacegroupmod.py     SymOp.__call__, SpaceGroup.iter_symops (text)
  src/diffpy/structure/symmetryutilities.py _Position2Tuple.__init__/__call__, positionDifference, nearestSiteIndex,
                                            equalPositions, expandPosition

and emits each function as a composition of the numpy/Python primitives of `DS/Model/SymReal.lean` over a generic
scalar.  `DS/Props/SrcSym.lean` proves that this transliteration, run on `x/D`, `off/D`, `eps = E/D`, is
`DS.Orbit.expand` (the integer model of C02) divided by `D`.

Typing (Python has none; fixed here from the call sites inside `expandPosition`):
  S scalar, V length-3 array, L list of V (n x 3 array), LS 1-d array of scalars, BV boolean length-3 array, B bool,
  Z Python int, K tuple of 3 ints (dictionary key), OP SymOp, ON index or error, M 3x3 array.

Supported subset — everything else raises `Untranslatable` (=> `def <name>_untranslatable`, the tie theorems do not
elaborate, the check reports a broken tie):
  straight-line statements  `x = e`, `x[m] = e`, `x[m] -= e`, `return e`, docstrings
  expressions   float constants, names, `+ -` (element-wise, scalars broadcast), `/` and `*` on scalars, one comparison
                `< <= > >=`, `numpy.floor`, `numpy.asarray(x)`, `numpy.logical_or`, `numpy.all`, `numpy.argmin`,
                `numpy.dot(self.R, v)`, `X.max(axis=1)`, `int(x)`, `tuple([f(xi) for xi in v])`, `self.R/.t/.eps`,
                `x[m]` inside a masked assignment with the same mask, calls of the translated helpers
  the body of `expandPosition` must have EXACTLY the statement skeleton written in `LOOP_SKELETON` below (dictionary
  and list statements are compared as text, the numeric expressions go through the expression translator).
"""
import ast
import os

GROUP = "sym"
OUTFILE = "SrcSym.lean"

# the module global `pysrc` is injected by translate/pysrc.py before this file is executed


def U(msg):
    return pysrc.Untranslatable(msg)


def flt(v):
    """a Python float constant as a Lean scientific literal of the scalar type"""
    r = repr(float(v))
    if "e" in r or "inf" in r or "nan" in r or "." not in r:
        raise U("float constant %r" % (v,))
    return "(%s : α)" % r


CMP = {ast.Lt: "lt", ast.LtE: "le", ast.Gt: "gt", ast.GtE: "ge"}
CMPS = {ast.Lt: "<", ast.LtE: "≤", ast.Gt: ">", ast.GtE: "≥"}

# translated helpers: python name -> (lean name, argument types, result type)
HELPERS = {
    "positionDifference": ("positionDifference", ["V", "V"], "V"),
    "nearestSiteIndex": ("nearestSiteIndex", ["L", "V"], "ON"),
    "equalPositions": ("equalPositions", ["V", "V", "S"], "B"),
}


# helpers (and methods) that have been emitted in this run; a caller of a missing one is untranslatable too, so that the
# generated file always elaborates and the errors appear at the tie theorems of DS/Props/SrcSym.lean
AVAILABLE = set()


class Ex:
    """expression translator; env: python name -> (lean text, type)"""

    def __init__(self, env, mask=None, extra=None):
        self.env = dict(env)
        self.mask = mask  # ast dump of the mask of the enclosing masked assignment
        self.extra = extra or {}  # callable locals: python name -> function(args) -> (lean, type)

    def vec(self, e):
        s, t = e
        if t == "V":
            return s
        if t == "S":
            return "(Np.fill %s)" % s
        raise U("operand of type %s where an array or scalar is needed" % t)

    def tx(self, n):
        if isinstance(n, ast.Constant):
            if type(n.value) is float:
                return flt(n.value), "S"
            raise U("constant %r" % (n.value,))
        if isinstance(n, ast.Name):
            if n.id in self.env:
                return self.env[n.id]
            raise U("name `%s`" % n.id)
        if isinstance(n, ast.Attribute):
            src = ast.unparse(n)
            if src in self.env:
                return self.env[src]
            raise U("attribute `%s`" % src)
        if isinstance(n, ast.BinOp):
            a, b = self.tx(n.left), self.tx(n.right)
            if type(n.op) in (ast.Add, ast.Sub):
                o, f = ("+", "add") if isinstance(n.op, ast.Add) else ("-", "sub")
                if a[1] == "S" and b[1] == "S":
                    return "(%s %s %s)" % (a[0], o, b[0]), "S"
                if a[1] in "SV" and b[1] in "SV":
                    return "(Np.%s %s %s)" % (f, self.vec(a), self.vec(b)), "V"
            if type(n.op) in (ast.Div, ast.Mult) and a[1] == "S" and b[1] == "S":
                return "(%s %s %s)" % (a[0], "/" if isinstance(n.op, ast.Div) else "*", b[0]), "S"
            raise U("operator in `%s` on types %s, %s" % (ast.unparse(n), a[1], b[1]))
        if isinstance(n, ast.Compare):
            if len(n.ops) != 1 or type(n.ops[0]) not in CMP:
                raise U("comparison `%s`" % ast.unparse(n))
            a, b = self.tx(n.left), self.tx(n.comparators[0])
            if a[1] == "S" and b[1] == "S":
                return "(decide (%s %s %s))" % (a[0], CMPS[type(n.ops[0])], b[0]), "B"
            if a[1] in "SV" and b[1] in "SV":
                return "(Np.%s %s %s)" % (CMP[type(n.ops[0])], self.vec(a), self.vec(b)), "BV"
            raise U("comparison `%s` on types %s, %s" % (ast.unparse(n), a[1], b[1]))
        if isinstance(n, ast.Subscript):
            # only `X[mask]` with the mask of the enclosing masked assignment: the whole array (element-wise context)
            if self.mask is not None and ast.dump(n.slice) == self.mask:
                a = self.tx(n.value)
                if a[1] == "V":
                    return a
            raise U("subscript `%s`" % ast.unparse(n))
        if isinstance(n, ast.Call):
            return self.call(n)
        raise U("expression `%s`" % ast.unparse(n))

    def call(self, n):
        f = ast.unparse(n.func)
        if isinstance(n.func, ast.Attribute) and n.func.attr == "max" and not n.args:
            # X.max(axis=1)
            if len(n.keywords) == 1 and n.keywords[0].arg == "axis" and isinstance(n.keywords[0].value, ast.Constant) \
                    and n.keywords[0].value.value == 1 and type(n.keywords[0].value.value) is int:
                a = self.tx(n.func.value)
                if a[1] == "L":
                    return "(Np.maxAxis1 %s)" % a[0], "LS"
            raise U("call `%s`" % ast.unparse(n))
        if n.keywords or any(isinstance(a, ast.Starred) for a in n.args):
            raise U("call with keywords `%s`" % ast.unparse(n))
        if f == "tuple" and len(n.args) == 1 and isinstance(n.args[0], ast.ListComp):
            c = n.args[0]
            if len(c.generators) != 1:
                raise U("comprehension `%s`" % ast.unparse(c))
            g = c.generators[0]
            if g.ifs or g.is_async or not isinstance(g.target, ast.Name):
                raise U("comprehension `%s`" % ast.unparse(c))
            it = self.tx(g.iter)
            if it[1] != "V":
                raise U("comprehension over `%s`" % ast.unparse(g.iter))
            sub = Ex(dict(self.env, **{g.target.id: (g.target.id, "S")}), extra=self.extra)
            el = sub.tx(c.elt)
            if el[1] != "Z":
                raise U("tuple element `%s` is not an int" % ast.unparse(c.elt))
            return "(Np.map3 (fun %s => %s) %s)" % (g.target.id, el[0], it[0]), "K"
        args = [self.tx(a) for a in n.args]
        ty = [a[1] for a in args]
        if f == "numpy.floor" and ty == ["V"]:
            return "(Np.floor %s)" % args[0][0], "V"
        if f == "numpy.floor" and ty == ["S"]:
            return "(Np.floorS %s)" % args[0][0], "S"
        if f == "numpy.asarray" and len(ty) == 1 and ty[0] in ("V", "L"):
            return args[0]
        if f == "numpy.logical_or" and ty == ["BV", "BV"]:
            return "(Np.logical_or %s %s)" % (args[0][0], args[1][0]), "BV"
        if f == "numpy.all" and ty == ["BV"]:
            return "(Np.all %s)" % args[0][0], "B"
        if f == "numpy.argmin" and ty == ["LS"]:
            return "(Np.argmin %s)" % args[0][0], "ON"
        if f == "numpy.dot" and ty == ["M", "V"]:
            return "(Np.dot %s %s)" % (args[0][0], args[1][0]), "V"
        if f == "int" and ty == ["S"]:
            return "(Py.int %s)" % args[0][0], "Z"
        if f in self.extra:
            return self.extra[f](args)
        if f in HELPERS:
            if f not in AVAILABLE:
                raise U("call of `%s`, which is itself untranslatable" % f)
            ln, want, ret = HELPERS[f]
            if ty == want:
                return "(%s %s)" % (ln, " ".join(a[0] for a in args)), ret
            if f == "positionDifference" and ty == ["L", "V"]:
                # every statement of positionDifference is element-wise: broadcasting over the rows
                return "(%s.map fun row => positionDifference row %s)" % (args[0][0], args[1][0]), "L"
        raise U("call `%s` on types %s" % (ast.unparse(n), ",".join(ty)))


def strip_doc(body):
    return [b for b in body if not (isinstance(b, ast.Expr) and isinstance(b.value, ast.Constant) and isinstance(b.value.value, str))]


def is_fresh(node):
    """the value is a NEW array (an arithmetic result or the result of a call other than `numpy.asarray`), so that a
    later in-place `x[mask] = ...` cannot be seen through another name"""
    if isinstance(node, ast.BinOp):
        return True
    return isinstance(node, ast.Call) and ast.unparse(node.func) != "numpy.asarray"


def straight(stmts, env, extra=None, allow_return=True, frozen=()):
    """straight-line statements -> (list of `let` lines, final env, return (lean, type) or None).
    `frozen`: names that must not be assigned (they are read again outside the translated block)."""
    env = dict(env)
    lines = []
    ret = None
    fresh = set()
    for i, s in enumerate(stmts):
        if ret is not None:
            raise U("statement after return: `%s`" % ast.unparse(s)[:60])
        if isinstance(s, ast.Return):
            if not allow_return or s.value is None:
                raise U("return `%s`" % ast.unparse(s))
            ret = Ex(env, extra=extra).tx(s.value)
            continue
        if isinstance(s, ast.Assign) and len(s.targets) == 1 and isinstance(s.targets[0], ast.Name):
            e = Ex(env, extra=extra).tx(s.value)
            if e[1] not in ("S", "V", "L", "LS", "BV", "B", "ON", "K"):
                raise U("assignment of type %s: `%s`" % (e[1], ast.unparse(s)))
            name = s.targets[0].id
            if name in frozen:
                raise U("assignment to `%s`, which is used outside this block" % name)
            lines.append("let %s := %s" % (name, e[0]))
            env[name] = (name, e[1])
            if is_fresh(s.value):
                fresh.add(name)
            else:
                fresh.discard(name)
            continue
        masked = None
        if isinstance(s, ast.Assign) and len(s.targets) == 1 and isinstance(s.targets[0], ast.Subscript):
            masked = (s.targets[0], s.value, None)
        if isinstance(s, ast.AugAssign) and isinstance(s.target, ast.Subscript) and isinstance(s.op, ast.Sub):
            masked = (s.target, s.value, "sub")
        if masked and isinstance(masked[0].value, ast.Name) and env.get(masked[0].value.id, ("", ""))[1] == "V":
            tgt, val, aug = masked
            name = tgt.value.id
            if name not in fresh or name in frozen:
                raise U("in-place assignment `%s` to an array that may be visible under another name" % ast.unparse(tgt))
            m = Ex(env, extra=extra).tx(tgt.slice)
            if m[1] != "BV":
                raise U("index of `%s` is not a boolean mask" % ast.unparse(tgt))
            ex = Ex(env, mask=ast.dump(tgt.slice), extra=extra)
            e = ex.tx(val)
            if e[1] not in ("S", "V"):
                raise U("masked assignment of type %s: `%s`" % (e[1], ast.unparse(s)))
            rhs = ex.vec(e)
            if aug == "sub":
                rhs = "(Np.sub %s %s)" % (name, rhs)
            lines.append("let %s := Np.assignMask %s %s %s" % (name, name, m[0], rhs))
            continue
        raise U("statement `%s`" % ast.unparse(s)[:80])
    return lines, env, ret


def emit(name, params, rettype, lines, result, doc):
    out = ["/-- %s -/" % doc, "def %s %s : %s :=" % (name, params, rettype)]
    out += ["  " + ln for ln in lines]
    out.append("  " + result)
    return "\n".join(out) + "\n\n"


def unique_def(body, name, kind=ast.FunctionDef):
    """the one definition of `name` in `body`; none, several, or a later rebinding of the name -> Untranslatable"""
    defs = [n for n in body if isinstance(n, (ast.FunctionDef, ast.AsyncFunctionDef, ast.ClassDef)) and n.name == name]
    for n in body:
        tg = []
        if isinstance(n, ast.Assign):
            tg = n.targets
        elif isinstance(n, (ast.AugAssign, ast.AnnAssign)):
            tg = [n.target]
        if any(isinstance(t, ast.Name) and t.id == name for t in tg):
            raise U("`%s` is rebound by an assignment" % name)
    if len(defs) != 1 or not isinstance(defs[0], kind):
        raise U("`%s`: %d definitions" % (name, len(defs)))
    if defs[0].decorator_list:
        raise U("`%s` is decorated" % name)
    return defs[0]


def argnames(fn):
    a = fn.args
    if a.vararg or a.kwarg or a.kwonlyargs or a.posonlyargs:
        raise U("%s: signature" % fn.name)
    return [x.arg for x in a.args], [ast.unparse(d) for d in a.defaults]


LEAN_T = {"S": "α", "V": "V3 α", "L": "List (V3 α)", "B": "Bool", "ON": "Option Nat", "K": "V3 Int"}

# the loop of expandPosition after the numeric prefix, as text (ast.unparse normal form); <...> are translated calls
LOOP_SKELETON = [
    "tpl = pos2tuple(pos)",
    "if tpl not in site_symops:",
    "    pos_is_new = True",
    "    site_symops[tpl] = []",
    "    if positions:",
    "        nearpos = positions[<nearestSiteIndex(positions, pos)>]",
    "        if <equalPositions(nearpos, pos, eps)>:",
    "            site_symops[tpl] = site_symops[pos2tuple(nearpos)]",
    "            pos_is_new = False",
    "    if pos_is_new:",
    "        positions.append(pos)",
    "site_symops[tpl].append(symop)",
]


def tr_simple(out, info, fn, name, lean_name, params, types, ret, doc, env_extra=None, extra=None):
    """one straight-line function with fixed parameter names/types"""
    try:
        if fn is None:
            raise U("%s not found, or defined more than once" % name)
        names, defaults = argnames(fn)
        if names != params:
            raise U("%s: parameters %r" % (name, names))
        env = {p: (p, t) for p, t in zip(params, types) if t}
        if env_extra:
            env.update(env_extra)
        lines, _, r = straight(strip_doc(fn.body), env, extra=extra)
        if r is None or r[1] != ret:
            raise U("%s: result type %s" % (name, r and r[1]))
        ps = " ".join("(%s : %s)" % (env[p][0] if p in env else p, LEAN_T[t]) for p, t in zip(params, types) if t and t in LEAN_T)
        return lines, r, ps
    except pysrc.Untranslatable as e:
        info["untranslatable"][lean_name] = str(e)
        out.append("def %s_untranslatable : String := %s\n\n" % (lean_name, pysrc.lean_str(str(e))))
        return None


def expect(stmt, text, what):
    got = ast.unparse(stmt)
    if got != text:
        raise U("%s: expected `%s`, found `%s`" % (what, text, got[:80]))


def translate(report):
    info = {"methods": {}, "untranslatable": {}}
    report[GROUP] = info
    base = os.path.join(pysrc.REPO, "src", "diffpy", "structure")
    try:
        t_sg = ast.parse(open(os.path.join(base, "spacegroupmod.py"), encoding="utf-8").read())
        t_su = ast.parse(open(os.path.join(base, "symmetryutilities.py"), encoding="utf-8").read())
    except (OSError, SyntaxError) as e:
        raise U("cannot read the source: %s" % e)
    out = []
    facts = {}
    AVAILABLE.clear()

    # ---- SymOp.__call__ ---------------------------------------------------------------------------------------
    try:
        c = unique_def(t_sg.body, "SymOp", ast.ClassDef)
        fn = unique_def(c.body, "__call__")
    except pysrc.Untranslatable:
        fn = None
    r = tr_simple(out, info, fn, "SymOp.__call__", "symopCall", ["self", "vec"], [None, "V"], "V", "",
                  env_extra={"self.R": ("self.R", "M"), "self.t": ("self.t", "V")})
    if r:
        lines, res, _ = r
        out.append(emit("symopCall", "(self : SymOp α) (vec : V3 α)", "V3 α", lines, res[0], "`SymOp.__call__(self, vec)`"))
        info["methods"]["symopCall"] = True
    try:
        c = unique_def(t_sg.body, "SymOp", ast.ClassDef)
        ini = unique_def(c.body, "__init__")
        facts["SymOp.__init__"] = "; ".join(ast.unparse(s) for s in strip_doc(ini.body))
        sgc = unique_def(t_sg.body, "SpaceGroup", ast.ClassDef)
        it = unique_def(sgc.body, "iter_symops")
        facts["SpaceGroup.iter_symops"] = "; ".join(ast.unparse(s) for s in strip_doc(it.body))
    except pysrc.Untranslatable as e:
        facts["SpaceGroup.iter_symops"] = "? %s" % e

    # ---- _Position2Tuple ----------------------------------------------------------------------------------------
    try:
        p2t = unique_def(t_su.body, "_Position2Tuple", ast.ClassDef)
    except pysrc.Untranslatable:
        p2t = None
    # __init__: `if eps is None: eps = epsilon` (text) ; the two round-off statements (translated) ; the small-eps guard (text)
    try:
        if p2t is None:
            raise U("class _Position2Tuple not found (or defined more than once)")
        fn = unique_def(p2t.body, "__init__")
        names, defaults = argnames(fn)
        if names != ["self", "eps"] or defaults != ["None"]:
            raise U("_Position2Tuple.__init__: signature %r %r" % (names, defaults))
        b = strip_doc(fn.body)
        if len(b) != 5:
            raise U("_Position2Tuple.__init__: %d statements" % len(b))
        expect(b[0], "if eps is None:\n    eps = epsilon", "_Position2Tuple.__init__ default")
        facts["_Position2Tuple.__init__ default"] = ast.unparse(b[0]).replace("\n", " ")
        lines = []
        env = {"eps": ("eps", "S")}
        for s in b[1:3]:
            if not (isinstance(s, ast.Assign) and len(s.targets) == 1 and ast.unparse(s.targets[0]) == "self.eps"):
                raise U("_Position2Tuple.__init__: `%s`" % ast.unparse(s)[:60])
            e = Ex(env).tx(s.value)
            if e[1] != "S":
                raise U("_Position2Tuple.__init__: `%s`" % ast.unparse(s)[:60])
            lines.append("let self_eps := %s" % e[0])
            env["self.eps"] = ("self_eps", "S")
        if not isinstance(b[3], ast.If) or b[3].orelse:
            raise U("_Position2Tuple.__init__: `%s`" % ast.unparse(b[3])[:60])
        facts["_Position2Tuple.__init__ small-eps guard"] = ast.unparse(b[3]).replace("\n", " ")
        expect(b[3], "if self.eps == 0.0 or 1.0 / self.eps > sys.maxsize:\n    self.eps = 0.0", "_Position2Tuple.__init__ guard")
        expect(b[4], "return", "_Position2Tuple.__init__ end")
        out.append(emit("pos2tupleInit", "(eps : α)", "α", lines, "self_eps",
                        "`self.eps` after `_Position2Tuple.__init__(self, eps)` when the small-eps guard does not fire"))
        info["methods"]["pos2tupleInit"] = True
    except pysrc.Untranslatable as e:
        info["untranslatable"]["pos2tupleInit"] = str(e)
        out.append("def pos2tupleInit_untranslatable : String := %s\n\n" % pysrc.lean_str(str(e)))
    # __call__: eps == 0 branch as text, the integer branch translated
    try:
        if p2t is None:
            raise U("class _Position2Tuple not found (or defined more than once)")
        fn = unique_def(p2t.body, "__call__")
        names, defaults = argnames(fn)
        if names != ["self", "xyz"] or defaults:
            raise U("_Position2Tuple.__call__: signature %r" % names)
        b = strip_doc(fn.body)
        if not (len(b) >= 2 and isinstance(b[0], ast.If) and not b[0].orelse):
            raise U("_Position2Tuple.__call__: no leading `if self.eps == 0.0`")
        expect(b[0], "if self.eps == 0.0:\n    tpl = tuple(xyz % 1.0)\n    return tpl", "_Position2Tuple.__call__ float branch")
        facts["_Position2Tuple.__call__ eps == 0 branch"] = ast.unparse(b[0]).replace("\n", " ")
        lines, _, r = straight(b[1:], {"xyz": ("xyz", "V"), "self.eps": ("self_eps", "S")})
        if r is None or r[1] != "K":
            raise U("_Position2Tuple.__call__: result type %s" % (r and r[1]))
        out.append(emit("pos2tupleCall", "(self_eps : α) (xyz : V3 α)", "V3 Int", lines, r[0],
                        "`_Position2Tuple.__call__(self, xyz)`, branch `self.eps != 0.0`"))
        info["methods"]["pos2tupleCall"] = True
    except pysrc.Untranslatable as e:
        info["untranslatable"]["pos2tupleCall"] = str(e)
        out.append("def pos2tupleCall_untranslatable : String := %s\n\n" % pysrc.lean_str(str(e)))

    # ---- positionDifference / nearestSiteIndex / equalPositions -----------------------------------------------------
    for name, params, types, ret, rt in (
            ("positionDifference", ["xyz0", "xyz1"], ["V", "V"], "V", "V3 α"),
            ("nearestSiteIndex", ["sites", "xyz"], ["L", "V"], "ON", "Option Nat"),
            ("equalPositions", ["xyz0", "xyz1", "eps"], ["V", "V", "S"], "B", "Bool")):
        try:
            fdef = unique_def(t_su.body, name)
        except pysrc.Untranslatable:
            fdef = None
        r = tr_simple(out, info, fdef, name, name, params, types, ret, "")
        if r:
            lines, res, ps = r
            out.append(emit(name, ps, rt, lines, res[0], "`%s(%s)`" % (name, ", ".join(params))))
            info["methods"][name] = True
            AVAILABLE.add(name)

    # ---- expandPosition ----------------------------------------------------------------------------------------------
    try:
        fn = unique_def(t_su.body, "expandPosition")
        names, defaults = argnames(fn)
        if names != ["spacegroup", "xyz", "sgoffset", "eps"] or defaults != ["[0, 0, 0]", "None"]:
            raise U("expandPosition: signature %r %r" % (names, defaults))
        b = strip_doc(fn.body)
        if len(b) != 9:
            raise U("expandPosition: %d top-level statements" % len(b))
        expect(b[0], "sgoffset = numpy.asarray(sgoffset, dtype=float)", "expandPosition")
        expect(b[1], "if eps is None:\n    eps = epsilon", "expandPosition")
        expect(b[2], "pos2tuple = _Position2Tuple(eps)", "expandPosition")
        expect(b[3], "positions = []", "expandPosition")
        expect(b[4], "site_symops = {}", "expandPosition")
        loop = b[5]
        if not (isinstance(loop, ast.For) and not loop.orelse and ast.unparse(loop.target) == "symop"
                and ast.unparse(loop.iter) == "spacegroup.iter_symops()"):
            raise U("expandPosition: loop header `%s`" % ast.unparse(loop).split("\n")[0])
        expect(b[6], "pos_symops = [site_symops[pos2tuple(p)] for p in positions]", "expandPosition")
        expect(b[7], "multiplicity = len(positions)", "expandPosition")
        expect(b[8], "return (positions, pos_symops, multiplicity)", "expandPosition")
        facts["expandPosition prologue"] = "; ".join(ast.unparse(s).replace("\n", " ") for s in b[:5])
        facts["expandPosition epilogue"] = "; ".join(ast.unparse(s) for s in b[6:])
        body = loop.body
        # numeric prefix: straight-line statements up to `tpl = pos2tuple(pos)`
        k = None
        for i, s in enumerate(body):
            if isinstance(s, ast.Assign) and ast.unparse(s.targets[0]) == "tpl":
                k = i
                break
        if k is None or len(body) != k + 3:
            raise U("expandPosition: loop body does not end with `tpl = ...; if ...: ...; site_symops[tpl].append(symop)`")

        def call_symop(args):
            if "symopCall" not in info["methods"]:
                raise U("call of `SymOp.__call__`, which is itself untranslatable")
            if [a[1] for a in args] != ["V"]:
                raise U("symop(...) argument")
            return "(symopCall symop %s)" % args[0][0], "V"

        env = {"xyz": ("xyz", "V"), "sgoffset": ("sgoffset", "V"), "eps": ("eps", "S")}
        lines, env2, _ = straight(body[:k], env, extra={"symop": call_symop}, allow_return=False,
                                  frozen=("xyz", "sgoffset", "eps", "spacegroup", "symop", "tpl", "positions", "site_symops",
                                          "pos2tuple", "nearpos", "pos_is_new"))
        if env2.get("pos", ("", ""))[1] != "V":
            raise U("expandPosition: `pos` is not an array after the numeric prefix")
        out.append(emit("image", "(symop : SymOp α) (xyz sgoffset : V3 α) (eps : α)", "V3 α", lines, "pos",
                        "the statements of the loop body of `expandPosition` before `tpl = pos2tuple(pos)`: the value of `pos`"))
        info["methods"]["image"] = True
        # control skeleton
        ifs = body[k + 1]
        expect(body[k], LOOP_SKELETON[0], "expandPosition loop")
        expect(body[k + 2], LOOP_SKELETON[11], "expandPosition loop")
        if not (isinstance(ifs, ast.If) and not ifs.orelse and ast.unparse(ifs.test) == "tpl not in site_symops" and len(ifs.body) == 4):
            raise U("expandPosition: `if tpl not in site_symops:` block")
        expect(ifs.body[0], "pos_is_new = True", "expandPosition loop")
        expect(ifs.body[1], "site_symops[tpl] = []", "expandPosition loop")
        ifp, ifn = ifs.body[2], ifs.body[3]
        if not (isinstance(ifp, ast.If) and not ifp.orelse and ast.unparse(ifp.test) == "positions" and len(ifp.body) == 2):
            raise U("expandPosition: `if positions:` block")
        near = ifp.body[0]
        if not (isinstance(near, ast.Assign) and ast.unparse(near.targets[0]) == "nearpos" and isinstance(near.value, ast.Subscript)
                and ast.unparse(near.value.value) == "positions"):
            raise U("expandPosition: `nearpos = positions[...]`")
        lenv = dict(env2, positions=("positions", "L"), nearpos=("nearpos", "V"))
        idx = Ex(lenv).tx(near.value.slice)
        if idx[1] != "ON":
            raise U("expandPosition: index of `positions[...]`")
        ife = ifp.body[1]
        if not (isinstance(ife, ast.If) and not ife.orelse and len(ife.body) == 2):
            raise U("expandPosition: `if equalPositions(...)` block")
        test = Ex(lenv).tx(ife.test)
        if test[1] != "B":
            raise U("expandPosition: test `%s`" % ast.unparse(ife.test))
        expect(ife.body[0], "site_symops[tpl] = site_symops[pos2tuple(nearpos)]", "expandPosition loop")
        expect(ife.body[1], "pos_is_new = False", "expandPosition loop")
        expect(ifn, "if pos_is_new:\n    positions.append(pos)", "expandPosition loop")
        for need in ("pos2tupleInit", "pos2tupleCall"):
            if need not in info["methods"]:
                raise U("expandPosition uses `_Position2Tuple`, whose %s is untranslatable" % need)
        out.append(
            "/-- one iteration of `for symop in spacegroup.iter_symops()`; `none` = an exception.  Skeleton (verified as text):\n"
            + "".join("    %s\n" % s for s in LOOP_SKELETON) + "-/\n"
            "def loopBody (xyz sgoffset : V3 α) (eps pos2tuple_eps : α) (st : LoopSt α) (symop : SymOp α) : Option (LoopSt α) :=\n"
            "  let positions := st.positions\n"
            "  let site_symops := st.site_symops\n"
            "  let pos := image symop xyz sgoffset eps\n"
            "  let tpl := pos2tupleCall pos2tuple_eps pos\n"
            "  if site_symops.contains tpl = false then\n"
            "    let pos_is_new := true\n"
            "    let site_symops := site_symops.bindFresh tpl\n"
            "    (if positions.isEmpty = false then\n"
            "        %s.bind fun nearindex => (positions[nearindex]?).bind fun nearpos =>\n"
            "        if %s = true then\n"
            "          (site_symops.bindSame tpl (pos2tupleCall pos2tuple_eps nearpos)).bind fun site_symops =>\n"
            "          some (site_symops, false)\n"
            "        else some (site_symops, pos_is_new)\n"
            "      else some (site_symops, pos_is_new)).bind fun r =>\n"
            "    let positions := if r.2 = true then positions ++ [pos] else positions\n"
            "    (r.1.appendAt tpl symop).bind fun site_symops => some ⟨positions, site_symops⟩\n"
            "  else\n"
            "    (site_symops.appendAt tpl symop).bind fun site_symops => some ⟨positions, site_symops⟩\n\n" % (idx[0], test[0]))
        out.append(
            "/-- `expandPosition(spacegroup, xyz, sgoffset, eps)` with `symops = list(spacegroup.iter_symops())`:\n"
            "`(positions, pos_symops, multiplicity)`; `none` = an exception -/\n"
            "def expandPosition (symops : List (SymOp α)) (xyz sgoffset : V3 α) (eps : α) :\n"
            "    Option (List (V3 α) × List (List (SymOp α)) × Nat) :=\n"
            "  let pos2tuple_eps := pos2tupleInit eps\n"
            "  (symops.foldlM (loopBody xyz sgoffset eps pos2tuple_eps) ⟨[], RefDict.empty⟩).bind fun st =>\n"
            "  (Py.mapOpt (fun p => st.site_symops.get (pos2tupleCall pos2tuple_eps p)) st.positions).bind fun pos_symops =>\n"
            "  let multiplicity := st.positions.length\n"
            "  some (st.positions, pos_symops, multiplicity)\n\n")
        info["methods"]["loopBody"] = True
        info["methods"]["expandPosition"] = True
    except pysrc.Untranslatable as e:
        info["untranslatable"]["expandPosition"] = str(e)
        out.append("def expandPosition_untranslatable : String := %s\n\n" % pysrc.lean_str(str(e)))

    tail = ("end\n\n/-- statements recorded as text (not part of the arithmetic model) -/\n"
            "def facts : List (String × String) := [\n  %s]\n\n" % ",\n  ".join(
                "(%s, %s)" % (pysrc.lean_str(k), pysrc.lean_str(v)) for k, v in sorted(facts.items())))
    hdr = ("-- GENERATED by translate/src_sym.py from src/diffpy/structure/{symmetryutilities,spacegroupmod}.py — do not edit\n"
           "import DS.Model.SymReal\nnamespace DS.Src.Sym\nset_option linter.unusedVariables false\nopen DS\n\n"
           "section\nvariable {α : Type} [Add α] [Sub α] [Mul α] [Div α] [Neg α] [LT α] [LE α] [DecidableLT α] [DecidableLE α]\n"
           "  [OfNat α 0] [OfScientific α] [IntCast α] [FloorOrd α]\n\n")
    return hdr + "".join(out) + tail + "end DS.Src.Sym\n"
