#!/venv/bin/python
"""Translator for the last clause of C03: `isSpaceGroupLatPar` accepts every cell that the setting's
operations leave invariant.

    /venv/bin/python translate/latpar.py [outdir [report.json]]        (VERIF_REPO selects the tree)

What is read from the repository (trusted reading, cross-checked):
  * the seven crystal-system rules of `isSpaceGroupLatPar`, from the `ast` of
    src/diffpy/structure/symmetryutilities.py, as a disjunction of conjunctions of `==` comparisons
    between the six cell parameters and integer literals.  Every conjunction is normalised to the
    equivalence classes of its equalities (`alpha == gamma == 90` -> `alpha == 90, gamma == 90`).
    The reading is cross-checked against the *running* function on a grid of cells
    (`behavioural_crosscheck`); a rule that cannot be read, or disagrees, is emitted as the empty
    (always false) rule, listed under "rule_errors", and all settings of that system are uncertified.
  * the settings and their operations, exactly as translate/tables.py names and orders them.

What is only a certificate (untrusted search, re-checked by the Lean kernel with `checkLatCert`):
  * per setting: which alternative of its system's rule follows from invariance of the metric
    tensor under the setting's rotation parts, and for every linear condition of that alternative
    (`Atom.forms` in lean/DS/Model/LatRule.lean) an explicit rational combination of entries of
    `R^T G R - G`.

A setting for which no alternative of the source's rule follows from invariance gets NO theorem and is
listed in the report under "uncertified" with the reason; the translator never fails because of it.
"""
import ast
import json
import os
import sys
import types
from fractions import Fraction
from math import gcd

HERE = os.path.dirname(os.path.abspath(__file__))
sys.path.insert(0, HERE)
import tables  # noqa: E402  (shares VERIF_REPO handling, naming and integer conversion of operations)

REPO = tables.REPO
SRC = os.path.join(REPO, "src", "diffpy", "structure", "symmetryutilities.py")
CHUNK = 16

LENS = ["a", "b", "c"]
ANGS = ["alpha", "beta", "gamma"]
SYSTEMS = ["TRICLINIC", "MONOCLINIC", "ORTHORHOMBIC", "TETRAGONAL", "TRIGONAL", "HEXAGONAL", "CUBIC"]
KIND = {"lenEq": 0, "angEq": 1, "angIs": 2}


# mirror of `DS.LatRule.ruleTable` (only used for the report; Lean compares `ruleSrc` with `ruleTable` itself)
_A, _B, _G = ("angIs", "alpha", 90), ("angIs", "beta", 90), ("angIs", "gamma", 90)
_AB, _BC = ("lenEq", "a", "b"), ("lenEq", "b", "c")
_HEX = [_AB, _A, _B, ("angIs", "gamma", 120)]
MODEL_RULES = {
    "TRICLINIC": [[]],
    "MONOCLINIC": [[_A, _B], [_A, _G], [_B, _G]],
    "ORTHORHOMBIC": [[_A, _B, _G]],
    "TETRAGONAL": [[_AB, _A, _B, _G]],
    "TRIGONAL": [[_AB, _BC, ("angEq", "alpha", "beta"), ("angEq", "beta", "gamma")], _HEX],
    "HEXAGONAL": [_HEX],
    "CUBIC": [[_AB, _BC, _A, _B, _G]],
}
# generic cells by shape and the strict order of the systems (as harness/c03.py and DS.Props.C03b.shapes/lower)
SHAPES = [
    ("TRICLINIC", (5.1, 6.2, 7.3, 81.0, 97.0, 103.0)),
    ("MONOCLINIC", (5.1, 6.2, 7.3, 90.0, 97.0, 90.0)),
    ("MONOCLINIC", (5.1, 6.2, 7.3, 90.0, 90.0, 103.0)),
    ("MONOCLINIC", (5.1, 6.2, 7.3, 81.0, 90.0, 90.0)),
    ("ORTHORHOMBIC", (5.1, 6.2, 7.3, 90.0, 90.0, 90.0)),
    ("TETRAGONAL", (5.1, 5.1, 7.3, 90.0, 90.0, 90.0)),
    ("TRIGONAL", (5.1, 5.1, 5.1, 81.0, 81.0, 81.0)),
    ("HEXAGONAL", (5.1, 5.1, 7.3, 90.0, 90.0, 120.0)),
    ("CUBIC", (5.1, 5.1, 5.1, 90.0, 90.0, 90.0)),
]
LOWER = {
    "TRICLINIC": [],
    "MONOCLINIC": ["TRICLINIC"],
    "ORTHORHOMBIC": ["TRICLINIC", "MONOCLINIC"],
    "TETRAGONAL": ["TRICLINIC", "MONOCLINIC", "ORTHORHOMBIC"],
    "TRIGONAL": ["TRICLINIC", "MONOCLINIC", "ORTHORHOMBIC"],
    "HEXAGONAL": ["TRICLINIC", "MONOCLINIC", "ORTHORHOMBIC"],
    "CUBIC": ["TRICLINIC", "MONOCLINIC", "ORTHORHOMBIC", "TETRAGONAL", "TRIGONAL"],
}


class Unsupported(Exception):
    pass


# ---- reading the rule ---------------------------------------------------------------------

def _term(node):
    if isinstance(node, ast.Name):
        if node.id in LENS:
            return ("len", node.id)
        if node.id in ANGS:
            return ("ang", node.id)
        raise Unsupported("name %r is not a cell parameter" % node.id)
    if isinstance(node, ast.Constant) and isinstance(node.value, (int, float)) and not isinstance(node.value, bool):
        v = node.value
        if v != int(v) or v < 0:
            raise Unsupported("literal %r is not a natural number" % (v,))
        return ("num", int(v))
    raise Unsupported("operand %s" % ast.dump(node))


def _dnf(node, env):
    """-> list of conjunctions, a conjunction being a list of (term, term) equalities."""
    if isinstance(node, ast.Name) and node.id in env:
        return env[node.id]
    if isinstance(node, ast.Call) and isinstance(node.func, ast.Name) and not node.args and not node.keywords \
            and node.func.id in env.get("$defs", {}) and node.func.id not in env.get("$stack", ()):
        return _rule_of(env["$defs"][node.func.id], env["$defs"], env.get("$stack", ()) + (node.func.id,))
    if isinstance(node, ast.Constant) and node.value is True:
        return [[]]
    if isinstance(node, ast.Constant) and node.value is False:
        return []
    if isinstance(node, ast.BoolOp) and isinstance(node.op, ast.Or):
        out = []
        for v in node.values:
            out += _dnf(v, env)
        return out
    if isinstance(node, ast.BoolOp) and isinstance(node.op, ast.And):
        out = [[]]
        for v in node.values:
            d = _dnf(v, env)
            out = [x + y for x in out for y in d]
        return out
    if isinstance(node, ast.Compare):
        if not all(isinstance(o, ast.Eq) for o in node.ops):
            raise Unsupported("comparison other than ==: %s" % ast.unparse(node))
        ts = [_term(node.left)] + [_term(c) for c in node.comparators]
        return [[(ts[i], ts[i + 1]) for i in range(len(ts) - 1)]]
    raise Unsupported("expression %s" % ast.unparse(node))


def _rule_of(f, defs, stack=()):
    """DNF of a local zero-argument function `def check_x(): [rv = expr;] return expr`."""
    if f.args.args or f.args.vararg or f.args.kwarg or f.args.kwonlyargs or f.decorator_list:
        raise Unsupported("%s takes arguments" % f.name)
    env, result = {"$defs": defs, "$stack": stack + (f.name,)}, None
    stmts = [s for s in f.body if not (isinstance(s, ast.Expr) and isinstance(s.value, ast.Constant))]
    for i, s in enumerate(stmts):
        if isinstance(s, ast.Assign) and len(s.targets) == 1 and isinstance(s.targets[0], ast.Name):
            env[s.targets[0].id] = _dnf(s.value, env)
        elif isinstance(s, ast.Return) and s.value is not None and i == len(stmts) - 1:
            result = _dnf(s.value, env)
        else:
            raise Unsupported("statement %s" % ast.unparse(s).split("\n")[0])
    if result is None:
        raise Unsupported("%s has no final return" % f.name)
    return result


def _key(atom):
    k = atom[0]
    if k == "lenEq":
        return (0, LENS.index(atom[1]), LENS.index(atom[2]))
    if k == "angEq":
        return (1, ANGS.index(atom[1]), ANGS.index(atom[2]))
    return (2, ANGS.index(atom[1]), atom[2])


def normalise(conj):
    """Equivalence classes of the equalities -> sorted atoms; None when unsatisfiable."""
    parent = {}

    def find(x):
        parent.setdefault(x, x)
        while parent[x] != x:
            parent[x] = parent[parent[x]]
            x = parent[x]
        return x

    for s, t in conj:
        rs, rt = find(s), find(t)
        if rs != rt:
            parent[rs] = rt
    classes = {}
    for x in list(parent):
        classes.setdefault(find(x), []).append(x)
    atoms = set()
    for members in classes.values():
        nums = sorted({m[1] for m in members if m[0] == "num"})
        lens = sorted({m[1] for m in members if m[0] == "len"}, key=LENS.index)
        angs = sorted({m[1] for m in members if m[0] == "ang"}, key=ANGS.index)
        if lens and angs:
            raise Unsupported("a length is compared with an angle")
        if lens and nums:
            raise Unsupported("a length is compared with a literal")
        if len(nums) > 1:
            return None
        if nums:
            for x in angs:
                atoms.add(("angIs", x, nums[0]))
        else:
            for i in range(len(lens) - 1):
                atoms.add(("lenEq", lens[i], lens[i + 1]))
            for i in range(len(angs) - 1):
                atoms.add(("angEq", angs[i], angs[i + 1]))
    return sorted(atoms, key=_key)


def read_rules(path=SRC):
    """-> (rules, errors): rules[system] = sorted list of normalised conjunctions."""
    rules, errors = {}, {}
    try:
        tree = ast.parse(open(path, encoding="utf-8").read())
        fn = [n for n in tree.body if isinstance(n, ast.FunctionDef) and n.name == "isSpaceGroupLatPar"]
        if len(fn) != 1:
            raise Unsupported("isSpaceGroupLatPar is not defined exactly once at module level")
        fn = fn[0]
        args = [a.arg for a in fn.args.args]
        if args != ["spacegroup"] + LENS + ANGS or fn.args.vararg or fn.args.kwarg or fn.args.kwonlyargs:
            raise Unsupported("unexpected signature %r" % (args,))
        body = [s for s in fn.body if not (isinstance(s, ast.Expr) and isinstance(s.value, ast.Constant))]
        defs, table = {}, None
        for s in body[:-2]:
            if isinstance(s, ast.FunctionDef):
                defs[s.name] = s
            elif isinstance(s, ast.Assign) and len(s.targets) == 1 and isinstance(s.targets[0], ast.Name) \
                    and s.targets[0].id == "crystal_system_rules" and isinstance(s.value, ast.Dict):
                table = s.value
            else:
                raise Unsupported("unexpected statement: %s" % ast.unparse(s).split("\n")[0])
        tail = "\n".join(ast.unparse(s) for s in body[-2:])
        if tail != "rule = crystal_system_rules[spacegroup.crystal_system]\nreturn rule()":
            raise Unsupported("unexpected dispatch: %r" % tail)
        if table is None:
            raise Unsupported("crystal_system_rules not found")
        for n in ast.walk(fn):  # the parameters are never rebound
            if isinstance(n, ast.Name) and isinstance(n.ctx, (ast.Store, ast.Del)) and n.id in LENS + ANGS + ["spacegroup"]:
                raise Unsupported("parameter %s is rebound" % n.id)
            if isinstance(n, (ast.Nonlocal, ast.Global)):
                raise Unsupported("nonlocal/global statement")
        disp = {}
        for k, v in zip(table.keys, table.values):
            if not (isinstance(k, ast.Constant) and isinstance(k.value, str) and isinstance(v, ast.Name)):
                raise Unsupported("unexpected entry of crystal_system_rules")
            disp[k.value] = v.id
    except (Unsupported, OSError, SyntaxError) as e:
        for s in SYSTEMS:
            errors[s] = "cannot read isSpaceGroupLatPar: %s" % e
        return rules, errors, {}
    text = {}
    for sysname in SYSTEMS:
        try:
            if sysname not in disp:
                raise Unsupported("no rule registered for %s" % sysname)
            f = defs.get(disp[sysname])
            if f is None:
                raise Unsupported("%s is not a local function" % disp[sysname])
            result = _rule_of(f, defs)
            text[sysname] = ast.unparse(f)
            conjs = []
            for cj in result:
                n = normalise(cj)
                if n is not None and n not in conjs:
                    conjs.append(n)
            rules[sysname] = sorted(conjs, key=lambda c: [_key(a) for a in c])
        except Unsupported as e:
            errors[sysname] = "rule %s: %s" % (sysname, e)
    return rules, errors, text


def eval_dnf(dnf, cell):
    v = dict(zip(LENS + ANGS, cell))

    def atom(a):
        if a[0] == "angIs":
            return v[a[1]] == a[2]
        return v[a[1]] == v[a[2]]

    return any(all(atom(a) for a in cj) for cj in dnf)


def behavioural_crosscheck(rules):
    """Compare the reading with the running function on a grid; -> {system: first disagreement}."""
    try:
        from diffpy.structure.symmetryutilities import isSpaceGroupLatPar
    except Exception as e:  # pragma: no cover
        return {s: "cannot import isSpaceGroupLatPar: %r" % (e,) for s in rules}
    lit = {a[2] for d in rules.values() for cj in d for a in cj if a[0] == "angIs"}
    angs = sorted({60.0, 81.0, 90.0, 97.0, 120.0} | {float(x) for x in lit})
    lens = [5.1, 6.2, 7.3]
    bad = {}
    for s, dnf in rules.items():
        sg = types.SimpleNamespace(crystal_system=s)
        for a in lens:
            for b in lens:
                for c in lens:
                    for al in angs:
                        for be in angs:
                            for ga in angs:
                                cell = (a, b, c, al, be, ga)
                                try:
                                    got = bool(isSpaceGroupLatPar(sg, *cell))
                                except Exception as e:
                                    got = "raised %r" % (e,)
                                if got != eval_dnf(dnf, cell) and s not in bad:
                                    bad[s] = "reading of rule %s disagrees with the running function on %r: function %r" % (s, cell, got)
    return bad


# ---- linear forms (mirror of lean/DS/Model/LatRule.lean) ---------------------------------------

def lf_diag(x):
    f = [0] * 6
    f[LENS.index(x)] = 1
    return f


def lf_off(x):
    f = [0] * 6
    f[{"gamma": 3, "beta": 4, "alpha": 5}[x]] = 1
    return f


OPP = {"alpha": "a", "beta": "b", "gamma": "c"}
AX1 = {"alpha": "b", "beta": "a", "gamma": "a"}
AX2 = {"alpha": "c", "beta": "c", "gamma": "b"}


def sub(f, g):
    return [x - y for x, y in zip(f, g)]


def add(f, g):
    return [x + y for x, y in zip(f, g)]


def smul(k, f):
    return [k * x for x in f]


def atom_supported(a):
    return a[0] != "angIs" or a[2] in (90, 120)


def atom_forms(a):
    if a[0] == "lenEq":
        return [sub(lf_diag(a[1]), lf_diag(a[2]))]
    if a[0] == "angEq":
        return [sub(lf_off(a[1]), lf_off(a[2])), sub(lf_diag(OPP[a[2]]), lf_diag(OPP[a[1]]))]
    if a[2] == 90:
        return [lf_off(a[1])]
    return [add(smul(2, lf_off(a[1])), lf_diag(AX1[a[1]])), sub(lf_diag(AX1[a[1]]), lf_diag(AX2[a[1]]))]


def bil(u, v):
    return [u[0] * v[0], u[1] * v[1], u[2] * v[2],
            u[0] * v[1] + u[1] * v[0], u[0] * v[2] + u[2] * v[0], u[1] * v[2] + u[2] * v[1]]


def entry_form(op, e):
    col = [(op[0], op[3], op[6]), (op[1], op[4], op[7]), (op[2], op[5], op[8])]
    i, j = [(0, 0), (1, 1), (2, 2), (0, 1), (0, 2), (1, 2)][e]
    unit = [0] * 6
    unit[e] = 1
    return sub(bil(col[i], col[j]), unit)


def atom_text(a):
    return "%s == %s" % (a[1], a[2])


FORM_NAMES = ["g11", "g22", "g33", "g12", "g13", "g23"]


def form_text(f):
    return " + ".join("%s*%s" % (c, n) for c, n in zip(f, FORM_NAMES) if c) + " = 0"


class Span:
    """Row space of the invariance forms, every basis vector with its expression in original rows."""

    def __init__(self, ops):
        self.basis = []  # (pivot, vector, combo dict)
        seen = set()
        for idx, op in enumerate(ops):
            r = tuple(op[:9])
            neg = tuple(-x for x in r)
            if r in seen or neg in seen:
                continue
            seen.add(r)
            for e in range(6):
                if len(self.basis) == 6:
                    return
                v = [Fraction(x) for x in entry_form(op, e)]
                v, cb = self._reduce(v, {(idx, e): Fraction(1)})
                piv = next((k for k, x in enumerate(v) if x != 0), None)
                if piv is not None:
                    self.basis.append((piv, v, cb))

    def _reduce(self, v, cb):
        v = list(v)
        cb = dict(cb)
        for piv, b, bcb in self.basis:
            if v[piv] != 0:
                f = v[piv] / b[piv]
                v = [x - f * y for x, y in zip(v, b)]
                for k, c in bcb.items():
                    cb[k] = cb.get(k, Fraction(0)) - f * c
        return v, cb

    def express(self, target):
        """-> (den, rows) with den*target = sum coef*entry_form, or None."""
        v, cb = self._reduce([Fraction(x) for x in target], {})
        if any(x != 0 for x in v):
            return None
        cb = {k: -c for k, c in cb.items() if c != 0}
        den = 1
        for c in cb.values():
            den = den * c.denominator // gcd(den, c.denominator)
        rows = [(k[0], k[1], int(c * den)) for k, c in sorted(cb.items())]
        return den, rows


def check_combo(ops, target, den, rows):
    acc = [0] * 6
    for i, e, k in rows:
        acc = add(acc, smul(k, entry_form(ops[i], e)))
    return den != 0 and acc == smul(den, target)


def counter_cell(ops):
    """A cell whose metric is invariant under all operations: group average of a generic metric (floats)."""
    import math

    G0 = [[Fraction(25), Fraction(-3), Fraction(-5)], [Fraction(-3), Fraction(36), Fraction(-7)], [Fraction(-5), Fraction(-7), Fraction(49)]]
    rots = sorted({tuple(op[:9]) for op in ops})
    acc = [[Fraction(0)] * 3 for _ in range(3)]
    for r in rots:
        R = [r[0:3], r[3:6], r[6:9]]
        for i in range(3):
            for j in range(3):
                acc[i][j] += sum(R[k][i] * G0[k][l] * R[l][j] for k in range(3) for l in range(3))
    G = [[x / len(rots) for x in row] for row in acc]

    def ang(gij, gii, gjj):
        if gij == 0:
            return 90.0
        if gii == gjj and gij == -gii / 2:
            return 120.0
        return math.degrees(math.acos(float(gij) / math.sqrt(float(gii) * float(gjj))))

    a, b, c = (math.sqrt(float(G[i][i])) for i in range(3))
    return [a, b, c, ang(G[1][2], G[1][1], G[2][2]), ang(G[0][2], G[0][0], G[2][2]), ang(G[0][1], G[0][0], G[1][1])]


def certify(ops, dnf):
    """-> (cert, None) or (None, reason)."""
    span = Span(ops)
    why = []
    for alt, cj in enumerate(dnf):
        unsup = [a for a in cj if not atom_supported(a)]
        if unsup:
            why.append("alternative [%s]: no linear metric condition is known for %s" % (
                ", ".join(atom_text(a) for a in cj), atom_text(unsup[0])))
            continue
        combos, failed = [], None
        for a in cj:
            for f in atom_forms(a):
                r = span.express(f)
                if r is None:
                    failed = (a, f)
                    break
                if not check_combo(ops, f, r[0], r[1]):  # pragma: no cover
                    return None, "internal error: combination for %s does not check" % form_text(f)
                combos.append(r)
            if failed:
                break
        if failed is None:
            return {"alt": alt, "combos": combos}, None
        why.append("alternative [%s]: %s needs %s, which is not implied by invariance under the setting's operations" % (
            ", ".join(atom_text(a) for a in cj), atom_text(failed[0]), form_text(failed[1])))
    if not dnf:
        why.append("the rule has no alternative (always false)")
    return None, "; ".join(why)


# ---- Lean emission ------------------------------------------------------------------------------

def lean_atom(a):
    if a[0] == "angIs":
        return ".angIs .%s %d" % (a[1], a[2])
    return ".%s .%s .%s" % (a[0], a[1], a[2])


def lean_dnf(d):
    return "[" + ", ".join("[" + ", ".join(lean_atom(a) for a in cj) + "]" for cj in d) + "]"


def lean_cert(c):
    return "{ alt := %d, combos := [%s] }" % (c["alt"], ", ".join(
        "⟨%d, [%s]⟩" % (den, ", ".join("(%d, %d, %d)" % r for r in rows)) for den, rows in c["combos"]))


COS2 = {90: 0, 120: -1}  # twice the cosine


def witness_cell(cj, ops):
    """An integer cell (lengths, degrees) that satisfies the chosen alternative, has an integer metric
    tensor, and is invariant under all operations; -> (cell, metric) or None."""
    for cell in [(5, 6, 7, 90, 90, 90), (5, 5, 7, 90, 90, 90), (6, 6, 7, 90, 90, 120), (5, 5, 5, 90, 90, 90)]:
        a, b, c, al, be, ga = cell
        G = [a * a, b * b, c * c, a * b * COS2[ga] // 2, a * c * COS2[be] // 2, b * c * COS2[al] // 2]
        if not eval_dnf([cj], cell) or any((x * y * COS2[t]) % 2 for x, y, t in ((a, b, ga), (a, c, be), (b, c, al))):
            continue
        if all(sum(x * y for x, y in zip(entry_form(op, e), G)) == 0 for op in ops for e in range(6)):
            return cell, G
    return None


def main(outdir, report_path):
    sgs = tables.load_tables()
    rules, errors, text = read_rules()
    for s, why in behavioural_crosscheck(rules).items():
        errors[s] = why
        del rules[s]
    shard_of = {}
    try:
        with open(os.path.join(outdir, "tables_report.json")) as f:
            shard_of = {s["name"]: s["shard"] for s in json.load(f)["settings"]}
    except (OSError, ValueError, KeyError):
        pass
    report = {"rules": {s: [[atom_text(a) for a in cj] for cj in d] for s, d in rules.items()},
              "rule_source": text, "rule_errors": errors, "uncertified": [], "settings": [], "untranslatable": []}
    # rules that differ from the Lean model `ruleTable` (then `DS.Props.C03bFull.all_agree` cannot hold) and
    # cells of a lower system that the source's rule accepts (the "rejects" half of the clause)
    report["rule_differs_from_model"] = {
        s: {"source": report["rules"].get(s), "model": [[atom_text(a) for a in cj] for cj in MODEL_RULES[s]]}
        for s in SYSTEMS if rules.get(s) != MODEL_RULES[s]}
    report["accepts_lower"] = [
        {"crystal_system": s, "shape": sh, "cell": cell}
        for s in SYSTEMS if s in rules for sh, cell in SHAPES if sh in LOWER[s] and eval_dnf(rules[s], cell)]
    # the settings, named and ordered exactly as translate/tables.py does
    items, seen = [], set()
    for pos, sg in enumerate(sgs.SpaceGroupList):
        nm = "sg%d" % sg.number if isinstance(sg.number, int) else "sgx%d" % pos
        if nm in seen:
            nm = "%s_dup%d" % (nm, pos)
        seen.add(nm)
        try:
            ops = [tables.op_to_ints(o) for o in sg.symop_list]
            if sg.crystal_system not in tables.SYS:
                raise ValueError("unknown crystal_system %r" % (sg.crystal_system,))
            for k in ("number", "num_sym_equiv", "num_primitive_sym_equiv"):
                v = getattr(sg, k)
                if not isinstance(v, int) or v < 0:
                    raise ValueError("%s=%r is not a natural number" % (k, v))
        except ValueError as e:
            report["untranslatable"].append({"pos": pos, "number": sg.number, "why": str(e)})
            continue
        if shard_of and nm not in shard_of:
            raise SystemExit("latpar: setting %s is not in %s/tables_report.json; run translate/tables.py first" % (nm, outdir))
        items.append((nm, pos, sg, ops))
    nshards = tables.NSHARDS
    per_shard = [[] for _ in range(nshards)]
    certified = []
    for nm, pos, sg, ops in items:
        s = sg.crystal_system
        if s in errors:
            cert, why = None, errors[s]
        else:
            cert, why = certify(ops, rules[s])
        if cert is None:
            report["uncertified"].append({"name": nm, "number": sg.number, "pos": pos, "short_name": sg.short_name,
                                          "crystal_system": s, "reason": why,
                                          "invariant_cell_to_try": counter_cell(ops)})
            continue
        k = shard_of.get(nm, pos % nshards)
        per_shard[k].append((nm, cert))
        certified.append((nm, pos, sg, cert))
        report["settings"].append({"name": nm, "number": sg.number, "pos": pos, "alt": cert["alt"],
                                   "alternative": [atom_text(a) for a in rules[s][cert["alt"]]],
                                   "nforms": len(cert["combos"]), "nrows": sum(len(r) for _, r in cert["combos"])})
    changed = 0
    hdr = "/-! GENERATED by translate/latpar.py from the repository under test. Do not edit. -/"
    # the rule as read from the source
    L = ["import DS.Model.LatRule", hdr, "namespace DS.Gen", "open DS DS.LatRule", "",
         "/-- the rules of `isSpaceGroupLatPar` as read from the source (normal form); a rule that could not",
         "be read is the empty disjunction and is listed in latpar_report.json under \"rule_errors\" -/",
         "def ruleSrc : CSys → DNF"]
    for s in SYSTEMS:
        L.append("  | %s => %s" % (tables.SYS[s], lean_dnf(rules.get(s, []))))
    L += ["", "/-- number of rules that could not be read or disagree with the running function -/",
          "def nRuleErrors : Nat := %d" % len(errors), "end DS.Gen"]
    changed += tables.write_if_changed(os.path.join(outdir, "LatSrc.lean"), "\n".join(L) + "\n")
    # per-setting certificates and kernel obligations
    for k in range(nshards):
        imp = "import DS.Gen.D%d" % k if shard_of else "import DS.Gen.DIndex"
        L = [imp, "import DS.Gen.LatSrc", hdr, "namespace DS.Gen", "open DS DS.LatRule", ""]
        for nm, cert in per_shard[k]:
            L.append("def %s_lc : LatCert := %s" % (nm, lean_cert(cert)))
            L.append("theorem %s_lat : checkLatCert ruleSrc %s %s_lc = true := by decide +kernel" % (nm, nm, nm))
        L.append("end DS.Gen")
        changed += tables.write_if_changed(os.path.join(outdir, "LC%d.lean" % k), "\n".join(L) + "\n")
    # index, in SpaceGroupList order
    L = ["import DS.Gen.DIndex"] + ["import DS.Gen.LC%d" % k for k in range(nshards)]
    L += [hdr, "namespace DS.Gen", "open DS DS.LatRule", "",
          "theorem lat_forall_append {α : Type} {P : α → Prop} {l₁ l₂ : List α}",
          "    (h₁ : ∀ x ∈ l₁, P x) (h₂ : ∀ x ∈ l₂, P x) : ∀ x ∈ l₁ ++ l₂, P x :=",
          "  fun x hx => (List.mem_append.1 hx).elim (h₁ x) (h₂ x)", ""]
    chunks = [certified[i:i + CHUNK] for i in range(0, len(certified), CHUNK)]
    for j, ch in enumerate(chunks):
        L.append("def latChunk%d : List (SG × LatCert) := [%s]" % (j, ", ".join("(%s, %s_lc)" % (it[0], it[0]) for it in ch)))
        L.append("theorem latChunk%d_ok : ∀ p ∈ latChunk%d, checkLatCert ruleSrc p.1 p.2 = true := by" % (j, j))
        L.append("  intro p hp")
        L.append("  simp only [latChunk%d, List.mem_cons, List.mem_nil_iff, or_false] at hp" % j)
        L.append("  rcases hp with %s" % " | ".join(["rfl"] * len(ch)))
        for it in ch:
            L.append("  · exact %s_lat" % it[0])

    def nest(names):
        return names[0] if len(names) == 1 else "%s ++ (%s)" % (names[0], nest(names[1:]))

    def nestproof(names):
        return "%s_ok" % names[0] if len(names) == 1 else "lat_forall_append %s_ok (%s)" % (names[0], nestproof(names[1:]))

    cn = ["latChunk%d" % j for j in range(len(chunks))]
    nunc = len(report["uncertified"])
    L += ["", "/-- every setting with a kernel-accepted certificate, in `SpaceGroupList` order -/",
          "def allLC : List (SG × LatCert) := " + (nest(cn) if cn else "[]"),
          "theorem allLC_ok : ∀ p ∈ allLC, checkLatCert ruleSrc p.1 p.2 = true :=",
          "  " + (nestproof(cn) if cn else "fun _ h => absurd h (List.not_mem_nil)"),
          "/-- settings of `allSG` for which no alternative of the source's rule follows from invariance",
          "(0 on a healthy tree; they are listed with the reason in latpar_report.json) -/",
          "def nUncertified : Nat := %d" % nunc,
          "def uncertifiedNumbers : List Nat := [%s]" % ", ".join(str(u["number"]) for u in report["uncertified"]),
          "theorem allLC_length : allLC.length + nUncertified = allSG.length := by decide +kernel",
          "set_option maxRecDepth 8192 in",
          "/-- when nothing is uncertified the certified settings are exactly the tabulated ones -/",
          "theorem allLC_cover : nUncertified = 0 → allLC.map Prod.fst = allSG :=",
          "  " + ("fun _ => rfl" if nunc == 0 else "fun h => absurd h (by decide)")]
    # non-vacuity witness: a small certified setting, preferably tetragonal, with an integer cell of its shape
    pref = ["TETRAGONAL", "ORTHORHOMBIC", "HEXAGONAL", "MONOCLINIC", "TRIGONAL", "CUBIC", "TRICLINIC"]
    force = os.environ.get("LATPAR_WITNESS")
    cands = []
    for j, ch in enumerate(chunks):
        for nm, pos, sg, cert in ch:
            s = sg.crystal_system
            if not 2 <= len(sg.symop_list) <= 12 or (force is not None and force != s):
                continue
            wc = witness_cell(rules[s][cert["alt"]], [tables.op_to_ints(o) for o in sg.symop_list])
            if wc is not None:
                cands.append((pref.index(s), abs(len(sg.symop_list) - 4), pos, j, nm, wc))
    cands.sort()
    if cands:
        _, _, _, j, nm, (cell, G) = cands[0]
        inner = "(by unfold latChunk%d; simp)" % j
        prf = "List.mem_append_left _ " + inner if j < len(chunks) - 1 else inner
        for _ in range(j):
            prf = "List.mem_append_right _ (%s)" % prf
        L += ["/-- non-vacuity witness: a concrete member of `allLC` and an integer cell of its shape -/",
              "def latWitness : SG × LatCert := (%s, %s_lc)" % (nm, nm),
              "theorem latWitness_mem : latWitness ∈ allLC := by",
              "  unfold allLC latWitness",
              "  exact " + prf,
              "def latWitnessCell : CellP Nat := ⟨%s⟩" % ", ".join(map(str, cell)),
              "/-- its metric tensor (`g11 g22 g33 g12 g13 g23`; the angles are 90 or 120 degrees) -/",
              "def latWitnessMetric : Metric Int := ⟨%s⟩" % ", ".join(map(str, G)),
              "theorem latWitness_inv : checkInvInt latWitness.1.ops latWitnessMetric = true := by decide +kernel"]
        report["witness"] = {"name": nm, "cell": cell}
    L.append("end DS.Gen")
    changed += tables.write_if_changed(os.path.join(outdir, "LatIndex.lean"), "\n".join(L) + "\n")
    report["certified"] = len(certified)
    report["nlisted"] = len(sgs.SpaceGroupList)
    # kernel obligations emitted: one per certified setting + allLC_length + latWitness_inv
    report["obligations"] = len(certified) + 1 + (1 if cands else 0)
    report["changed_files"] = changed
    with open(report_path, "w") as f:
        json.dump(report, f, indent=1)
    return report


if __name__ == "__main__":
    outdir = sys.argv[1] if len(sys.argv) > 1 else os.path.join(HERE, "..", "lean", "DS", "Gen")
    rp = sys.argv[2] if len(sys.argv) > 2 else os.path.join(outdir, "latpar_report.json")
    os.makedirs(outdir, exist_ok=True)
    r = main(outdir, rp)
    print("latpar: %d listed, %d certified, %d uncertified, %d rule errors, %d files changed" % (
        r["nlisted"], r["certified"], len(r["uncertified"]), len(r["rule_errors"]), r["changed_files"]))
    for u in r["uncertified"][:5]:
        print("  uncertified %s (#%s %s): %s" % (u["name"], u["number"], u["crystal_system"], u["reason"][:200]))
