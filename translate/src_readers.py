"""Source translator plug-in (C13 reader tie): `P_xyz.parseLines` (parsers/p_xyz.py) and `P_rawxyz.parseLines`
(parsers/p_rawxyz.py)  ->  lean/DS/Gen/SrcReaders.lean  (namespace DS.Src.Readers).

The method bodies are read with `ast` from the tree under examination (`pysrc.REPO`, read at call time) and emitted,
statement by statement, as Lean `do` blocks in the vocabulary of DS/Model/Parsers.lean (monad `M = Except Kind`,
`tryExcept`, `idx`, `pyInt`, `floats`, the abstract document `XyzDoc` = one token list per text line).  The hand-written
theorems of DS/Props/SrcReaders.lean state that the control-flow models the C13 theorems speak about (`Parsers.xyzRun`,
`Parsers.rawxyzRun` under the generated handler configuration) ARE these transliterations.

How Python is rendered (the translator's conventions = trusted base)

  abstract document   `lines` (parameter) is the list of text lines; the abstract document keeps `line.split()` of every
                      line (harness/c13_abs.py `alpha_xyz`).  `lines` and `[line.split() for line in lines]` are both the
                      list `d.lines : List WLine` (same length, same positions).  `lines[i]` is `idx d.lines i`
                      (`IndexError`), its value an opaque string; `.strip()` of it cannot raise.
  tokens              a token `w` (element of a `split()` result) is a non-empty string: `w[0]`, `w[a:b]`, `.upper()`,
                      `.lower()`, `+` between strings cannot raise.  `int(w)` = `pyInt w` (`ValueError`), `float(w)` =
                      `pyFloat w`, `[float(f) for f in X]` = `floats X`, `str(int(w)) == w` = `pyInt w` followed by the
                      field `w.canon`, `w == "#"` = `w.isHash`, `isfloat(w)` = `w.flt` (the body of `utils.isfloat` is
                      compared with the expected text: `float(s)` under `except ValueError`).
  ints                every int variable of the subset starts from `0` / `len(..)` / another such variable and is only
                      increased by literals: it is a `Nat`.  `V - 1` and `V -= 1` are accepted only where `V > E` (E a
                      `Nat`) has just been tested (`and`-right operand, body of `while V > E and …`) so that the `Nat`
                      subtraction is exact.  `int(w)` results are `Int`.
  sequences           `X[i]` (i a `Nat`) = `idx X i` (`IndexError`); slices `X[a:b]`, `X[a:]`, `X[:b]` with `Nat` bounds =
                      `(X.take b).drop a`, `X.drop a`, `X.take b` (never raise); `len(X)` = `X.length`; `X == []` =
                      `X.isEmpty`; a list of booleans compared with a literal = list equality.
  Structure           `stru = Structure()` = atom counter `n_stru := 0`; `stru.addNewAtom(<string>, xyz=<list of floats>)`
                      = `n_stru := n_stru + 1` and cannot raise; `len(stru)` = `n_stru`; `stru.<attr> = e` evaluates `e`
                      only; `return stru` = `return ()`.
  non-raising forms   (dropped after their sub-expressions have been emitted)  assignment of a string / float-list value to
                      a local; `"literal" % args` when the number of conversion specifiers equals the number of arguments
                      and every `%d` argument is an int of the subset; string `+`; `L.append(<float literal>)` on a list of
                      floats; `len(L)` of such a list; `sys.exc_info()`; `StructureFormatError(<string>)`;
                      `e.with_traceback(tb)`.
  control flow        `if/elif/else`, `for x in X` (with `break` / `continue`), `try … except (A, B): <build message>; raise
                      StructureFormatError` (handler classes READ at that place and mapped with translate/handlers.py
                      `kinds_of`; the handler body must consist of the non-raising forms above and end in the raise),
                      `raise StructureFormatError(..)` / `NotImplementedError(..)`, `return`, and
                      `while V > E and C: V -= 1` (= `whileDec E C (V - E) V`; DS.Props.SrcReaders.whileDec_unfold proves
                      that with this fuel the recursion satisfies the loop equation).  Every loop and every `try` body
                      becomes its own definition `<fmt>_parseLines_<for|try><k>` whose parameters are the variables it
                      reads and whose result is the tuple of variables it assigns that are used afterwards; the kinds of
                      a handler are the definition `<fmt>_parseLines_try<k>_handler` (the tie proofs only use that it is,
                      by `rfl`, the tuple of the generated configuration `Gen.cfg_<fmt>`; a changed tuple is C13's business:
                      `total_<fmt>` and the witness documents).  A `try` inside a loop, a `return` inside a loop or `try`
                      body, a loop variable that is read after its loop are rejected.
  `A and B`, `A or B` short-circuit: when `B` contains a primitive that can raise it is evaluated only under `A` / `¬A`.
  names               a local that may be unbound where it is read, a rebinding of `len int float str isfloat Structure
                      StructureFormatError sys`, keyword / star arguments (except `xyz=` of `addNewAtom`) are rejected.

Anything else yields `def <fmt>_parseLines_untranslatable : String`, so the tie theorem cannot elaborate.
"""
import ast
import os
import re

GROUP = "readers"
OUTFILE = "SrcReaders.lean"

# `pysrc` is injected by translate/pysrc.py (plugins()); REPO is read at call time.

HEADER = ("-- GENERATED by translate/src_readers.py from src/diffpy/structure/parsers/{p_xyz,p_rawxyz}.py — do not edit\n"
          "import DS.Model.Parsers\nnamespace DS.Src.Readers\nset_option linter.unusedVariables false\nopen DS.Parsers\n\n")

PRELUDE = '''/-- `while v > lo and c(v): v -= 1`, started with fuel `v - lo` (every round decreases `v - lo` by one, and the
loop test fails when it is zero: see `DS.Props.SrcReaders.whileDec_unfold`) -/
def whileDec (lo : Nat) (c : Nat → M Bool) : Nat → Nat → M Nat
  | 0, v => pure v
  | n + 1, v => if v > lo then do
      if (← c v) then whileDec lo c n (v - 1) else pure v
    else pure v

'''

LEAN_TYPE = {"N": "Nat", "I": "Int", "B": "Bool", "T": "Tok", "WL": "WLine", "LL": "List WLine", "LB": "List Bool",
             "ON": "Option Nat", "STRU": "Nat", "LINES": "List WLine"}
DEFAULT = {"N": "0", "I": "0", "B": "false", "ON": "none", "LB": "[]", "WL": "[]", "LL": "[]", "T": "{}", "STRU": "0"}
OPAQUE = ("S", "OL", "LINE", "F", "NONE", "EXC")     # values without a Lean term: strings, float lists, a raw line, a float
ISFLOAT_BODY = "try:\n    float(s)\n    return True\nexcept ValueError:\n    pass\nreturn False"
PROTECTED = ("len", "int", "float", "str", "isfloat", "Structure", "StructureFormatError", "sys", "NotImplementedError")


def U(node, why):
    try:
        src = ast.unparse(node)
    except Exception:  # noqa: BLE001
        src = str(node)
    raise pysrc.Untranslatable("%s: `%s`" % (why, " ".join(src.split())[:120]))  # noqa: F821


class Var:
    def __init__(self, lean, typ):
        self.lean = lean      # Lean identifier (None for opaque values)
        self.typ = typ


def strip_doc(body):
    return [b for b in body if not (isinstance(b, ast.Expr) and isinstance(b.value, ast.Constant) and isinstance(b.value.value, str))]


def is_name(n, name=None):
    return isinstance(n, ast.Name) and (name is None or n.id == name)


def nat_const(n):
    return isinstance(n, ast.Constant) and isinstance(n.value, int) and not isinstance(n.value, bool) and n.value >= 0


def prop_of_bool(term):
    return "%s = true" % term


class Fn:
    """translation of one `parseLines` into a main definition and auxiliary definitions (loops, try bodies)"""

    def __init__(self, prefix, handlers_mod):
        self.prefix = prefix
        self.hm = handlers_mod
        self.aux = []
        self.ntmp = 0
        self.nfor = 0
        self.ntry = 0
        self.guard_pos = set()       # python names known to be > some Nat (so `V - 1` is exact)
        self.later_loads = []        # stack of sets of names loaded after the statement being compiled

    # ---- small helpers -----------------------------------------------------------------------------------
    def tmp(self, p):
        self.ntmp += 1
        return "%s%d" % (p, self.ntmp)

    def snapshot(self):
        return (len(self.aux), self.ntmp, self.nfor, self.ntry, set(self.guard_pos))

    def restore(self, s):
        del self.aux[s[0]:]
        self.ntmp, self.nfor, self.ntry, self.guard_pos = s[1], s[2], s[3], set(s[4])

    def lookup(self, node, env):
        if node.id not in env:
            U(node, "name that may be unbound here (or is not a local of the subset)")
        return env[node.id]

    # ---- expressions: -> (binds, term|None, type) ----------------------------------------------------------
    def ex(self, e, env):
        if isinstance(e, ast.Constant):
            if nat_const(e):
                return [], str(e.value), "N"
            if isinstance(e.value, str):
                return [], None, "S"
            if e.value is None:
                return [], None, "NONE"
            if isinstance(e.value, float):
                return [], None, "F"
            U(e, "constant")
        if isinstance(e, ast.Name):
            v = self.lookup(e, env)
            return [], v.lean, v.typ
        if isinstance(e, ast.Subscript):
            return self.subscript(e, env)
        if isinstance(e, ast.BinOp):
            return self.binop(e, env)
        if isinstance(e, ast.Call):
            return self.call(e, env)
        if isinstance(e, ast.ListComp):
            return self.listcomp(e, env)
        if isinstance(e, ast.IfExp):
            cb, c = self.cond(e.test, env)
            ab, at, aty = self.ex(e.body, env)
            bb, bt, bty = self.ex(e.orelse, env)
            if aty not in OPAQUE or bty not in OPAQUE:
                U(e, "conditional expression with a non-string value")
            binds = list(cb)
            if ab or bb:
                binds.append("if %s then" % c)
                binds += ["  " + x for x in (ab or ["pure ()"])]
                if bb:
                    binds.append("else")
                    binds += ["  " + x for x in bb]
            return binds, None, "S"
        if isinstance(e, ast.BoolOp):
            return self.value_boolop(e, env)
        if isinstance(e, ast.Compare):
            b, c = self.cond(e, env)
            return b, "decide (%s)" % c, "B"
        if isinstance(e, ast.Tuple):
            U(e, "tuple value")
        U(e, "expression")

    def value_boolop(self, e, env):
        """`X is not None and SEQ[X] or ""`: the string of the optional column"""
        if isinstance(e.op, ast.Or) and len(e.values) == 2 and isinstance(e.values[0], ast.BoolOp) and isinstance(e.values[0].op, ast.And) \
                and len(e.values[0].values) == 2:
            a, b = e.values[0].values
            c = e.values[1]
            cb, ct, cty = self.ex(c, env)
            if cb or cty not in OPAQUE:
                U(e, "`or` operand")
            nm = self.is_not_none(a, env)
            if nm is not None:
                v = env[nm]
                i = self.tmp("j")
                env2 = dict(env)
                env2[nm] = Var(i, "N")
                bb, bt, bty = self.ex(b, env2)
                if bty not in ("T",) + OPAQUE:
                    U(e, "`and` operand")
                binds = ["match %s with" % v.lean, "| none => pure ()", "| some %s => do" % i]
                binds += ["  " + x for x in (bb or [])] + ["  pure ()"]
                return binds, None, "S"
        U(e, "boolean operator in a value position")

    def is_not_none(self, a, env):
        if isinstance(a, ast.Compare) and len(a.ops) == 1 and isinstance(a.ops[0], ast.IsNot) and is_name(a.left) \
                and isinstance(a.comparators[0], ast.Constant) and a.comparators[0].value is None \
                and a.left.id in env and env[a.left.id].typ == "ON":
            return a.left.id
        return None

    def subscript(self, e, env):
        bb, base, bt = self.ex(e.value, env)
        sl = e.slice
        if isinstance(sl, ast.Slice):
            if sl.step is not None:
                U(e, "slice step")
            lo = hi = None
            binds = list(bb)
            if sl.lower is not None:
                b1, lo, t1 = self.ex(sl.lower, env)
                if t1 != "N":
                    U(e, "slice bound that is not a non-negative int of the subset")
                binds += b1
            if sl.upper is not None:
                b2, hi, t2 = self.ex(sl.upper, env)
                if t2 != "N":
                    U(e, "slice bound that is not a non-negative int of the subset")
                binds += b2
            if bt in ("T", "S"):
                return binds, None, "S"
            if bt in ("WL", "LL", "LB"):
                t = base
                if hi is not None:
                    t = "(%s.take %s)" % (t, par(hi))
                if lo is not None:
                    t = "(%s.drop %s)" % (t, par(lo))
                return binds, t, bt
            U(e, "slice of a %s" % bt)
        ib, it, ity = self.ex(sl, env)
        if ity != "N":
            U(e, "index that is not a non-negative int of the subset")
        binds = bb + ib
        if bt == "T":
            if it != "0":
                U(e, "character of a token other than the first")
            return binds, None, "S"
        if bt in ("LL", "WL", "LINES"):
            t = self.tmp("t")
            binds.append("let %s ← idx %s %s" % (t, base, par(it)))
            return binds, (t if bt != "LINES" else None), {"LL": "WL", "WL": "T", "LINES": "LINE"}[bt]
        U(e, "index into a %s" % bt)

    def binop(self, e, env):
        if isinstance(e.op, ast.Mod):
            return self.format(e, env)
        lb, l, lt = self.ex(e.left, env)
        rb, r, rt = self.ex(e.right, env)
        if isinstance(e.op, ast.Add):
            if lt == "N" and rt == "N":
                return lb + rb, "%s + %s" % (par(l), par(r)), "N"
            if lt in ("S",) and rt in ("S",):
                return lb + rb, None, "S"
        if isinstance(e.op, ast.Sub):
            if lt == "N" and is_name(e.left) and e.left.id in self.guard_pos and nat_const(e.right) and e.right.value == 1:
                return lb + rb, "%s - 1" % par(l), "N"
            U(e, "subtraction that is not `V - 1` under a test `V > E`")
        U(e, "operator on %s, %s" % (lt, rt))

    def format(self, e, env):
        if not (isinstance(e.left, ast.Constant) and isinstance(e.left.value, str)):
            # ("a" + "b") % x
            lb, l, lt = self.ex(e.left, env)
            if lt != "S" or lb:
                U(e, "format string")
            fmt = None
            parts = [n.value for n in ast.walk(e.left) if isinstance(n, ast.Constant) and isinstance(n.value, str)]
            if not all(isinstance(n, (ast.Constant, ast.BinOp, ast.Add)) for n in ast.walk(e.left)):
                U(e, "format string")
            fmt = "".join(parts)
        else:
            fmt = e.left.value
        specs = re.findall(r"%(?:[-+ #0]*\d*(?:\.\d+)?)([a-zA-Z%])", fmt)
        specs = [s for s in specs if s != "%"]
        args = e.right.elts if isinstance(e.right, ast.Tuple) else [e.right]
        if len(specs) != len(args):
            U(e, "format with %d specifiers and %d arguments" % (len(specs), len(args)))
        binds = []
        for s, a in zip(specs, args):
            b, t, ty = self.ex(a, env)
            binds += b
            if s in "di" and ty not in ("N", "I", "STRU"):
                U(e, "%%%s argument of type %s" % (s, ty))
            if s not in "disr":
                U(e, "conversion %%%s" % s)
        return binds, None, "S"

    def call(self, e, env):
        f = e.func
        a = e.args
        if e.keywords:
            U(e, "keyword arguments")
        if is_name(f, "len") and len(a) == 1:
            b, t, ty = self.ex(a[0], env)
            if ty in ("WL", "LL", "LB", "LINES"):
                return b, "%s.length" % par(t), "N"
            if ty == "STRU":
                return b, t, "N"
            if ty == "OL":
                return b, None, "OPN"
            U(e, "len of a %s" % ty)
        if is_name(f, "int") and len(a) == 1:
            b, t, ty = self.ex(a[0], env)
            if ty != "T":
                U(e, "int() of a %s" % ty)
            i = self.tmp("i")
            return b + ["let %s ← pyInt %s" % (i, par(t))], i, "I"
        if is_name(f, "float") and len(a) == 1:
            b, t, ty = self.ex(a[0], env)
            if ty != "T":
                U(e, "float() of a %s" % ty)
            return b + ["pyFloat %s" % par(t)], None, "F"
        if is_name(f, "isfloat") and len(a) == 1:
            b, t, ty = self.ex(a[0], env)
            if ty != "T":
                U(e, "isfloat() of a %s" % ty)
            return b, "%s.flt" % par(t), "B"
        if is_name(f, "Structure") and not a:
            return [], "0", "STRU"
        if is_name(f, "StructureFormatError") and len(a) == 1:
            b, t, ty = self.ex(a[0], env)
            if ty != "S":
                U(e, "exception argument")
            return b, None, "EXC"
        if isinstance(f, ast.Attribute):
            if ast.unparse(f) == "sys.exc_info" and not a:
                return [], None, "S"
            if f.attr in ("strip", "upper", "lower", "lstrip", "rstrip") and not a:
                b, t, ty = self.ex(f.value, env)
                if ty in ("S", "LINE", "T"):
                    return b, None, "S"
                U(e, ".%s() of a %s" % (f.attr, ty))
            if f.attr == "with_traceback" and len(a) == 1:
                b, t, ty = self.ex(f.value, env)
                if ty == "EXC":
                    return b, None, "EXC"
        U(e, "call")

    def listcomp(self, e, env):
        if len(e.generators) != 1 or e.generators[0].ifs or e.generators[0].is_async or not is_name(e.generators[0].target):
            U(e, "comprehension")
        var = e.generators[0].target.id
        ib, it, ity = self.ex(e.generators[0].iter, env)
        el = e.elt
        if isinstance(el, ast.Call) and not el.keywords and len(el.args) == 1 and is_name(el.args[0], var):
            if is_name(el.func, "float") and ity == "WL":
                return ib + ["floats %s" % par(it)], None, "OL"
            if is_name(el.func, "isfloat") and ity == "WL":
                return ib, "(%s.map (fun f => f.flt))" % it, "LB"
            if isinstance(el.func, ast.Attribute) and el.func.attr == "split":
                pass
        if isinstance(el, ast.Call) and isinstance(el.func, ast.Attribute) and el.func.attr == "split" and not el.args and not el.keywords \
                and is_name(el.func.value, var) and ity == "LINES":
            return ib, it, "LL"
        U(e, "comprehension")

    # ---- conditions: -> (binds, Prop term) ----------------------------------------------------------------------
    def cond(self, c, env):
        if isinstance(c, ast.BoolOp):
            isor = isinstance(c.op, ast.Or)
            binds, acc = self.cond(c.values[0], env)
            for k, v in enumerate(c.values[1:]):
                saved = set(self.guard_pos)
                if not isor:
                    self.note_guard(c.values[k], env)
                vb, vt = self.cond(v, env)
                self.guard_pos = saved
                if not vb:
                    acc = "(%s %s %s)" % (acc, "∨" if isor else "∧", vt)
                else:
                    cv = self.tmp("c")
                    if isor:
                        binds.append("let %s ← (if %s then pure true else do" % (cv, acc))
                    else:
                        binds.append("let %s ← (if %s then do" % (cv, acc))
                    binds += ["  " + x for x in vb]
                    binds.append("  pure (decide (%s))%s" % (vt, ")" if isor else " else pure false)"))
                    acc = prop_of_bool(cv)
            return binds, acc
        if isinstance(c, ast.UnaryOp) and isinstance(c.op, ast.Not):
            b, t = self.cond(c.operand, env)
            return b, "¬(%s)" % t
        if isinstance(c, ast.Compare) and len(c.ops) == 1:
            return self.compare(c, env)
        b, t, ty = self.ex(c, env)
        if ty == "B":
            return b, prop_of_bool(par(t))
        U(c, "condition")

    def note_guard(self, c, env):
        """`V > E` with Nat operands: V is positive in what follows"""
        if isinstance(c, ast.Compare) and len(c.ops) == 1 and isinstance(c.ops[0], ast.Gt) and is_name(c.left) and c.left.id in env \
                and env[c.left.id].typ == "N":
            try:
                b, t, ty = self.ex(c.comparators[0], env)
            except pysrc.Untranslatable:  # noqa: F821
                return
            if ty == "N" and not b:
                self.guard_pos.add(c.left.id)

    def compare(self, c, env):
        op = c.ops[0]
        l, r = c.left, c.comparators[0]
        # str(int(w)) == w
        if isinstance(op, ast.Eq) and isinstance(l, ast.Call) and is_name(l.func, "str") and len(l.args) == 1 and not l.keywords \
                and isinstance(l.args[0], ast.Call) and is_name(l.args[0].func, "int") and len(l.args[0].args) == 1 \
                and is_name(l.args[0].args[0]) and is_name(r, l.args[0].args[0].id):
            b, t, ty = self.ex(l.args[0], env)
            v = self.lookup(r, env)
            if v.typ != "T":
                U(c, "canonical-int test of a %s" % v.typ)
            return b, prop_of_bool("%s.canon" % v.lean)
        if isinstance(op, (ast.Is, ast.IsNot)):
            if not (isinstance(r, ast.Constant) and r.value is None and is_name(l)):
                U(c, "identity test")
            v = self.lookup(l, env)
            if v.typ == "ON":
                return [], prop_of_bool("%s.%s" % (v.lean, "isSome" if isinstance(op, ast.IsNot) else "isNone"))
            if v.typ in ("N", "I"):
                return [], ("True" if isinstance(op, ast.IsNot) else "False")
            U(c, "identity test of a %s" % v.typ)
        if isinstance(op, (ast.In, ast.NotIn)):
            lb, lt, lty = self.ex(l, env)
            if lty != "N" or not isinstance(r, ast.Tuple) or not all(nat_const(x) for x in r.elts) or not r.elts:
                U(c, "membership test")
            t = "(%s)" % " ∨ ".join("%s = %d" % (par(lt), x.value) for x in r.elts)
            return lb, (t if isinstance(op, ast.In) else "¬%s" % t)
        lb, lt, lty = self.ex(l, env)
        # comparisons with literals
        if isinstance(r, ast.List) and not r.elts and lty == "WL" and isinstance(op, (ast.Eq, ast.NotEq)):
            t = prop_of_bool("%s.isEmpty" % par(lt))
            return lb, (t if isinstance(op, ast.Eq) else "¬(%s)" % t)
        if isinstance(r, ast.List) and lty == "LB" and isinstance(op, ast.Eq) \
                and all(isinstance(x, ast.Constant) and isinstance(x.value, bool) for x in r.elts):
            return lb, "%s = [%s]" % (lt, ", ".join("true" if x.value else "false" for x in r.elts))
        if isinstance(r, ast.Constant) and isinstance(r.value, str) and lty == "T" and isinstance(op, (ast.Eq, ast.NotEq)):
            if r.value != "#":
                U(c, "token compared with a string other than '#'")
            t = prop_of_bool("%s.isHash" % par(lt))
            return lb, (t if isinstance(op, ast.Eq) else "¬(%s)" % t)
        rb, rt, rty = self.ex(r, env)
        sym = {ast.Eq: "=", ast.NotEq: "≠", ast.Lt: "<", ast.LtE: "≤", ast.Gt: ">", ast.GtE: "≥"}.get(type(op))
        if sym is None:
            U(c, "comparison operator")
        if lty == "OPN" or rty == "OPN":
            if lb or rb:
                U(c, "comparison")
            return [], None           # pure, opaque (length of a float list)
        if lty == "N" and rty == "N":
            return lb + rb, "%s %s %s" % (par(lt), sym, par(rt))
        if {lty, rty} == {"N", "I"} or (lty == "I" and rty == "I"):
            lt2 = lt if lty == "I" else "(%s : Int)" % lt
            rt2 = rt if rty == "I" else "(%s : Int)" % rt
            return lb + rb, "%s %s %s" % (lt2, sym, rt2)
        U(c, "comparison of %s and %s" % (lty, rty))

    # ---- statements ------------------------------------------------------------------------------------------------
    def assign_to(self, name, term, typ, env, out, node):
        if name in PROTECTED:
            U(node, "rebinding of `%s`" % name)
        self.guard_pos.discard(name)
        if typ in OPAQUE or typ == "OPN":
            env[name] = Var(None, "S" if typ == "OPN" else typ)
            return
        if name in env and env[name].lean is not None:
            if env[name].typ != typ:
                U(node, "`%s` changes its type from %s to %s" % (name, env[name].typ, typ))
            out.append("%s := %s" % (env[name].lean, term))
        else:
            lean = "n_%s" % name if typ == "STRU" else "v_%s" % name
            out.append("let mut %s : %s := %s" % (lean, LEAN_TYPE[typ], term))
            env[name] = Var(lean, typ)

    def block(self, stmts, env, inloop=False):
        """-> (lines, terminates).  `env` is updated in place."""
        out = []
        for k, s in enumerate(stmts):
            later = set()
            for t in stmts[k + 1:]:
                later |= {n.id for n in ast.walk(t) if isinstance(n, ast.Name) and isinstance(n.ctx, ast.Load)}
            self.later_loads.append(later)
            try:
                term = self.stmt(s, env, out, inloop)
            finally:
                self.later_loads.pop()
            if term:
                if k != len(stmts) - 1:
                    U(stmts[k + 1], "statement after raise / return / break / continue")
                return out, True
        return out, False

    def live_after(self):
        s = set()
        for x in self.later_loads:
            s |= x
        return s

    def stmt(self, s, env, out, inloop):
        if isinstance(s, ast.Assign) and len(s.targets) == 1:
            tg = s.targets[0]
            if isinstance(tg, ast.Name):
                b, t, ty = self.ex(s.value, env)
                out += b
                self.assign_to(tg.id, t, ty, env, out, s)
                return False
            if isinstance(tg, ast.Tuple) and all(is_name(x) for x in tg.elts):
                if isinstance(s.value, ast.Tuple) and len(s.value.elts) == len(tg.elts):
                    vals = []
                    for v in s.value.elts:
                        if isinstance(v, ast.Constant) and v.value is None:
                            vals.append(([], "none", "ON"))
                        else:
                            vals.append(self.ex(v, env))
                    for (b, t, ty), x in zip(vals, tg.elts):
                        out += b
                        if x.id in env and env[x.id].typ == "ON" and ty == "N":
                            t, ty = "some %s" % par(t), "ON"
                        self.assign_to(x.id, t, ty, env, out, s)
                    return False
                b, t, ty = self.ex(s.value, env)
                if ty == "S" and isinstance(s.value, ast.Call) and ast.unparse(s.value.func) == "sys.exc_info":
                    for x in tg.elts:
                        self.assign_to(x.id, None, "S", env, out, s)
                    return False
                U(s, "tuple assignment")
            if isinstance(tg, ast.Attribute) and is_name(tg.value) and tg.value.id in env and env[tg.value.id].typ == "STRU":
                b, t, ty = self.ex(s.value, env)
                if ty not in OPAQUE:
                    U(s, "attribute value of type %s" % ty)
                out += b
                return False
            U(s, "assignment target")
        if isinstance(s, ast.AugAssign) and is_name(s.target):
            v = self.lookup(s.target, env)
            if v.typ != "N" or not nat_const(s.value):
                U(s, "augmented assignment")
            if isinstance(s.op, ast.Add):
                out.append("%s := %s + %d" % (v.lean, v.lean, s.value.value))
                return False
            U(s, "augmented assignment (a decrement is only read as part of `while V > E and C: V -= 1`)")
        if isinstance(s, ast.Expr) and isinstance(s.value, ast.Call):
            c = s.value
            f = c.func
            if isinstance(f, ast.Attribute) and is_name(f.value) and f.value.id in env:
                v = env[f.value.id]
                if v.typ == "STRU" and f.attr == "addNewAtom" and len(c.args) == 1 and len(c.keywords) == 1 and c.keywords[0].arg == "xyz":
                    b1, t1, ty1 = self.ex(c.args[0], env)
                    b2, t2, ty2 = self.ex(c.keywords[0].value, env)
                    if ty1 not in ("S", "T") or ty2 != "OL":
                        U(s, "addNewAtom arguments of types %s, %s" % (ty1, ty2))
                    out += b1 + b2
                    out.append("%s := %s + 1" % (v.lean, v.lean))
                    return False
                if v.typ == "OL" and f.attr == "append" and len(c.args) == 1 and not c.keywords \
                        and isinstance(c.args[0], ast.Constant) and isinstance(c.args[0].value, float):
                    return False
            U(s, "call statement")
        if isinstance(s, ast.If):
            return self.if_stmt(s, env, out, inloop)
        if isinstance(s, ast.For):
            return self.for_stmt(s, env, out)
        if isinstance(s, ast.While):
            return self.while_stmt(s, env, out)
        if isinstance(s, ast.Try):
            return self.try_stmt(s, env, out)
        if isinstance(s, ast.Raise):
            out.append("raise %s" % self.raise_kind(s, env, out))
            return True
        if isinstance(s, ast.Return):
            if s.value is None or (is_name(s.value) and s.value.id in env and env[s.value.id].typ == "STRU"):
                if self.nesting:
                    U(s, "return inside a loop or try body")
                out.append("return ()")
                return True
            U(s, "return value")
        if isinstance(s, ast.Break) and inloop:
            out.append("break")
            return True
        if isinstance(s, ast.Continue) and inloop:
            out.append("continue")
            return True
        if isinstance(s, ast.Pass):
            return False
        U(s, "statement")

    nesting = 0

    def raise_kind(self, s, env, out):
        if s.cause is not None or s.exc is None:
            U(s, "raise form")
        x = s.exc
        if isinstance(x, ast.Call) and is_name(x.func) and x.func.id in ("StructureFormatError", "NotImplementedError") and len(x.args) == 1 \
                and not x.keywords:
            b, t, ty = self.ex(x.args[0], env)
            if ty != "S":
                U(s, "exception argument")
            out += b
            return ".SFE" if x.func.id == "StructureFormatError" else ".NotImpl"
        b, t, ty = self.ex(x, env)
        if ty == "EXC":
            out += b
            return ".SFE"
        U(s, "raise of something that is not a StructureFormatError")

    def if_stmt(self, s, env, out, inloop):
        cb, c = self.cond(s.test, env)
        if c is None:
            # pure opaque test: the statement may be dropped when its branches emit nothing
            e1 = dict(env)
            snap = self.snapshot()
            l1, t1 = self.block(s.body, e1, inloop)
            l2, t2 = self.block(s.orelse, dict(env), inloop) if s.orelse else ([], False)
            if l1 or l2 or t1 or t2:
                self.restore(snap)
                U(s, "test on the length of a float list guards a statement that is not dropped")
            return False
        # first pass: which new variables do both surviving branches define, and with which types
        snap = self.snapshot()
        ea, eb = dict(env), dict(env)
        la, ta = self.block(s.body, ea, inloop)
        lb, tb = self.block(s.orelse, eb, inloop) if s.orelse else ([], False)
        self.restore(snap)
        surv = [e for e, t in ((ea, ta), (eb, tb)) if not t]
        new = {}
        for name in ea.keys() | eb.keys():
            if name in env:
                continue
            if surv and all(name in e for e in surv):
                tys = {e[name].typ for e in surv}
                if len(tys) == 1:
                    new[name] = tys.pop()
                elif tys == {"ON", "N"}:
                    new[name] = "ON"
        for name in sorted(new):
            ty = new[name]
            if ty in OPAQUE:
                env[name] = Var(None, ty)
            else:
                lean = "v_%s" % name
                out.append("let mut %s : %s := %s" % (lean, LEAN_TYPE[ty], DEFAULT[ty]))
                env[name] = Var(lean, ty)
        out += cb
        ea, eb = dict(env), dict(env)
        la, ta = self.block(s.body, ea, inloop)
        lb, tb = self.block(s.orelse, eb, inloop) if s.orelse else ([], False)
        if not la and not lb and not cb:
            pass
        else:
            out.append("if %s then" % c)
            out += ["  " + x for x in (la or ["pure ()"])]
            if lb:
                out.append("else")
                out += ["  " + x for x in lb]
        # variables that only one surviving branch defines are not visible afterwards
        for name in list(env):
            for e, t in ((ea, ta), (eb, tb)):
                if not t and name in e and e[name].typ != env[name].typ:
                    U(s, "`%s` has different types in the branches" % name)
        return ta and tb and bool(s.orelse)

    def reads(self, lines, env, exclude=()):
        text = "\n".join(lines)
        ps = []
        for name, v in env.items():
            if v.lean and v.lean not in exclude and re.search(r"(?<![\w'.])%s(?![\w'])" % re.escape(v.lean), text) and v.lean not in [p.lean for p in ps]:
                ps.append(v)
        return ps

    def assigned_names(self, stmts):
        s = []
        for st in stmts:
            for n in ast.walk(st):
                if isinstance(n, ast.Name) and isinstance(n.ctx, ast.Store) and n.id not in s:
                    s.append(n.id)
                if isinstance(n, ast.Call) and isinstance(n.func, ast.Attribute) and is_name(n.func.value) and n.func.attr == "addNewAtom" \
                        and n.func.value.id not in s:
                    s.append(n.func.value.id)
        return s

    def sub_def(self, name, doc, params, state, body_lines, iter_param=None):
        """auxiliary definition: parameters `params` (Vars), mutable state `state` (Vars), result = tuple of the state"""
        sig = []
        if iter_param:
            sig.append("(it : %s)" % iter_param)
        allp = list(params) + [v for v in state if v.lean not in [p.lean for p in params]]
        sig += ["(%s : %s)" % (v.lean, LEAN_TYPE[v.typ]) for v in allp]
        ret = " × ".join(LEAN_TYPE[v.typ] for v in state) if state else "Unit"
        lines = ["/-- %s -/" % doc, "def %s %s : M (%s) := do" % (name, " ".join(sig), ret)]
        for v in state:
            lines.append("  let mut %s := %s" % (v.lean, v.lean))
        lines += ["  " + x for x in body_lines]
        lines.append("  pure (%s)" % (", ".join(v.lean for v in state) if state else "()"))
        self.aux.append("\n".join(lines) + "\n\n")
        return " ".join(v.lean for v in allp)

    def for_stmt(self, s, env, out):
        if s.orelse or not is_name(s.target):
            U(s, "for statement")
        ib, it, ity = self.ex(s.iter, env)
        if ity != "LL":
            U(s, "loop over a %s" % ity)
        out += ib
        self.nfor += 1
        name = "%s_for%d" % (self.prefix, self.nfor)
        benv = dict(env)
        var = "v_%s" % s.target.id
        benv[s.target.id] = Var(var, "WL")
        self.nesting += 1
        try:
            lines, _ = self.block(s.body, benv, inloop=True)
        finally:
            self.nesting -= 1
        state = [env[n] for n in self.assigned_names(s.body) if n in env and env[n].lean]
        live = self.live_after()
        if s.target.id in live or s.target.id in env:
            U(s, "loop variable `%s` is a local that is read elsewhere" % s.target.id)
        for n in self.assigned_names(s.body) + [s.target.id]:
            if n not in env and n in live and n in benv and benv[n].lean:
                U(s, "`%s` is first bound inside the loop and read after it" % n)
        params = [v for v in self.reads(lines, env) if v.lean not in [x.lean for x in state]]
        body = ["for %s in it do" % var] + ["  " + x for x in (lines or ["pure ()"])]
        args = self.sub_def(name, "`%s`" % " ".join(ast.unparse(s).split("\n")[0].split()), params, state, body, iter_param=LEAN_TYPE["LL"])
        callee = "%s %s %s" % (name, par(it), args)
        self.emit_call(out, state, callee.strip())
        for n in self.assigned_names(s.body):
            self.guard_pos.discard(n)
        return False

    def emit_call(self, out, state, callee):
        if not state:
            out.append(callee)
        elif len(state) == 1:
            out.append("%s ← %s" % (state[0].lean, callee))
        else:
            out.append("(%s) ← %s" % (", ".join(v.lean for v in state), callee))

    def while_stmt(self, s, env, out):
        t = s.test
        ok = (not s.orelse and isinstance(t, ast.BoolOp) and isinstance(t.op, ast.And) and len(t.values) >= 2
              and isinstance(t.values[0], ast.Compare) and len(t.values[0].ops) == 1 and isinstance(t.values[0].ops[0], ast.Gt)
              and is_name(t.values[0].left) and len(s.body) == 1 and isinstance(s.body[0], ast.AugAssign)
              and isinstance(s.body[0].op, ast.Sub) and is_name(s.body[0].target, t.values[0].left.id)
              and nat_const(s.body[0].value) and s.body[0].value.value == 1)
        if not ok:
            U(s, "while loop that is not `while V > E and C: V -= 1`")
        vname = t.values[0].left.id
        v = self.lookup(t.values[0].left, env)
        eb, et, ety = self.ex(t.values[0].comparators[0], env)
        if v.typ != "N" or ety != "N" or eb or re.search(r"(?<![\w'.])%s(?![\w'])" % re.escape(v.lean), et):
            U(s, "while loop bound")
        saved = set(self.guard_pos)
        self.guard_pos.add(vname)
        rest = t.values[1] if len(t.values) == 2 else ast.BoolOp(op=ast.And(), values=t.values[1:])
        cb, c = self.cond(rest, env)
        self.guard_pos = saved
        if c is None:
            U(s, "while test")
        out.append("%s ← whileDec %s (fun %s => do" % (v.lean, par(et), v.lean))
        out += ["    " + x for x in cb]
        out.append("    pure (decide (%s))) (%s - %s) %s" % (c, v.lean, par(et), v.lean))
        return False

    def try_stmt(self, s, env, out):
        if s.orelse or s.finalbody or len(s.handlers) != 1:
            U(s, "try statement with else / finally / several handlers")
        if self.nesting:
            U(s, "try statement inside a loop or another try body")
        h = s.handlers[0]
        kinds = []
        for nm in self.hm.handler_names(h):
            for k in self.hm.kinds_of(nm):
                if k not in kinds:
                    kinds.append(k)
        # the body
        self.ntry += 1
        name = "%s_try%d" % (self.prefix, self.ntry)
        benv = dict(env)
        self.nesting += 1
        try:
            lines, term = self.block(s.body, benv)
        finally:
            self.nesting -= 1
        live = self.live_after()
        assigned = self.assigned_names(s.body)
        state_names = [n for n in assigned if n in live and ((n in benv and benv[n].lean) or (n in env and env[n].lean))]
        for n in state_names:
            if n not in benv or (term and n not in env):
                U(s, "`%s` may be unbound after the try statement" % n)
        # handler: message building and `raise StructureFormatError`
        henv = dict(env)
        # locals bound by the leading simple assignments of the body are bound in the handler whenever it runs
        for st in s.body:
            if isinstance(st, ast.Assign) and len(st.targets) == 1 and is_name(st.targets[0]) and is_name(st.value) and st.value.id in env:
                henv[st.targets[0].id] = benv.get(st.targets[0].id, env[st.value.id])
            else:
                break
        hout = []
        if h.name is not None:
            U(h, "handler that binds the exception")
        self.nesting += 1
        try:
            hl, hterm = self.block(h.body, henv)
        finally:
            self.nesting -= 1
        if not hterm or hl != ["raise .SFE"]:
            U(h, "handler body that is not `<build the message>; raise StructureFormatError`")
        # predeclare new state variables
        state = []
        for n in state_names:
            if n not in env or env[n].lean is None:
                ty = benv[n].typ
                lean = benv[n].lean
                out.append("let mut %s : %s := %s" % (lean, LEAN_TYPE[ty], DEFAULT[ty]))
                env[n] = Var(lean, ty)
            state.append(env[n])
        # inside the definition the new state variables are declared by the body itself: drop their declarations' `let mut` clash
        body = []
        declared = {v.lean for v in state}
        for ln in lines:
            m = re.match(r"^(\s*)let mut (\S+) : [^:]*? := (.*)$", ln)
            if m and m.group(2) in declared and not ln.startswith(" "):
                body.append("%s%s := %s" % (m.group(1), m.group(2), m.group(3)))
            else:
                body.append(ln)
        params = [v for v in self.reads(lines, env) if v.lean not in declared]
        args = self.sub_def(name, "body of the `try` at line %d of parseLines (handler: %s)" % (
            s.lineno, ", ".join(self.hm.handler_names(h))), params, state, body)
        self.aux.append("/-- exception kinds of `except %s` at that `try` (translate/handlers.py `kinds_of`) -/\ndef %s_handler : List Kind := [%s]\n\n" % (
            ast.unparse(h.type) if h.type is not None else "", name, ", ".join("." + k for k in kinds)))
        callee = "tryExcept %s_handler (%s %s)" % (name, name, args)
        self.emit_call(out, state, callee)
        for n in assigned:
            self.guard_pos.discard(n)
            if n in benv and n not in env and benv[n].lean is None:
                pass
        return False


def par(s):
    s = s.strip()
    if re.fullmatch(r"[\w.']+", s):
        return s
    if s[0] == "(" and s[-1] == ")":
        d = 0
        for k, ch in enumerate(s):
            d += ch == "("
            d -= ch == ")"
            if d == 0 and k != len(s) - 1:
                break
        else:
            return s
    return "(%s)" % s


def load_handlers():
    import importlib.util
    spec = importlib.util.spec_from_file_location("translate_handlers_for_readers", os.path.join(os.path.dirname(os.path.abspath(__file__)), "handlers.py"))
    mod = importlib.util.module_from_spec(spec)
    spec.loader.exec_module(mod)
    return mod


def module_checks(tree, cls, uses_isfloat, REPO):
    """where the free names of the method come from"""
    origins = {}
    for n in tree.body:
        if isinstance(n, ast.ImportFrom):
            for a in n.names:
                origins[a.asname or a.name] = "%s.%s" % (n.module, a.name)
        elif isinstance(n, ast.Import):
            for a in n.names:
                origins[a.asname or a.name] = a.name
        elif isinstance(n, (ast.FunctionDef, ast.ClassDef)):
            origins[n.name] = "local"
        elif isinstance(n, ast.Assign):
            for t in n.targets:
                for x in ast.walk(t):
                    if isinstance(x, ast.Name):
                        origins[x.id] = "local"
    want = {"Structure": "diffpy.structure.Structure", "StructureFormatError": "diffpy.structure.structureerrors.StructureFormatError",
            "sys": "sys"}
    if uses_isfloat:
        want["isfloat"] = "diffpy.structure.utils.isfloat"
    for k, v in want.items():
        if origins.get(k) != v:
            raise pysrc.Untranslatable("`%s` is bound to %r, expected %s" % (k, origins.get(k), v))  # noqa: F821
    for b in ("len", "int", "float", "str", "NotImplementedError"):
        if b in origins:
            raise pysrc.Untranslatable("the module rebinds the builtin `%s`" % b)  # noqa: F821
    if uses_isfloat:
        path = os.path.join(REPO, "src", "diffpy", "structure", "utils.py")
        ut = ast.parse(open(path, encoding="utf-8").read())
        f = pysrc.find_func(ut.body, "isfloat")  # noqa: F821
        if f is None or [a.arg for a in f.args.args] != ["s"]:
            raise pysrc.Untranslatable("utils.isfloat not found")  # noqa: F821
        body = "\n".join(ast.unparse(x) for x in strip_doc(f.body))
        if body != ISFLOAT_BODY:
            raise pysrc.Untranslatable("utils.isfloat is not `float(s)` under `except ValueError`: %s" % " ".join(body.split())[:100])  # noqa: F821


def translate_parser(fname, clsname, prefix, REPO, hm):
    path = os.path.join(REPO, "src", "diffpy", "structure", "parsers", fname)
    try:
        tree = ast.parse(open(path, encoding="utf-8").read())
    except (OSError, SyntaxError) as e:
        raise pysrc.Untranslatable("%s: %s" % (fname, e))  # noqa: F821
    cls = pysrc.find_class(tree, clsname)  # noqa: F821
    fn = pysrc.find_func(cls.body, "parseLines")  # noqa: F821
    if fn is None:
        raise pysrc.Untranslatable("%s.parseLines not found" % clsname)  # noqa: F821
    if sum(1 for n in cls.body if isinstance(n, ast.FunctionDef) and n.name == "parseLines") != 1:
        raise pysrc.Untranslatable("%s.parseLines defined more than once" % clsname)  # noqa: F821
    a = fn.args
    if a.vararg or a.kwarg or a.kwonlyargs or a.posonlyargs or a.defaults or fn.decorator_list or [x.arg for x in a.args][:1] != ["self"] \
            or len(a.args) != 2:
        raise pysrc.Untranslatable("signature of parseLines: %s" % ast.unparse(a))  # noqa: F821
    for n in ast.walk(fn):
        if isinstance(n, (ast.Global, ast.Nonlocal, ast.Lambda, ast.FunctionDef)) and n is not fn:
            U(n, "nested scope / global statement")
        if isinstance(n, ast.Name) and isinstance(n.ctx, (ast.Store, ast.Del)) and n.id in PROTECTED:
            U(n, "rebinding of `%s`" % n.id)
    uses_isfloat = any(is_name(n, "isfloat") for n in ast.walk(fn))
    module_checks(tree, cls, uses_isfloat, REPO)
    lines_name = a.args[1].arg
    tr = Fn("%s_parseLines" % prefix, hm)
    env = {lines_name: Var("v_%s" % lines_name, "LINES")}
    body, term = tr.block(strip_doc(fn.body), env)
    if not term:
        U(fn, "parseLines may fall off its end")
    text = "".join(tr.aux)
    text += "/-- `%s.parseLines` of parsers/%s, over the abstract document -/\ndef %s_parseLines (d : XyzDoc) : M Unit := do\n" % (clsname, fname, prefix)
    text += "  let v_%s := d.lines\n" % lines_name
    text += "\n".join("  " + x for x in body) + "\n\n"
    return text


def translate(report):
    REPO = pysrc.REPO  # noqa: F821  (injected; read at call time)
    lean_str = pysrc.lean_str  # noqa: F821
    info = {"methods": {}, "untranslatable": {}}
    out = []
    hm = load_handlers()
    for fname, cls, prefix in (("p_xyz.py", "P_xyz", "xyz"), ("p_rawxyz.py", "P_rawxyz", "rawxyz")):
        name = "%s_parseLines" % prefix
        try:
            out.append(translate_parser(fname, cls, prefix, REPO, hm))
            info["methods"][name] = True
        except pysrc.Untranslatable as e:  # noqa: F821
            info["untranslatable"][name] = str(e)
            out.append("def %s_untranslatable : String := %s\n\n" % (name, lean_str(str(e))))
        except Exception as e:  # noqa: BLE001  (never crash: an unexpected shape is an untranslatable one)
            msg = "internal %s: %s" % (type(e).__name__, e)
            info["untranslatable"][name] = msg
            out.append("def %s_untranslatable : String := %s\n\n" % (name, lean_str(msg)))
    report[GROUP] = info
    return HEADER + PRELUDE + "".join(out) + "end DS.Src.Readers\n"
