"""Source translator plug-in (C13 reader tie): `P_xyz.parseLines` (parsers/p_xyz.py), `P_rawxyz.parseLines`
(parsers/p_rawxyz.py), `P_discus.parseLines` with its record helper methods (parsers/p_discus.py; second half of this file,
class `Discus`, with its own list of conventions) and `P_pdffit.parseLines` with `_parse_shape` (parsers/p_pdffit.py; class
`Pdffit`, likewise)  ->  lean/DS/Gen/SrcReaders.lean  (namespace DS.Src.Readers).

The method bodies are read with `ast` from the tree under examination (`pysrc.REPO`, read at call time) and emitted,
statement by statement, as Lean `do` blocks in the vocabulary of DS/Model/Parsers.lean (monad `M = Except Kind`,
`tryExcept`, `idx`, `pyInt`, `floats`, the abstract document `XyzDoc` = one token list per text line).  The hand-written
theorems of DS/Props/SrcReaders.lean state that the control-flow models the C13 theorems speak about (`Parsers.xyzRun`,
`Parsers.rawxyzRun` under the generated handler configuration) ARE these transliterations.

How Python is rendered (the translator's conventions = trusted base)

  abstract document   `lines` (parameter) is the list of text lines; the abstract document keeps `line.split()` of every
                      line (harness/c13_abs.py `alpha_xyz`).  `lines` and `[line.split() for line in lines]` are both the
                      list `d.lines : List WLine` (same length, same positions).  `lines[i]` is `idx d.lines i`
                      (`IndexError`), its value an opaque string; `.strip()` of it cannot raise.
  tokens              a token `w` (element of a `split()` result) is a non-empty string: `w[0]`, `w[a:b]`, `.upper()`,
                      `.lower()`, `+` between strings cannot raise.  `int(w)` = `pyInt w` (`ValueError`), `float(w)` =
                      `pyFloat w`, `[float(f) for f in X]` = `floats X`, `str(int(w)) == w` = `pyInt w` followed by the
                      field `w.canon`, `w == "#"` = `w.isHash`, `isfloat(w)` = `w.flt` (the body of `utils.isfloat` is
                      compared with the expected text: `float(s)` under `except ValueError`).
  ints                every int variable of the subset starts from `0` / `len(..)` / another such variable and is only
                      increased by literals: it is a `Nat`.  `V - 1` and `V -= 1` are accepted only where `V > E` (E a
                      `Nat`) has just been tested (`and`-right operand, body of `while V > E and …`) so that the `Nat`
                      subtraction is exact.  `int(w)` results are `Int`.
  sequences           `X[i]` (i a `Nat`) = `idx X i` (`IndexError`); slices `X[a:b]`, `X[a:]`, `X[:b]` with `Nat` bounds =
                      `(X.take b).drop a`, `X.drop a`, `X.take b` (never raise); `len(X)` = `X.length`; `X == []` =
                      `X.isEmpty`; a list of booleans compared with a literal = list equality.
  Structure           `stru = Structure()` = atom counter `n_stru := 0`; `stru.addNewAtom(<string>, xyz=<list of floats>)`
                      = `n_stru := n_stru + 1` and cannot raise; `len(stru)` = `n_stru`; `stru.<attr> = e` evaluates `e`
                      only; `return stru` = `return ()`.
  non-raising forms   (dropped after their sub-expressions have been emitted)  assignment of a string / float-list value to
                      a local; `"literal" % args` when the number of conversion specifiers equals the number of arguments
                      and every `%d` argument is an int of the subset; string `+`; `L.append(<float literal>)` on a list of
                      floats; `len(L)` of such a list; `sys.exc_info()`; `StructureFormatError(<string>)`;
                      `e.with_traceback(tb)`.
  control flow        `if/elif/else`, `for x in X` (with `break` / `continue`), `try … except (A, B): <build message>; raise
                      StructureFormatError` (handler classes READ at that place and mapped with translate/handlers.py
                      `kinds_of`; the handler body must consist of the non-raising forms above and end in the raise),
                      `raise StructureFormatError(..)` / `NotImplementedError(..)`, `return`, and
                      `while V > E and C: V -= 1` (= `whileDec E C (V - E) V`; DS.Props.SrcReaders.whileDec_unfold proves
                      that with this fuel the recursion satisfies the loop equation).  Every loop and every `try` body
                      becomes its own definition `<fmt>_parseLines_<for|try><k>` whose parameters are the variables it
                      reads and whose result is the tuple of variables it assigns that are used afterwards; the kinds of
                      a handler are the definition `<fmt>_parseLines_try<k>_handler` (the tie proofs only use that it is,
                      by `rfl`, the tuple of the generated configuration `Gen.cfg_<fmt>`; a changed tuple is C13's business:
                      `total_<fmt>` and the witness documents).  A `try` inside a loop, a `return` inside a loop or `try`
                      body, a loop variable that is read after its loop are rejected.
  `A and B`, `A or B` short-circuit: when `B` contains a primitive that can raise it is evaluated only under `A` / `¬A`.
  names               a local that may be unbound where it is read, a rebinding of `len int float str isfloat Structure
                      StructureFormatError sys`, keyword / star arguments (except `xyz=` of `addNewAtom`) are rejected.

Anything else yields `def <fmt>_parseLines_untranslatable : String`, so the tie theorem cannot elaborate.
"""
import ast
import os
import re

GROUP = "readers"
OUTFILE = "SrcReaders.lean"

# `pysrc` is injected by translate/pysrc.py (plugins()); REPO is read at call time.

HEADER = ("-- GENERATED by translate/src_readers.py from src/diffpy/structure/parsers/{p_xyz,p_rawxyz,p_discus,p_pdffit}.py — do not edit\n"
          "import DS.Model.Parsers\nnamespace DS.Src.Readers\nset_option linter.unusedVariables false\nopen DS.Parsers\n\n")

PRELUDE = '''/-- `while v > lo and c(v): v -= 1`, started with fuel `v - lo` (every round decreases `v - lo` by one, and the
loop test fails when it is zero: see `DS.Props.SrcReaders.whileDec_unfold`) -/
def whileDec (lo : Nat) (c : Nat → M Bool) : Nat → Nat → M Nat
  | 0, v => pure v
  | n + 1, v => if v > lo then do
      if (← c v) then whileDec lo c n (v - 1) else pure v
    else pure v

/-- `L[i]` for a list of floats of length `len` -/
def olIdx (len i : Nat) : M Unit := if len ≤ i then raise .IndexError else pure ()

'''

LEAN_TYPE = {"N": "Nat", "I": "Int", "B": "Bool", "T": "Tok", "WL": "WLine", "LL": "List WLine", "LB": "List Bool",
             "ON": "Option Nat", "STRU": "Nat", "LINES": "List WLine"}
DEFAULT = {"N": "0", "I": "0", "B": "false", "ON": "none", "LB": "[]", "WL": "[]", "LL": "[]", "T": "{}", "STRU": "0"}
OPAQUE = ("S", "OL", "LINE", "F", "NONE", "EXC")     # values without a Lean term: strings, float lists, a raw line, a float
ISFLOAT_BODY = "try:\n    float(s)\n    return True\nexcept ValueError:\n    pass\nreturn False"
PROTECTED = ("len", "int", "float", "str", "isfloat", "Structure", "StructureFormatError", "sys", "NotImplementedError")


def U(node, why):
    try:
        src = ast.unparse(node)
    except Exception:  # noqa: BLE001
        src = str(node)
    raise pysrc.Untranslatable("%s: `%s`" % (why, " ".join(src.split())[:120]))  # noqa: F821


class Var:
    def __init__(self, lean, typ):
        self.lean = lean      # Lean identifier (None for opaque values)
        self.typ = typ


def strip_doc(body):
    return [b for b in body if not (isinstance(b, ast.Expr) and isinstance(b.value, ast.Constant) and isinstance(b.value.value, str))]


def is_name(n, name=None):
    return isinstance(n, ast.Name) and (name is None or n.id == name)


def nat_const(n):
    return isinstance(n, ast.Constant) and isinstance(n.value, int) and not isinstance(n.value, bool) and n.value >= 0


def prop_of_bool(term):
    return "%s = true" % term


class Fn:
    """translation of one `parseLines` into a main definition and auxiliary definitions (loops, try bodies)"""

    def __init__(self, prefix, handlers_mod):
        self.prefix = prefix
        self.hm = handlers_mod
        self.aux = []
        self.ntmp = 0
        self.nfor = 0
        self.ntry = 0
        self.guard_pos = set()       # python names known to be > some Nat (so `V - 1` is exact)
        self.later_loads = []        # stack of sets of names loaded after the statement being compiled

    # ---- small helpers -----------------------------------------------------------------------------------
    def tmp(self, p):
        self.ntmp += 1
        return "%s%d" % (p, self.ntmp)

    def snapshot(self):
        return (len(self.aux), self.ntmp, self.nfor, self.ntry, set(self.guard_pos))

    def restore(self, s):
        del self.aux[s[0]:]
        self.ntmp, self.nfor, self.ntry, self.guard_pos = s[1], s[2], s[3], set(s[4])

    def lookup(self, node, env):
        if node.id not in env:
            U(node, "name that may be unbound here (or is not a local of the subset)")
        return env[node.id]

    # ---- expressions: -> (binds, term|None, type) ----------------------------------------------------------
    def ex(self, e, env):
        if isinstance(e, ast.Constant):
            if nat_const(e):
                return [], str(e.value), "N"
            if isinstance(e.value, str):
                return [], None, "S"
            if e.value is None:
                return [], None, "NONE"
            if isinstance(e.value, float):
                return [], None, "F"
            U(e, "constant")
        if isinstance(e, ast.Name):
            v = self.lookup(e, env)
            return [], v.lean, v.typ
        if isinstance(e, ast.Subscript):
            return self.subscript(e, env)
        if isinstance(e, ast.BinOp):
            return self.binop(e, env)
        if isinstance(e, ast.Call):
            return self.call(e, env)
        if isinstance(e, ast.ListComp):
            return self.listcomp(e, env)
        if isinstance(e, ast.IfExp):
            cb, c = self.cond(e.test, env)
            ab, at, aty = self.ex(e.body, env)
            bb, bt, bty = self.ex(e.orelse, env)
            if aty not in OPAQUE or bty not in OPAQUE:
                U(e, "conditional expression with a non-string value")
            binds = list(cb)
            if ab or bb:
                binds.append("if %s then" % c)
                binds += ["  " + x for x in (ab or ["pure ()"])]
                if bb:
                    binds.append("else")
                    binds += ["  " + x for x in bb]
            return binds, None, "S"
        if isinstance(e, ast.BoolOp):
            return self.value_boolop(e, env)
        if isinstance(e, ast.Compare):
            b, c = self.cond(e, env)
            return b, "decide (%s)" % c, "B"
        if isinstance(e, ast.Tuple):
            U(e, "tuple value")
        U(e, "expression")

    def value_boolop(self, e, env):
        """`X is not None and SEQ[X] or ""`: the string of the optional column"""
        if isinstance(e.op, ast.Or) and len(e.values) == 2 and isinstance(e.values[0], ast.BoolOp) and isinstance(e.values[0].op, ast.And) \
                and len(e.values[0].values) == 2:
            a, b = e.values[0].values
            c = e.values[1]
            cb, ct, cty = self.ex(c, env)
            if cb or cty not in OPAQUE:
                U(e, "`or` operand")
            nm = self.is_not_none(a, env)
            if nm is not None:
                v = env[nm]
                i = self.tmp("j")
                env2 = dict(env)
                env2[nm] = Var(i, "N")
                bb, bt, bty = self.ex(b, env2)
                if bty not in ("T",) + OPAQUE:
                    U(e, "`and` operand")
                binds = ["match %s with" % v.lean, "| none => pure ()", "| some %s => do" % i]
                binds += ["  " + x for x in (bb or [])] + ["  pure ()"]
                return binds, None, "S"
        U(e, "boolean operator in a value position")

    def is_not_none(self, a, env):
        if isinstance(a, ast.Compare) and len(a.ops) == 1 and isinstance(a.ops[0], ast.IsNot) and is_name(a.left) \
                and isinstance(a.comparators[0], ast.Constant) and a.comparators[0].value is None \
                and a.left.id in env and env[a.left.id].typ == "ON":
            return a.left.id
        return None

    def subscript(self, e, env):
        bb, base, bt = self.ex(e.value, env)
        sl = e.slice
        if isinstance(sl, ast.Slice):
            if sl.step is not None:
                U(e, "slice step")
            lo = hi = None
            binds = list(bb)
            if sl.lower is not None:
                b1, lo, t1 = self.ex(sl.lower, env)
                if t1 != "N":
                    U(e, "slice bound that is not a non-negative int of the subset")
                binds += b1
            if sl.upper is not None:
                b2, hi, t2 = self.ex(sl.upper, env)
                if t2 != "N":
                    U(e, "slice bound that is not a non-negative int of the subset")
                binds += b2
            if bt in ("T", "S"):
                return binds, None, "S"
            if bt in ("WL", "LL", "LB"):
                t = base
                if hi is not None:
                    t = "(%s.take %s)" % (t, par(hi))
                if lo is not None:
                    t = "(%s.drop %s)" % (t, par(lo))
                return binds, t, bt
            U(e, "slice of a %s" % bt)
        ib, it, ity = self.ex(sl, env)
        if ity != "N":
            U(e, "index that is not a non-negative int of the subset")
        binds = bb + ib
        if bt == "T":
            if it != "0":
                U(e, "character of a token other than the first")
            return binds, None, "S"
        if bt in ("LL", "WL", "LINES"):
            t = self.tmp("t")
            binds.append("let %s ← idx %s %s" % (t, base, par(it)))
            return binds, (t if bt != "LINES" else None), {"LL": "WL", "WL": "T", "LINES": "LINE"}[bt]
        U(e, "index into a %s" % bt)

    def binop(self, e, env):
        if isinstance(e.op, ast.Mod):
            return self.format(e, env)
        lb, l, lt = self.ex(e.left, env)
        rb, r, rt = self.ex(e.right, env)
        if isinstance(e.op, ast.Add):
            if lt == "N" and rt == "N":
                return lb + rb, "%s + %s" % (par(l), par(r)), "N"
            if lt in ("S",) and rt in ("S",):
                return lb + rb, None, "S"
        if isinstance(e.op, ast.Sub):
            if lt == "N" and is_name(e.left) and e.left.id in self.guard_pos and nat_const(e.right) and e.right.value == 1:
                return lb + rb, "%s - 1" % par(l), "N"
            U(e, "subtraction that is not `V - 1` under a test `V > E`")
        U(e, "operator on %s, %s" % (lt, rt))

    def format(self, e, env):
        if not (isinstance(e.left, ast.Constant) and isinstance(e.left.value, str)):
            # ("a" + "b") % x
            lb, l, lt = self.ex(e.left, env)
            if lt != "S" or lb:
                U(e, "format string")
            fmt = None
            parts = [n.value for n in ast.walk(e.left) if isinstance(n, ast.Constant) and isinstance(n.value, str)]
            if not all(isinstance(n, (ast.Constant, ast.BinOp, ast.Add)) for n in ast.walk(e.left)):
                U(e, "format string")
            fmt = "".join(parts)
        else:
            fmt = e.left.value
        specs = re.findall(r"%(?:[-+ #0]*\d*(?:\.\d+)?)([a-zA-Z%])", fmt)
        specs = [s for s in specs if s != "%"]
        args = e.right.elts if isinstance(e.right, ast.Tuple) else [e.right]
        if len(specs) != len(args):
            U(e, "format with %d specifiers and %d arguments" % (len(specs), len(args)))
        binds = []
        for s, a in zip(specs, args):
            b, t, ty = self.ex(a, env)
            binds += b
            if s in "di" and ty not in ("N", "I", "STRU"):
                U(e, "%%%s argument of type %s" % (s, ty))
            if s not in "disr":
                U(e, "conversion %%%s" % s)
        return binds, None, "S"

    def call(self, e, env):
        f = e.func
        a = e.args
        if e.keywords:
            U(e, "keyword arguments")
        if is_name(f, "len") and len(a) == 1:
            b, t, ty = self.ex(a[0], env)
            if ty in ("WL", "LL", "LB", "LINES"):
                return b, "%s.length" % par(t), "N"
            if ty == "STRU":
                return b, t, "N"
            if ty == "OL":
                return b, None, "OPN"
            U(e, "len of a %s" % ty)
        if is_name(f, "int") and len(a) == 1:
            b, t, ty = self.ex(a[0], env)
            if ty != "T":
                U(e, "int() of a %s" % ty)
            i = self.tmp("i")
            return b + ["let %s ← pyInt %s" % (i, par(t))], i, "I"
        if is_name(f, "float") and len(a) == 1:
            b, t, ty = self.ex(a[0], env)
            if ty != "T":
                U(e, "float() of a %s" % ty)
            return b + ["pyFloat %s" % par(t)], None, "F"
        if is_name(f, "isfloat") and len(a) == 1:
            b, t, ty = self.ex(a[0], env)
            if ty != "T":
                U(e, "isfloat() of a %s" % ty)
            return b, "%s.flt" % par(t), "B"
        if is_name(f, "Structure") and not a:
            return [], "0", "STRU"
        if is_name(f, "StructureFormatError") and len(a) == 1:
            b, t, ty = self.ex(a[0], env)
            if ty != "S":
                U(e, "exception argument")
            return b, None, "EXC"
        if isinstance(f, ast.Attribute):
            if ast.unparse(f) == "sys.exc_info" and not a:
                return [], None, "S"
            if f.attr in ("strip", "upper", "lower", "lstrip", "rstrip") and not a:
                b, t, ty = self.ex(f.value, env)
                if ty in ("S", "LINE", "T"):
                    return b, None, "S"
                U(e, ".%s() of a %s" % (f.attr, ty))
            if f.attr == "with_traceback" and len(a) == 1:
                b, t, ty = self.ex(f.value, env)
                if ty == "EXC":
                    return b, None, "EXC"
        U(e, "call")

    def listcomp(self, e, env):
        if len(e.generators) != 1 or e.generators[0].ifs or e.generators[0].is_async or not is_name(e.generators[0].target):
            U(e, "comprehension")
        var = e.generators[0].target.id
        ib, it, ity = self.ex(e.generators[0].iter, env)
        el = e.elt
        if isinstance(el, ast.Call) and not el.keywords and len(el.args) == 1 and is_name(el.args[0], var):
            if is_name(el.func, "float") and ity == "WL":
                return ib + ["floats %s" % par(it)], None, "OL"
            if is_name(el.func, "isfloat") and ity == "WL":
                return ib, "(%s.map (fun f => f.flt))" % it, "LB"
            if isinstance(el.func, ast.Attribute) and el.func.attr == "split":
                pass
        if isinstance(el, ast.Call) and isinstance(el.func, ast.Attribute) and el.func.attr == "split" and not el.args and not el.keywords \
                and is_name(el.func.value, var) and ity == "LINES":
            return ib, it, "LL"
        U(e, "comprehension")

    # ---- conditions: -> (binds, Prop term) ----------------------------------------------------------------------
    def cond(self, c, env):
        if isinstance(c, ast.BoolOp):
            isor = isinstance(c.op, ast.Or)
            binds, acc = self.cond(c.values[0], env)
            for k, v in enumerate(c.values[1:]):
                saved = set(self.guard_pos)
                if not isor:
                    self.note_guard(c.values[k], env)
                vb, vt = self.cond(v, env)
                self.guard_pos = saved
                if not vb:
                    acc = "(%s %s %s)" % (acc, "∨" if isor else "∧", vt)
                else:
                    cv = self.tmp("c")
                    if isor:
                        binds.append("let %s ← (if %s then pure true else do" % (cv, acc))
                    else:
                        binds.append("let %s ← (if %s then do" % (cv, acc))
                    binds += ["  " + x for x in vb]
                    binds.append("  pure (decide (%s))%s" % (vt, ")" if isor else " else pure false)"))
                    acc = prop_of_bool(cv)
            return binds, acc
        if isinstance(c, ast.UnaryOp) and isinstance(c.op, ast.Not):
            b, t = self.cond(c.operand, env)
            return b, "¬(%s)" % t
        if isinstance(c, ast.Compare) and len(c.ops) == 1:
            return self.compare(c, env)
        b, t, ty = self.ex(c, env)
        if ty == "B":
            return b, prop_of_bool(par(t))
        U(c, "condition")

    def note_guard(self, c, env):
        """`V > E` with Nat operands: V is positive in what follows"""
        if isinstance(c, ast.Compare) and len(c.ops) == 1 and isinstance(c.ops[0], ast.Gt) and is_name(c.left) and c.left.id in env \
                and env[c.left.id].typ == "N":
            try:
                b, t, ty = self.ex(c.comparators[0], env)
            except pysrc.Untranslatable:  # noqa: F821
                return
            if ty == "N" and not b:
                self.guard_pos.add(c.left.id)

    def compare(self, c, env):
        op = c.ops[0]
        l, r = c.left, c.comparators[0]
        # str(int(w)) == w
        if isinstance(op, ast.Eq) and isinstance(l, ast.Call) and is_name(l.func, "str") and len(l.args) == 1 and not l.keywords \
                and isinstance(l.args[0], ast.Call) and is_name(l.args[0].func, "int") and len(l.args[0].args) == 1 \
                and is_name(l.args[0].args[0]) and is_name(r, l.args[0].args[0].id):
            b, t, ty = self.ex(l.args[0], env)
            v = self.lookup(r, env)
            if v.typ != "T":
                U(c, "canonical-int test of a %s" % v.typ)
            return b, prop_of_bool("%s.canon" % v.lean)
        if isinstance(op, (ast.Is, ast.IsNot)):
            if not (isinstance(r, ast.Constant) and r.value is None and is_name(l)):
                U(c, "identity test")
            v = self.lookup(l, env)
            if v.typ == "ON":
                return [], prop_of_bool("%s.%s" % (v.lean, "isSome" if isinstance(op, ast.IsNot) else "isNone"))
            if v.typ in ("N", "I"):
                return [], ("True" if isinstance(op, ast.IsNot) else "False")
            U(c, "identity test of a %s" % v.typ)
        if isinstance(op, (ast.In, ast.NotIn)):
            lb, lt, lty = self.ex(l, env)
            if lty != "N" or not isinstance(r, ast.Tuple) or not all(nat_const(x) for x in r.elts) or not r.elts:
                U(c, "membership test")
            t = "(%s)" % " ∨ ".join("%s = %d" % (par(lt), x.value) for x in r.elts)
            return lb, (t if isinstance(op, ast.In) else "¬%s" % t)
        lb, lt, lty = self.ex(l, env)
        # comparisons with literals
        if isinstance(r, ast.List) and not r.elts and lty == "WL" and isinstance(op, (ast.Eq, ast.NotEq)):
            t = prop_of_bool("%s.isEmpty" % par(lt))
            return lb, (t if isinstance(op, ast.Eq) else "¬(%s)" % t)
        if isinstance(r, ast.List) and lty == "LB" and isinstance(op, ast.Eq) \
                and all(isinstance(x, ast.Constant) and isinstance(x.value, bool) for x in r.elts):
            return lb, "%s = [%s]" % (lt, ", ".join("true" if x.value else "false" for x in r.elts))
        if isinstance(r, ast.Constant) and isinstance(r.value, str) and lty == "T" and isinstance(op, (ast.Eq, ast.NotEq)):
            if r.value != "#":
                U(c, "token compared with a string other than '#'")
            t = prop_of_bool("%s.isHash" % par(lt))
            return lb, (t if isinstance(op, ast.Eq) else "¬(%s)" % t)
        rb, rt, rty = self.ex(r, env)
        sym = {ast.Eq: "=", ast.NotEq: "≠", ast.Lt: "<", ast.LtE: "≤", ast.Gt: ">", ast.GtE: "≥"}.get(type(op))
        if sym is None:
            U(c, "comparison operator")
        if lty == "OPN" or rty == "OPN":
            if lb or rb:
                U(c, "comparison")
            return [], None           # pure, opaque (length of a float list)
        if lty == "N" and rty == "N":
            return lb + rb, "%s %s %s" % (par(lt), sym, par(rt))
        if {lty, rty} == {"N", "I"} or (lty == "I" and rty == "I"):
            lt2 = lt if lty == "I" else "(%s : Int)" % lt
            rt2 = rt if rty == "I" else "(%s : Int)" % rt
            return lb + rb, "%s %s %s" % (lt2, sym, rt2)
        U(c, "comparison of %s and %s" % (lty, rty))

    # ---- statements ------------------------------------------------------------------------------------------------
    def assign_to(self, name, term, typ, env, out, node):
        if name in PROTECTED:
            U(node, "rebinding of `%s`" % name)
        self.guard_pos.discard(name)
        if typ in OPAQUE or typ == "OPN":
            env[name] = Var(None, "S" if typ == "OPN" else typ)
            return
        if name in env and env[name].lean is not None:
            if env[name].typ != typ:
                U(node, "`%s` changes its type from %s to %s" % (name, env[name].typ, typ))
            out.append("%s := %s" % (env[name].lean, term))
        else:
            lean = "n_%s" % name if typ == "STRU" else "v_%s" % name
            out.append("let mut %s : %s := %s" % (lean, LEAN_TYPE[typ], term))
            env[name] = Var(lean, typ)

    def block(self, stmts, env, inloop=False):
        """-> (lines, terminates).  `env` is updated in place."""
        out = []
        for k, s in enumerate(stmts):
            later = set()
            for t in stmts[k + 1:]:
                later |= {n.id for n in ast.walk(t) if isinstance(n, ast.Name) and isinstance(n.ctx, ast.Load)}
            self.later_loads.append(later)
            try:
                term = self.stmt(s, env, out, inloop)
            finally:
                self.later_loads.pop()
            if term:
                if k != len(stmts) - 1:
                    U(stmts[k + 1], "statement after raise / return / break / continue")
                return out, True
        return out, False

    def live_after(self):
        s = set()
        for x in self.later_loads:
            s |= x
        return s

    def stmt(self, s, env, out, inloop):
        if isinstance(s, ast.Assign) and len(s.targets) == 1:
            tg = s.targets[0]
            if isinstance(tg, ast.Name):
                b, t, ty = self.ex(s.value, env)
                out += b
                self.assign_to(tg.id, t, ty, env, out, s)
                return False
            if isinstance(tg, ast.Tuple) and all(is_name(x) for x in tg.elts):
                if isinstance(s.value, ast.Tuple) and len(s.value.elts) == len(tg.elts):
                    vals = []
                    for v in s.value.elts:
                        if isinstance(v, ast.Constant) and v.value is None:
                            vals.append(([], "none", "ON"))
                        else:
                            vals.append(self.ex(v, env))
                    for (b, t, ty), x in zip(vals, tg.elts):
                        out += b
                        if x.id in env and env[x.id].typ == "ON" and ty == "N":
                            t, ty = "some %s" % par(t), "ON"
                        self.assign_to(x.id, t, ty, env, out, s)
                    return False
                b, t, ty = self.ex(s.value, env)
                if ty == "S" and isinstance(s.value, ast.Call) and ast.unparse(s.value.func) == "sys.exc_info":
                    for x in tg.elts:
                        self.assign_to(x.id, None, "S", env, out, s)
                    return False
                U(s, "tuple assignment")
            if isinstance(tg, ast.Attribute) and is_name(tg.value) and tg.value.id in env and env[tg.value.id].typ == "STRU":
                b, t, ty = self.ex(s.value, env)
                if ty not in OPAQUE:
                    U(s, "attribute value of type %s" % ty)
                out += b
                return False
            U(s, "assignment target")
        if isinstance(s, ast.AugAssign) and is_name(s.target):
            v = self.lookup(s.target, env)
            if v.typ != "N" or not nat_const(s.value):
                U(s, "augmented assignment")
            if isinstance(s.op, ast.Add):
                out.append("%s := %s + %d" % (v.lean, v.lean, s.value.value))
                return False
            U(s, "augmented assignment (a decrement is only read as part of `while V > E and C: V -= 1`)")
        if isinstance(s, ast.Expr) and isinstance(s.value, ast.Call):
            c = s.value
            f = c.func
            if isinstance(f, ast.Attribute) and is_name(f.value) and f.value.id in env:
                v = env[f.value.id]
                if v.typ == "STRU" and f.attr == "addNewAtom" and len(c.args) == 1 and len(c.keywords) == 1 and c.keywords[0].arg == "xyz":
                    b1, t1, ty1 = self.ex(c.args[0], env)
                    b2, t2, ty2 = self.ex(c.keywords[0].value, env)
                    if ty1 not in ("S", "T") or ty2 != "OL":
                        U(s, "addNewAtom arguments of types %s, %s" % (ty1, ty2))
                    out += b1 + b2
                    out.append("%s := %s + 1" % (v.lean, v.lean))
                    return False
                if v.typ == "OL" and f.attr == "append" and len(c.args) == 1 and not c.keywords \
                        and isinstance(c.args[0], ast.Constant) and isinstance(c.args[0].value, float):
                    return False
            U(s, "call statement")
        if isinstance(s, ast.If):
            return self.if_stmt(s, env, out, inloop)
        if isinstance(s, ast.For):
            return self.for_stmt(s, env, out)
        if isinstance(s, ast.While):
            return self.while_stmt(s, env, out)
        if isinstance(s, ast.Try):
            return self.try_stmt(s, env, out)
        if isinstance(s, ast.Raise):
            out.append("raise %s" % self.raise_kind(s, env, out))
            return True
        if isinstance(s, ast.Return):
            if s.value is None or (is_name(s.value) and s.value.id in env and env[s.value.id].typ == "STRU"):
                if self.nesting:
                    U(s, "return inside a loop or try body")
                out.append("return ()")
                return True
            U(s, "return value")
        if isinstance(s, ast.Break) and inloop:
            out.append("break")
            return True
        if isinstance(s, ast.Continue) and inloop:
            out.append("continue")
            return True
        if isinstance(s, ast.Pass):
            return False
        U(s, "statement")

    nesting = 0

    def raise_kind(self, s, env, out):
        if s.cause is not None or s.exc is None:
            U(s, "raise form")
        x = s.exc
        if isinstance(x, ast.Call) and is_name(x.func) and x.func.id in ("StructureFormatError", "NotImplementedError") and len(x.args) == 1 \
                and not x.keywords:
            b, t, ty = self.ex(x.args[0], env)
            if ty != "S":
                U(s, "exception argument")
            out += b
            return ".SFE" if x.func.id == "StructureFormatError" else ".NotImpl"
        b, t, ty = self.ex(x, env)
        if ty == "EXC":
            out += b
            return ".SFE"
        U(s, "raise of something that is not a StructureFormatError")

    def if_stmt(self, s, env, out, inloop):
        cb, c = self.cond(s.test, env)
        if c is None:
            # pure opaque test: the statement may be dropped when its branches emit nothing
            e1 = dict(env)
            snap = self.snapshot()
            l1, t1 = self.block(s.body, e1, inloop)
            l2, t2 = self.block(s.orelse, dict(env), inloop) if s.orelse else ([], False)
            if l1 or l2 or t1 or t2:
                self.restore(snap)
                U(s, "test on the length of a float list guards a statement that is not dropped")
            return False
        # first pass: which new variables do both surviving branches define, and with which types
        snap = self.snapshot()
        ea, eb = dict(env), dict(env)
        la, ta = self.block(s.body, ea, inloop)
        lb, tb = self.block(s.orelse, eb, inloop) if s.orelse else ([], False)
        self.restore(snap)
        surv = [e for e, t in ((ea, ta), (eb, tb)) if not t]
        new = {}
        for name in ea.keys() | eb.keys():
            if name in env:
                continue
            if surv and all(name in e for e in surv):
                tys = {e[name].typ for e in surv}
                if len(tys) == 1:
                    new[name] = tys.pop()
                elif tys == {"ON", "N"}:
                    new[name] = "ON"
        for name in sorted(new):
            ty = new[name]
            if ty in OPAQUE:
                env[name] = Var(None, ty)
            else:
                lean = "v_%s" % name
                out.append("let mut %s : %s := %s" % (lean, LEAN_TYPE[ty], DEFAULT[ty]))
                env[name] = Var(lean, ty)
        out += cb
        ea, eb = dict(env), dict(env)
        la, ta = self.block(s.body, ea, inloop)
        lb, tb = self.block(s.orelse, eb, inloop) if s.orelse else ([], False)
        if not la and not lb and not cb:
            pass
        else:
            out.append("if %s then" % c)
            out += ["  " + x for x in (la or ["pure ()"])]
            if lb:
                out.append("else")
                out += ["  " + x for x in lb]
        # variables that only one surviving branch defines are not visible afterwards
        for name in list(env):
            for e, t in ((ea, ta), (eb, tb)):
                if not t and name in e and e[name].typ != env[name].typ:
                    U(s, "`%s` has different types in the branches" % name)
        return ta and tb and bool(s.orelse)

    def reads(self, lines, env, exclude=()):
        text = "\n".join(lines)
        ps = []
        for name, v in env.items():
            if v.lean and v.lean not in exclude and re.search(r"(?<![\w'.])%s(?![\w'])" % re.escape(v.lean), text) and v.lean not in [p.lean for p in ps]:
                ps.append(v)
        return ps

    def assigned_names(self, stmts):
        s = []
        for st in stmts:
            for n in ast.walk(st):
                if isinstance(n, ast.Name) and isinstance(n.ctx, ast.Store) and n.id not in s:
                    s.append(n.id)
                if isinstance(n, ast.Call) and isinstance(n.func, ast.Attribute) and is_name(n.func.value) and n.func.attr == "addNewAtom" \
                        and n.func.value.id not in s:
                    s.append(n.func.value.id)
        return s

    def sub_def(self, name, doc, params, state, body_lines, iter_param=None):
        """auxiliary definition: parameters `params` (Vars), mutable state `state` (Vars), result = tuple of the state"""
        sig = []
        if iter_param:
            sig.append("(it : %s)" % iter_param)
        allp = list(params) + [v for v in state if v.lean not in [p.lean for p in params]]
        sig += ["(%s : %s)" % (v.lean, LEAN_TYPE[v.typ]) for v in allp]
        ret = " × ".join(LEAN_TYPE[v.typ] for v in state) if state else "Unit"
        lines = ["/-- %s -/" % doc, "def %s %s : M (%s) := do" % (name, " ".join(sig), ret)]
        for v in state:
            lines.append("  let mut %s := %s" % (v.lean, v.lean))
        lines += ["  " + x for x in body_lines]
        lines.append("  pure (%s)" % (", ".join(v.lean for v in state) if state else "()"))
        self.aux.append("\n".join(lines) + "\n\n")
        return " ".join(v.lean for v in allp)

    def for_stmt(self, s, env, out):
        if s.orelse or not is_name(s.target):
            U(s, "for statement")
        ib, it, ity = self.ex(s.iter, env)
        if ity != "LL":
            U(s, "loop over a %s" % ity)
        out += ib
        self.nfor += 1
        name = "%s_for%d" % (self.prefix, self.nfor)
        benv = dict(env)
        var = "v_%s" % s.target.id
        benv[s.target.id] = Var(var, "WL")
        self.nesting += 1
        try:
            lines, _ = self.block(s.body, benv, inloop=True)
        finally:
            self.nesting -= 1
        state = [env[n] for n in self.assigned_names(s.body) if n in env and env[n].lean]
        live = self.live_after()
        if s.target.id in live or s.target.id in env:
            U(s, "loop variable `%s` is a local that is read elsewhere" % s.target.id)
        for n in self.assigned_names(s.body) + [s.target.id]:
            if n not in env and n in live and n in benv and benv[n].lean:
                U(s, "`%s` is first bound inside the loop and read after it" % n)
        params = [v for v in self.reads(lines, env) if v.lean not in [x.lean for x in state]]
        body = ["for %s in it do" % var] + ["  " + x for x in (lines or ["pure ()"])]
        args = self.sub_def(name, "`%s`" % " ".join(ast.unparse(s).split("\n")[0].split()), params, state, body, iter_param=LEAN_TYPE["LL"])
        callee = "%s %s %s" % (name, par(it), args)
        self.emit_call(out, state, callee.strip())
        for n in self.assigned_names(s.body):
            self.guard_pos.discard(n)
        return False

    def emit_call(self, out, state, callee):
        if not state:
            out.append(callee)
        elif len(state) == 1:
            out.append("%s ← %s" % (state[0].lean, callee))
        else:
            out.append("(%s) ← %s" % (", ".join(v.lean for v in state), callee))

    def while_stmt(self, s, env, out):
        t = s.test
        ok = (not s.orelse and isinstance(t, ast.BoolOp) and isinstance(t.op, ast.And) and len(t.values) >= 2
              and isinstance(t.values[0], ast.Compare) and len(t.values[0].ops) == 1 and isinstance(t.values[0].ops[0], ast.Gt)
              and is_name(t.values[0].left) and len(s.body) == 1 and isinstance(s.body[0], ast.AugAssign)
              and isinstance(s.body[0].op, ast.Sub) and is_name(s.body[0].target, t.values[0].left.id)
              and nat_const(s.body[0].value) and s.body[0].value.value == 1)
        if not ok:
            U(s, "while loop that is not `while V > E and C: V -= 1`")
        vname = t.values[0].left.id
        v = self.lookup(t.values[0].left, env)
        eb, et, ety = self.ex(t.values[0].comparators[0], env)
        if v.typ != "N" or ety != "N" or eb or re.search(r"(?<![\w'.])%s(?![\w'])" % re.escape(v.lean), et):
            U(s, "while loop bound")
        saved = set(self.guard_pos)
        self.guard_pos.add(vname)
        rest = t.values[1] if len(t.values) == 2 else ast.BoolOp(op=ast.And(), values=t.values[1:])
        cb, c = self.cond(rest, env)
        self.guard_pos = saved
        if c is None:
            U(s, "while test")
        out.append("%s ← whileDec %s (fun %s => do" % (v.lean, par(et), v.lean))
        out += ["    " + x for x in cb]
        out.append("    pure (decide (%s))) (%s - %s) %s" % (c, v.lean, par(et), v.lean))
        return False

    def try_stmt(self, s, env, out):
        if s.orelse or s.finalbody or len(s.handlers) != 1:
            U(s, "try statement with else / finally / several handlers")
        if self.nesting:
            U(s, "try statement inside a loop or another try body")
        h = s.handlers[0]
        kinds = []
        for nm in self.hm.handler_names(h):
            for k in self.hm.kinds_of(nm):
                if k not in kinds:
                    kinds.append(k)
        # the body
        self.ntry += 1
        name = "%s_try%d" % (self.prefix, self.ntry)
        benv = dict(env)
        self.nesting += 1
        try:
            lines, term = self.block(s.body, benv)
        finally:
            self.nesting -= 1
        live = self.live_after()
        assigned = self.assigned_names(s.body)
        state_names = [n for n in assigned if n in live and ((n in benv and benv[n].lean) or (n in env and env[n].lean))]
        for n in state_names:
            if n not in benv or (term and n not in env):
                U(s, "`%s` may be unbound after the try statement" % n)
        # handler: message building and `raise StructureFormatError`
        henv = dict(env)
        # locals bound by the leading simple assignments of the body are bound in the handler whenever it runs
        for st in s.body:
            if isinstance(st, ast.Assign) and len(st.targets) == 1 and is_name(st.targets[0]) and is_name(st.value) and st.value.id in env:
                henv[st.targets[0].id] = benv.get(st.targets[0].id, env[st.value.id])
            else:
                break
        hout = []
        if h.name is not None:
            U(h, "handler that binds the exception")
        self.nesting += 1
        try:
            hl, hterm = self.block(h.body, henv)
        finally:
            self.nesting -= 1
        if not hterm or hl != ["raise .SFE"]:
            U(h, "handler body that is not `<build the message>; raise StructureFormatError`")
        # predeclare new state variables
        state = []
        for n in state_names:
            if n not in env or env[n].lean is None:
                ty = benv[n].typ
                lean = benv[n].lean
                out.append("let mut %s : %s := %s" % (lean, LEAN_TYPE[ty], DEFAULT[ty]))
                env[n] = Var(lean, ty)
            state.append(env[n])
        # inside the definition the new state variables are declared by the body itself: drop their declarations' `let mut` clash
        body = []
        declared = {v.lean for v in state}
        for ln in lines:
            m = re.match(r"^(\s*)let mut (\S+) : [^:]*? := (.*)$", ln)
            if m and m.group(2) in declared and not ln.startswith(" "):
                body.append("%s%s := %s" % (m.group(1), m.group(2), m.group(3)))
            else:
                body.append(ln)
        params = [v for v in self.reads(lines, env) if v.lean not in declared]
        args = self.sub_def(name, "body of the `try` at line %d of parseLines (handler: %s)" % (
            s.lineno, ", ".join(self.hm.handler_names(h))), params, state, body)
        self.aux.append("/-- exception kinds of `except %s` at that `try` (translate/handlers.py `kinds_of`) -/\ndef %s_handler : List Kind := [%s]\n\n" % (
            ast.unparse(h.type) if h.type is not None else "", name, ", ".join("." + k for k in kinds)))
        callee = "tryExcept %s_handler (%s %s)" % (name, name, args)
        self.emit_call(out, state, callee)
        for n in assigned:
            self.guard_pos.discard(n)
            if n in benv and n not in env and benv[n].lean is None:
                pass
        return False


def par(s):
    s = s.strip()
    if re.fullmatch(r"[\w.']+", s):
        return s
    if s[0] == "(" and s[-1] == ")":
        d = 0
        for k, ch in enumerate(s):
            d += ch == "("
            d -= ch == ")"
            if d == 0 and k != len(s) - 1:
                break
        else:
            return s
    return "(%s)" % s


def load_handlers():
    import importlib.util
    spec = importlib.util.spec_from_file_location("translate_handlers_for_readers", os.path.join(os.path.dirname(os.path.abspath(__file__)), "handlers.py"))
    mod = importlib.util.module_from_spec(spec)
    spec.loader.exec_module(mod)
    return mod


def module_checks(tree, cls, uses_isfloat, REPO):
    """where the free names of the method come from"""
    origins = {}
    for n in tree.body:
        if isinstance(n, ast.ImportFrom):
            for a in n.names:
                origins[a.asname or a.name] = "%s.%s" % (n.module, a.name)
        elif isinstance(n, ast.Import):
            for a in n.names:
                origins[a.asname or a.name] = a.name
        elif isinstance(n, (ast.FunctionDef, ast.ClassDef)):
            origins[n.name] = "local"
        elif isinstance(n, ast.Assign):
            for t in n.targets:
                for x in ast.walk(t):
                    if isinstance(x, ast.Name):
                        origins[x.id] = "local"
    want = {"Structure": "diffpy.structure.Structure", "StructureFormatError": "diffpy.structure.structureerrors.StructureFormatError",
            "sys": "sys"}
    if uses_isfloat:
        want["isfloat"] = "diffpy.structure.utils.isfloat"
    for k, v in want.items():
        if origins.get(k) != v:
            raise pysrc.Untranslatable("`%s` is bound to %r, expected %s" % (k, origins.get(k), v))  # noqa: F821
    for b in ("len", "int", "float", "str", "NotImplementedError"):
        if b in origins:
            raise pysrc.Untranslatable("the module rebinds the builtin `%s`" % b)  # noqa: F821
    if uses_isfloat:
        path = os.path.join(REPO, "src", "diffpy", "structure", "utils.py")
        ut = ast.parse(open(path, encoding="utf-8").read())
        f = pysrc.find_func(ut.body, "isfloat")  # noqa: F821
        if f is None or [a.arg for a in f.args.args] != ["s"]:
            raise pysrc.Untranslatable("utils.isfloat not found")  # noqa: F821
        body = "\n".join(ast.unparse(x) for x in strip_doc(f.body))
        if body != ISFLOAT_BODY:
            raise pysrc.Untranslatable("utils.isfloat is not `float(s)` under `except ValueError`: %s" % " ".join(body.split())[:100])  # noqa: F821


def translate_parser(fname, clsname, prefix, REPO, hm):
    path = os.path.join(REPO, "src", "diffpy", "structure", "parsers", fname)
    try:
        tree = ast.parse(open(path, encoding="utf-8").read())
    except (OSError, SyntaxError) as e:
        raise pysrc.Untranslatable("%s: %s" % (fname, e))  # noqa: F821
    cls = pysrc.find_class(tree, clsname)  # noqa: F821
    fn = pysrc.find_func(cls.body, "parseLines")  # noqa: F821
    if fn is None:
        raise pysrc.Untranslatable("%s.parseLines not found" % clsname)  # noqa: F821
    if sum(1 for n in cls.body if isinstance(n, ast.FunctionDef) and n.name == "parseLines") != 1:
        raise pysrc.Untranslatable("%s.parseLines defined more than once" % clsname)  # noqa: F821
    a = fn.args
    if a.vararg or a.kwarg or a.kwonlyargs or a.posonlyargs or a.defaults or fn.decorator_list or [x.arg for x in a.args][:1] != ["self"] \
            or len(a.args) != 2:
        raise pysrc.Untranslatable("signature of parseLines: %s" % ast.unparse(a))  # noqa: F821
    for n in ast.walk(fn):
        if isinstance(n, (ast.Global, ast.Nonlocal, ast.Lambda, ast.FunctionDef)) and n is not fn:
            U(n, "nested scope / global statement")
        if isinstance(n, ast.Name) and isinstance(n.ctx, (ast.Store, ast.Del)) and n.id in PROTECTED:
            U(n, "rebinding of `%s`" % n.id)
    uses_isfloat = any(is_name(n, "isfloat") for n in ast.walk(fn))
    module_checks(tree, cls, uses_isfloat, REPO)
    lines_name = a.args[1].arg
    tr = Fn("%s_parseLines" % prefix, hm)
    env = {lines_name: Var("v_%s" % lines_name, "LINES")}
    body, term = tr.block(strip_doc(fn.body), env)
    if not term:
        U(fn, "parseLines may fall off its end")
    text = "".join(tr.aux)
    text += "/-- `%s.parseLines` of parsers/%s, over the abstract document -/\ndef %s_parseLines (d : XyzDoc) : M Unit := do\n" % (clsname, fname, prefix)
    text += "  let v_%s := d.lines\n" % lines_name
    text += "\n".join("  " + x for x in body) + "\n\n"
    return text


# =====================================================================================================================
# P_discus.parseLines (parsers/p_discus.py): a parser object with record helper methods, a shared line iterator and a
# dispatch dictionary.  Conventions in addition to the ones above (trusted base):
#
#   abstract document   `DiscusDoc`: per text line a `Line` with `words` = `line.split()`, `cwords` =
#                       `line.replace(",", " ").split()` (also `" ".join(line.split()).replace(",", " ").split()`), `lat` = the
#                       outcome of `self.stru.lattice.setLatPar(*[float(w) for w in cwords[1:7]])` on that line (oracle field),
#                       and `superLat` = the outcome of `Lattice(*superlatpars)` (harness/c13_abs.py `alpha_discus`).
#   the iterator        `ilines = self._linesIterator()`: the body of `_linesIterator` is compared with the expected text
#                       (trailing blank lines cut, `self.nl` counted, `self.line` bound) = `stripTrailing Line.blank d.lines`.
#                       `for self.line in ilines: BODY [else: E]` over the SHARED iterator is a structural recursion over the
#                       remaining lines: `continue` / end of BODY = the recursive call on the tail, `break` = return of the state
#                       and of the remaining lines (the next loop over `ilines` continues there), exhaustion = `E`.
#   parser state        `self.cell_read`, `self.ncell_read` (both `False` in `__init__`, checked) and
#                       `self.stru.pdffit["ncell"]` (`[1, 1, 1, 0]` in a fresh `PDFFitStructure`, checked in
#                       pdffitstructure.py) are the fields of `st : DState`; `len(self.stru)` is the counter `n_stru`;
#                       `self.nl` is an int that is only formatted; other `self.stru.pdffit[<literal>] = v`,
#                       `self.stru.title = v`, `self.ignored_lines.append(..)`, `a = self.stru.getLastAtom()`,
#                       `a.Bisoequiv = <float>` evaluate their operands only.
#   tokens              `w == "<keyword>"` = `w.kw = .<keyword>` (the keywords of `Kw`; any other literal is rejected),
#                       `w[0] == "#"` = `w.hash`.
#   helpers             every `_parse_*` method `(self, words)` becomes `discus_<name> v_line v_words st n_stru` returning the
#                       state; `rp = record_parsers.get(words[0], D); rp(words)` is a `match` on the keyword of `words[0]`
#                       with one arm per key of the dictionary literal `record_parsers` and the default arm `D`.
#   numeric blocks      `reduce(lambda x, y: x * y, L, 1)` = `pyProduct true L`; the supercell block (compared with the
#                       expected text) = `superStep 6 ncell i` for `i in range(3)` (`list(abcABG())` has six entries) followed
#                       by the oracle `d.superLat.run`; `placeInLattice` of a constructed lattice does not raise.
# =====================================================================================================================

KWS = ("title", "scale", "sharp", "spcgr", "shape", "cell", "dcell", "ncell", "format", "atoms", "pdffit", "sphere", "stepcut",
       "generator", "molecule", "symmetry")


def _canon(text):
    return ast.unparse(ast.parse(text))


LINESITER_BODY = _canon('''
stop = len(self.lines)
while stop > 0 and self.lines[stop - 1].strip() == "":
    stop -= 1
self.nl = 0
for self.line in self.lines[:stop]:
    self.nl += 1
    yield self.line
pass
''')
SUPER_BODY = _canon('''
latpars = list(self.stru.lattice.abcABG())
superlatpars = [latpars[i] * self.stru.pdffit["ncell"][i] for i in range(3)] + latpars[3:]
superlattice = Lattice(*superlatpars)
self.stru.placeInLattice(superlattice)
self.stru.pdffit["ncell"] = [1, 1, 1, exp_natoms]
''')
SUPER_TEST = _canon('self.stru.pdffit["ncell"][:3] != [1, 1, 1]')
REDUCE_1 = _canon('reduce(lambda x, y: x * y, self.stru.pdffit["ncell"], 1)')
REDUCE_0 = _canon('reduce(lambda x, y: x * y, self.stru.pdffit["ncell"])')
STATE_SIG = "(v_line : Line) (v_words : List Tok) (st : DState) (n_stru : Nat)"
PSTATE_SIG = "(v_line : Line) (st : PState) (n_stru : Nat)"


class DVar:
    def __init__(self, lean, typ, origin=None):
        self.lean, self.typ, self.origin = lean, typ, origin


def is_self_attr(n, *path):
    """n is `self.a.b…`"""
    for p in reversed(path):
        if not (isinstance(n, ast.Attribute) and n.attr == p):
            return False
        n = n.value
    return is_name(n, "self")


def is_pdffit_item(n, key=None):
    return isinstance(n, ast.Subscript) and is_self_attr(n.value, "stru", "pdffit") and isinstance(n.slice, ast.Constant) \
        and isinstance(n.slice.value, str) and (key is None or n.slice.value == key)


class Discus:
    def __init__(self, cls, hm, prefix="discus"):
        self.cls, self.hm, self.prefix = cls, hm, prefix
        self.defs = []           # emitted definitions, in order
        self.helpers = {}        # method name -> origin of its `words` argument
        self.ntmp = 0
        self.nfor = 0
        self.ntry = 0
        self.handlers = {}
        self.ltypes = {}         # python local -> the types of the values ever assigned to it

    def tmp(self, p):
        self.ntmp += 1
        return "%s%d" % (p, self.ntmp)

    def method(self, name):
        fs = [n for n in self.cls.body if isinstance(n, ast.FunctionDef) and n.name == name]
        if len(fs) != 1:
            raise pysrc.Untranslatable("method %s defined %d times" % (name, len(fs)))  # noqa: F821
        f = fs[0]
        a = f.args
        if a.vararg or a.kwarg or a.kwonlyargs or a.posonlyargs or a.defaults or f.decorator_list:
            U(f, "signature")
        for n in ast.walk(f):
            if isinstance(n, (ast.Global, ast.Nonlocal, ast.FunctionDef, ast.ClassDef)) and n is not f:
                U(n, "nested scope / global statement")
            if isinstance(n, ast.Name) and isinstance(n.ctx, (ast.Store, ast.Del)) and (n.id in PROTECTED or n.id in ("self", "reduce", "Lattice", "PDFFitStructure")):
                U(n, "rebinding of `%s`" % n.id)
        return f

    # ---- expressions ---------------------------------------------------------------------------------------------------
    def ex(self, e, env):
        """-> (binds, term|None, type, origin)"""
        if isinstance(e, ast.Constant):
            if nat_const(e):
                return [], str(e.value), "N", None
            if isinstance(e.value, str):
                return [], None, "S", None
            if isinstance(e.value, bool):
                return [], "true" if e.value else "false", "B", None
            U(e, "constant")
        if isinstance(e, ast.Name):
            if e.id not in env:
                U(e, "name that may be unbound here")
            v = env[e.id]
            return [], v.lean, v.typ, v.origin
        if is_self_attr(e, "line"):
            return [], "v_line", "LINE", None
        if is_self_attr(e, "nl"):
            return [], None, "NL", None
        if is_self_attr(e, "cell_read"):
            return [], "st.cellRead", "B", None
        if is_self_attr(e, "ncell_read"):
            return [], "st.ncellRead", "B", None
        if is_pdffit_item(e, "ncell"):
            return [], "st.ncell", "LI", None
        if isinstance(e, ast.Subscript):
            return self.subscript(e, env)
        if isinstance(e, ast.Call):
            return self.call(e, env)
        if isinstance(e, ast.BinOp):
            if isinstance(e.op, ast.Mod):
                return self.format(e, env)
            lb, l, lt, _ = self.ex(e.left, env)
            rb, r, rt, _ = self.ex(e.right, env)
            if isinstance(e.op, ast.Add) and lt == "S" and rt == "S":
                return lb + rb, None, "S", None
            U(e, "operator on %s, %s" % (lt, rt))
        if isinstance(e, ast.ListComp):
            if len(e.generators) != 1 or e.generators[0].ifs or e.generators[0].is_async or not is_name(e.generators[0].target):
                U(e, "comprehension")
            var = e.generators[0].target.id
            ib, it, ity, io = self.ex(e.generators[0].iter, env)
            el = e.elt
            if isinstance(el, ast.Call) and not el.keywords and len(el.args) == 1 and is_name(el.args[0], var) and ity == "WL":
                if is_name(el.func, "float"):
                    return ib + ["floats %s" % par(it)], None, "OL", ((io or (None, None, None)) + (it,))
                if is_name(el.func, "int"):
                    v = self.tmp("l")
                    return ib + ["let %s ← ints %s" % (v, par(it))], v, "LI", None
            U(e, "comprehension")
        U(e, "expression")

    def subscript(self, e, env):
        bb, base, bt, bo = self.ex(e.value, env)
        sl = e.slice
        if isinstance(sl, ast.Slice):
            if sl.step is not None or not all(x is None or nat_const(x) for x in (sl.lower, sl.upper)):
                U(e, "slice")
            lo = sl.lower.value if sl.lower is not None else None
            hi = sl.upper.value if sl.upper is not None else None
            if bt in ("T", "S", "LINE"):
                return bb, None, "S", None
            if bt in ("WL", "LI"):
                t = base
                if hi is not None:
                    t = "(%s.take %d)" % (t, hi)
                if lo is not None:
                    t = "(%s.drop %d)" % (t, lo)
                return bb, t, bt, ((bo, lo, hi) if bt == "WL" else None)
            U(e, "slice of a %s" % bt)
        if not nat_const(sl):
            U(e, "index that is not a literal")
        if bt == "T":
            if sl.value != 0:
                U(e, "character of a token other than the first")
            return bb, None, "S", None
        if bt == "WL":
            t = self.tmp("t")
            return bb + ["let %s ← idx %s %d" % (t, base, sl.value)], t, "T", None
        U(e, "index into a %s" % bt)

    def format(self, e, env):
        if not (isinstance(e.left, ast.Constant) and isinstance(e.left.value, str)):
            U(e, "format string")
        specs = [s for s in re.findall(r"%(?:[-+ #0]*\d*(?:\.\d+)?)([a-zA-Z%])", e.left.value) if s != "%"]
        args = e.right.elts if isinstance(e.right, ast.Tuple) else [e.right]
        if len(specs) != len(args):
            U(e, "format with %d specifiers and %d arguments" % (len(specs), len(args)))
        binds = []
        for s, a in zip(specs, args):
            b, t, ty, _ = self.ex(a, env)
            binds += b
            if s in "di" and ty not in ("N", "I", "NL"):
                U(e, "%%%s argument of type %s" % (s, ty))
            if s not in "disr" or ty not in ("N", "I", "NL", "S", "T"):
                U(e, "conversion %%%s of a %s" % (s, ty))
        return binds, None, "S", None

    def call(self, e, env):
        f, a = e.func, e.args
        if e.keywords:
            U(e, "keyword arguments")
        text = ast.unparse(e)
        if text == REDUCE_1 or text == REDUCE_0:
            v = self.tmp("p")
            return ["let %s ← pyProduct %s st.ncell" % (v, "true" if text == REDUCE_1 else "false")], v, "I", None
        if is_name(f, "len") and len(a) == 1 and is_self_attr(a[0], "stru"):
            return [], "n_stru", "N", None
        if is_name(f, "float") and len(a) == 1:
            b, t, ty, _ = self.ex(a[0], env)
            if ty != "T":
                U(e, "float() of a %s" % ty)
            return b + ["pyFloat %s" % par(t)], None, "F", None
        if is_name(f, "StructureFormatError") and len(a) == 1:
            b, t, ty, _ = self.ex(a[0], env)
            if ty != "S":
                U(e, "exception argument")
            return b, None, "EXC", None
        if isinstance(f, ast.Attribute):
            if ast.unparse(f) == "sys.exc_info" and not a:
                return [], None, "S", None
            if ast.unparse(f) == "self.stru.getLastAtom" and not a:
                return [], None, "ATOM", None
            if f.attr == "with_traceback" and len(a) == 1:
                b, t, ty, _ = self.ex(f.value, env)
                if ty == "EXC":
                    return b, None, "EXC", None
            if f.attr == "split" and not a:
                b, t, ty, o = self.ex(f.value, env)
                if ty == "LINE":
                    return b, "%s.words" % t, "WL", ("words" if t == "v_line" else None)
                if ty == "CLINE":
                    return b, "%s.cwords" % (o or "v_line"), "WL", ("cwords" if (o or "v_line") == "v_line" else None)
                U(e, ".split() of a %s" % ty)
            if f.attr == "replace" and len(a) == 2 and all(isinstance(x, ast.Constant) for x in a) and (a[0].value, a[1].value) == (",", " "):
                b, t, ty, o = self.ex(f.value, env)
                if ty in ("LINE", "JLINE"):
                    return b, None, "CLINE", (t if ty == "LINE" else "v_line")
                U(e, ".replace() of a %s" % ty)
            if f.attr == "join" and len(a) == 1 and isinstance(f.value, ast.Constant) and isinstance(f.value.value, str):
                b, t, ty, o = self.ex(a[0], env)
                if ty != "WL":
                    U(e, "join of a %s" % ty)
                if f.value.value == " " and o == "words":
                    return b, None, "JLINE", None      # the whitespace-normalised line
                return b, None, "S", None
            if f.attr in ("strip", "upper", "lower", "lstrip", "rstrip") and not a:
                b, t, ty, _ = self.ex(f.value, env)
                if ty in ("S", "LINE", "T"):
                    return b, None, "S", None
                U(e, ".%s() of a %s" % (f.attr, ty))
        U(e, "call")

    # ---- conditions ----------------------------------------------------------------------------------------------------
    def cond(self, c, env):
        if isinstance(c, ast.BoolOp) and len(c.values) == 2:
            isor = isinstance(c.op, ast.Or)
            binds, acc = self.cond(c.values[0], env)
            vb, vt = self.cond(c.values[1], env)
            if not vb:
                return binds, "(%s %s %s)" % (acc, "∨" if isor else "∧", vt)
            cv = self.tmp("c")
            if isor:
                binds.append("let %s ← (if %s then pure true else do" % (cv, acc))
            else:
                binds.append("let %s ← (if %s then do" % (cv, acc))
            binds += ["  " + x for x in vb]
            binds.append("  pure (decide (%s))%s" % (vt, ")" if isor else " else pure false)"))
            return binds, prop_of_bool(cv)
        if isinstance(c, ast.UnaryOp) and isinstance(c.op, ast.Not):
            if isinstance(c.operand, (ast.Compare, ast.BoolOp, ast.UnaryOp)):
                b, t = self.cond(c.operand, env)
                return b, "¬(%s)" % t
            b, t, ty, _ = self.ex(c.operand, env)
            if ty == "WL":
                return b, prop_of_bool("%s.isEmpty" % par(t))
            if ty == "B":
                return b, "¬(%s)" % prop_of_bool(par(t))
            U(c, "negation of a %s" % ty)
        if isinstance(c, ast.Compare) and len(c.ops) == 1:
            op, l, r = c.ops[0], c.left, c.comparators[0]
            if ast.unparse(c) == SUPER_TEST:
                return [], "st.ncell.take 3 ≠ [1, 1, 1]"
            if isinstance(r, ast.Constant) and isinstance(r.value, str) and isinstance(op, (ast.Eq, ast.NotEq)):
                # token[0] == "#"  /  token == "<keyword>"
                if isinstance(l, ast.Subscript) and nat_const(l.slice) and l.slice.value == 0 and r.value == "#":
                    b, t, ty, _ = self.ex(l.value, env)
                    if ty == "T":
                        p = prop_of_bool("%s.hash" % t)
                        return b, (p if isinstance(op, ast.Eq) else "¬(%s)" % p)
                b, t, ty, _ = self.ex(l, env)
                if ty != "T" or r.value not in KWS:
                    U(c, "comparison of a %s with the string %r" % (ty, r.value))
                return b, "%s.kw %s .%s" % (t, "=" if isinstance(op, ast.Eq) else "≠", r.value)
            lb, lt, lty, _ = self.ex(l, env)
            rb, rt, rty, _ = self.ex(r, env)
            sym = {ast.Eq: "=", ast.NotEq: "≠"}.get(type(op))
            if sym and {lty, rty} == {"I", "N"}:
                lt2 = lt if lty == "I" else "(%s : Int)" % lt
                rt2 = rt if rty == "I" else "(%s : Int)" % rt
                return lb + rb, "%s %s %s" % (lt2, sym, rt2)
            U(c, "comparison of %s and %s" % (lty, rty))
        b, t, ty, _ = self.ex(c, env)
        if ty == "B":
            return b, prop_of_bool(par(t))
        U(c, "condition")

    # ---- statements ----------------------------------------------------------------------------------------------------
    def block(self, stmts, env, loop=None, inhelper=False):
        out = []
        for k, s in enumerate(stmts):
            if self.stmt(s, env, out, loop, inhelper):
                if k != len(stmts) - 1:
                    U(stmts[k + 1], "statement after raise / return / break / continue")
                return out, True
        return out, False

    def assign_local(self, name, term, typ, origin, env, out, node):
        if name in PROTECTED or name in ("self", "reduce", "Lattice", "PDFFitStructure"):
            U(node, "rebinding of `%s`" % name)
        self.ltypes.setdefault(name, set()).add(typ)
        if term is None:
            env[name] = DVar(None, typ, origin)
            return
        lt = {"WL": "List Tok", "T": "Tok", "LI": "List Int", "I": "Int", "N": "Nat", "B": "Bool"}.get(typ)
        if lt is None:
            U(node, "local of type %s" % typ)
        if name in env and env[name].lean is not None:
            if env[name].typ != typ:
                U(node, "`%s` changes its type" % name)
            out.append("%s := %s" % (env[name].lean, term))
            env[name] = DVar(env[name].lean, typ, origin)
        else:
            out.append("let mut v_%s : %s := %s" % (name, lt, term))
            env[name] = DVar("v_%s" % name, typ, origin)

    def stmt(self, s, env, out, loop, inhelper):
        if isinstance(s, ast.Assign) and len(s.targets) == 1:
            tg = s.targets[0]
            if isinstance(tg, ast.Tuple) and all(is_name(x) for x in tg.elts) and isinstance(s.value, ast.Call) \
                    and ast.unparse(s.value) == "sys.exc_info()":
                for x in tg.elts:
                    self.assign_local(x.id, None, "S", None, env, out, s)
                return False
            if isinstance(tg, ast.Name):
                b, t, ty, o = self.ex(s.value, env)
                out += b
                if ty in ("S", "F", "OL", "EXC", "ATOM", "JLINE", "CLINE", "NL"):
                    t = None
                self.assign_local(tg.id, t, ty, o, env, out, s)
                return False
            if is_self_attr(tg, "cell_read") or is_self_attr(tg, "ncell_read"):
                if not (isinstance(s.value, ast.Constant) and isinstance(s.value.value, bool)):
                    U(s, "value of a state flag")
                out.append("st := { st with %s := %s }" % ("cellRead" if tg.attr == "cell_read" else "ncellRead", "true" if s.value.value else "false"))
                return False
            if is_pdffit_item(tg):
                b, t, ty, _ = self.ex(s.value, env)
                out += b
                if tg.slice.value == "ncell":
                    if ty != "LI":
                        U(s, "ncell value of type %s" % ty)
                    out.append("st := { st with ncell := %s }" % t)
                elif ty not in ("S", "F"):
                    U(s, "pdffit value of type %s" % ty)
                return False
            if is_self_attr(tg, "stru", "title"):
                b, t, ty, _ = self.ex(s.value, env)
                if ty != "S":
                    U(s, "title of type %s" % ty)
                out += b
                return False
            if isinstance(tg, ast.Attribute) and is_name(tg.value) and tg.value.id in env and env[tg.value.id].typ == "ATOM" and tg.attr == "Bisoequiv":
                b, t, ty, _ = self.ex(s.value, env)
                if ty != "F":
                    U(s, "Bisoequiv of type %s" % ty)
                out += b
                return False
            U(s, "assignment target")
        if isinstance(s, ast.Expr) and isinstance(s.value, ast.Call):
            c = s.value
            text = ast.unparse(c.func)
            if text == "self.ignored_lines.append" and len(c.args) == 1 and not c.keywords and is_self_attr(c.args[0], "line"):
                return False
            if text == "self.stru.addNewAtom" and len(c.args) == 2 and not c.keywords:
                b1, t1, ty1, _ = self.ex(c.args[0], env)
                b2, t2, ty2, _ = self.ex(c.args[1], env)
                if ty1 != "S" or ty2 != "OL":
                    U(s, "addNewAtom arguments of types %s, %s" % (ty1, ty2))
                out += b1 + b2
                out.append("n_stru := n_stru + 1")
                return False
            if isinstance(c.func, ast.Attribute) and is_name(c.func.value, "self") and c.func.attr.startswith("_parse") and len(c.args) == 1 \
                    and not c.keywords:
                b, t, ty, o = self.ex(c.args[0], env)
                if ty != "WL" or t not in ("v_words",) or o not in ("words", "cwords"):
                    U(s, "helper argument")
                out += b
                out.append("(st, n_stru) ← %s v_line %s st n_stru" % (self.helper(c.func.attr, o), t))
                return False
            if is_name(c.func) and c.func.id in env and env[c.func.id].typ == "DISPATCH" and len(c.args) == 1 and not c.keywords:
                d = env[c.func.id]
                b, t, ty, o = self.ex(c.args[0], env)
                if ty != "WL" or t != "v_words" or o != "words" or d.origin != "v_words":
                    U(s, "dispatch argument")
                out += b
                out += d.lean(o)
                return False
            U(s, "call statement")
        if isinstance(s, ast.If):
            cb, c = self.cond(s.test, env)
            out += cb
            if ast.unparse(s.test) == SUPER_TEST:
                if s.orelse or "\n".join(ast.unparse(x) for x in s.body) != SUPER_BODY:
                    U(s, "supercell block differs from the expected text")
                out.append("if %s then" % c)
                out += ["  superStep 6 st.ncell 0", "  superStep 6 st.ncell 1", "  superStep 6 st.ncell 2", "  d.superLat.run"]
                return False
            ea, eb = dict(env), dict(env)
            la, ta = self.block(s.body, ea, loop, inhelper)
            lb, tb = self.block(s.orelse, eb, loop, inhelper) if s.orelse else ([], False)
            for e2, t2 in ((ea, ta), (eb, tb)):
                if not t2:
                    for n, v in e2.items():
                        if v.lean is not None and (n not in env or env[n].lean != v.lean or env[n].origin != v.origin or env[n].typ != v.typ):
                            U(s, "`%s` is (re)bound in a branch" % n)
            out.append("if %s then" % c)
            out += ["  " + x for x in (la or ["pure ()"])]
            if lb:
                out.append("else")
                out += ["  " + x for x in lb]
            return ta and tb and bool(s.orelse)
        if isinstance(s, ast.Try):
            return self.inner_try(s, env, out)
        if isinstance(s, ast.Raise):
            if s.cause is not None or s.exc is None:
                U(s, "raise form")
            x = s.exc
            if isinstance(x, ast.Call) and is_name(x.func) and x.func.id in ("StructureFormatError", "NotImplementedError") and len(x.args) == 1 \
                    and not x.keywords:
                b, t, ty, _ = self.ex(x.args[0], env)
                if ty != "S":
                    U(s, "exception argument")
                out += b
                out.append("raise %s" % (".SFE" if x.func.id == "StructureFormatError" else ".NotImpl"))
                return True
            b, t, ty, _ = self.ex(x, env)
            if ty == "EXC":
                out += b
                out.append("raise .SFE")
                return True
            U(s, "raise of something that is not a StructureFormatError")
        if isinstance(s, ast.Return) and s.value is None and inhelper:
            out.append("return (st, n_stru)")
            return True
        if isinstance(s, ast.Continue) and loop:
            out.append("return (← %s it st n_stru)" % loop[0])
            return True
        if isinstance(s, ast.Break) and loop and loop[1]:
            out.append("return (st, n_stru, it)")
            return True
        if isinstance(s, ast.Pass):
            return False
        U(s, "statement")

    def handler_kinds(self, h):
        kinds = []
        for nm in self.hm.handler_names(h):
            for k in self.hm.kinds_of(nm):
                if k not in kinds:
                    kinds.append(k)
        return kinds

    def check_handler(self, h, env):
        if h.name is not None:
            U(h, "handler that binds the exception")
        hl, hterm = self.block(h.body, dict(env))
        if not hterm or hl != ["raise .SFE"]:
            U(h, "handler body that is not `<build the message>; raise StructureFormatError`")

    def emit_handler(self, name, h):
        self.defs.append("/-- exception kinds of `except %s` at that `try` (translate/handlers.py `kinds_of`) -/\ndef %s_handler : List Kind := [%s]\n\n" % (
            ast.unparse(h.type) if h.type is not None else "", name, ", ".join("." + k for k in self.handler_kinds(h))))

    def inner_try(self, s, env, out):
        """`try: self.stru.lattice.setLatPar(*latpars)  except …: raise StructureFormatError`, latpars = floats of cwords[1:7]"""
        if s.orelse or s.finalbody or len(s.handlers) != 1 or len(s.body) != 1:
            U(s, "try statement")
        b = s.body[0]
        ok = isinstance(b, ast.Expr) and isinstance(b.value, ast.Call) and ast.unparse(b.value.func) == "self.stru.lattice.setLatPar" \
            and not b.value.keywords and len(b.value.args) == 1 and isinstance(b.value.args[0], ast.Starred) and is_name(b.value.args[0].value) \
            and b.value.args[0].value.id in env and env[b.value.args[0].value.id].typ == "OL" \
            and (env[b.value.args[0].value.id].origin or ())[:3] == ("cwords", 1, 7)
        if not ok:
            U(s, "try body that is not `self.stru.lattice.setLatPar(*<floats of the comma-free words[1:7]>)`")
        self.check_handler(s.handlers[0], env)
        name = "%s_try%d" % (self.cur, 1)
        if name in self.handlers:
            U(s, "second try statement in a helper")
        self.handlers[name] = True
        self.emit_handler(name, s.handlers[0])
        out.append("tryExcept %s_handler (v_line.lat.run)" % name)
        return False

    cur = ""

    def helper(self, mname, origin):
        lean = "%s_%s" % (self.prefix, mname)
        if mname in self.helpers:
            if self.helpers[mname] != origin:
                raise pysrc.Untranslatable("%s is called with differently split words" % mname)  # noqa: F821
            return lean
        self.helpers[mname] = origin
        f = self.method(mname)
        if [x.arg for x in f.args.args] != ["self", "words"]:
            U(f, "signature")
        saved, self.cur = self.cur, lean
        env = {"words": DVar("v_words", "WL", origin)}
        lines, term = self.block(strip_doc(f.body), env, None, True)
        self.cur = saved
        if not term:
            lines.append("return (st, n_stru)")
        body = ["let mut st := st", "let mut n_stru := n_stru", "let mut v_words := v_words"] + lines
        self.defs.append("/-- `%s.%s(words)`, `words` = the %s split of the current line -/\ndef %s %s : M (DState × Nat) := do\n%s\n\n" % (
            self.cls.name, mname, "comma-free" if origin == "cwords" else "plain", lean, STATE_SIG, "\n".join("  " + x for x in body)))
        return lean

    def dispatch(self, dict_node, get_call, env):
        """record_parsers.get(words[0], self.<default>) -> function origin -> lines of a `match`"""
        keys = []
        for k, v in zip(dict_node.keys, dict_node.values):
            if not (isinstance(k, ast.Constant) and isinstance(k.value, str) and k.value in KWS and k.value not in [x for x, _ in keys]):
                U(dict_node, "dictionary key that is not a distinct keyword")
            if not (isinstance(v, ast.Attribute) and is_name(v.value, "self")):
                U(dict_node, "dictionary value that is not a method")
            keys.append((k.value, v.attr))
        a = get_call.args
        if len(a) != 2 or get_call.keywords or not (isinstance(a[1], ast.Attribute) and is_name(a[1].value, "self")):
            U(get_call, "dispatch")
        kb, kt, kty, _ = self.ex(a[0], env)
        if kty != "T" or not (isinstance(a[0], ast.Subscript) and is_name(a[0].value) and env[a[0].value.id].lean == "v_words"):
            U(get_call, "dispatch key")
        default = a[1].attr

        def lines(origin):
            out = []
            out.append("(st, n_stru) ← match %s.kw with" % kt)
            for k, m in keys:
                out.append("  | .%s => %s v_line v_words st n_stru" % (k, self.helper(m, origin)))
            out.append("  | _ => %s v_line v_words st n_stru" % self.helper(default, origin))
            return out
        return kb, lines

    def loop(self, s, env, out, d_env):
        """`for self.line in ilines: … [else: …]` over the shared iterator"""
        if not (is_self_attr(s.target, "line") and is_name(s.iter) and s.iter.id in env and env[s.iter.id].typ == "ITER"):
            U(s, "for statement")
        self.nfor += 1
        name = "%s_parseLines_for%d" % (self.prefix, self.nfor)
        has_break = any(isinstance(n, ast.Break) for n in ast.walk(s))
        benv = {k: v for k, v in env.items() if v.typ in ("ITER", "DISPATCHDICT")}
        benv.update(d_env)
        lines, term = self.block(s.body, benv, (name, has_break), False)
        if not term:
            lines.append(name + " it st n_stru")
        if s.orelse:
            el, eterm = self.block(s.orelse, {}, None, False)
            if not eterm:
                U(s, "else clause that does not raise")
        else:
            el = ["pure (st, n_stru, it)" if has_break else "pure (st, n_stru)"]
            if has_break:
                el = ["pure (st, n_stru, [])"]
        ret = "DState × Nat × List Line" if has_break else "DState × Nat"
        body = ["let mut st := st", "let mut n_stru := n_stru"] + lines
        self.defs.append("/-- `%s` over the shared line iterator (`continue` = the recursive call, `break` = return of the remaining lines) -/\n"
                         "def %s : List Line → DState → Nat → M (%s)\n  | [], st, n_stru => do\n%s\n  | v_line :: it, st, n_stru => do\n%s\n\n" % (
                             " ".join(ast.unparse(s).split("\n")[0].split()), name, ret, "\n".join("    " + x for x in el),
                             "\n".join("    " + x for x in body)))
        if has_break:
            out.append("(st, n_stru, v_%s) ← %s v_%s st n_stru" % (s.iter.id, name, s.iter.id))
        else:
            out.append("(st, n_stru) ← %s v_%s st n_stru" % (name, s.iter.id))
            out.append("v_%s := []" % s.iter.id)

    def main(self, lean_str):
        cls = self.cls
        # initial state
        init = self.method("__init__")
        itext = [ast.unparse(x) for x in init.body]
        for want in ("self.cell_read = False", "self.ncell_read = False"):
            if itext.count(want) != 1:
                raise pysrc.Untranslatable("__init__ does not contain `%s` exactly once" % want)  # noqa: F821
        for n in ast.walk(init):
            if isinstance(n, ast.Attribute) and isinstance(n.ctx, ast.Store) and n.attr in ("cell_read", "ncell_read") \
                    and ast.unparse(n) not in ("self.cell_read", "self.ncell_read"):
                U(n, "state flag")
        it = self.method("_linesIterator")
        if "\n".join(ast.unparse(x) for x in strip_doc(it.body)) != LINESITER_BODY or [x.arg for x in it.args.args] != ["self"]:
            raise pysrc.Untranslatable("_linesIterator differs from the expected text")  # noqa: F821
        fn = self.method("parseLines")
        if [x.arg for x in fn.args.args] != ["self", "lines"]:
            U(fn, "signature")
        body = strip_doc(fn.body)
        out = ["let mut st : DState := {}", "let mut n_stru : Nat := 0"]
        env = {}
        k = 0
        seen = set()
        dict_node = None
        # prologue: self.lines = lines; ilines = self._linesIterator(); self.stru = PDFFitStructure(); record_parsers = {...}
        while k < len(body) and isinstance(body[k], ast.Assign):
            s = body[k]
            text = ast.unparse(s)
            if text == "self.lines = lines":
                seen.add("lines")
            elif len(s.targets) == 1 and is_name(s.targets[0]) and ast.unparse(s.value) == "self._linesIterator()" and "lines" in seen:
                env[s.targets[0].id] = DVar("v_%s" % s.targets[0].id, "ITER")
                out.append("let mut v_%s : List Line := stripTrailing Line.blank d.lines" % s.targets[0].id)
            elif text == "self.stru = PDFFitStructure()":
                seen.add("stru")
                out.append("n_stru := 0")
                out.append("st := { st with ncell := [1, 1, 1, 0] }")
            elif len(s.targets) == 1 and is_name(s.targets[0]) and isinstance(s.value, ast.Dict):
                env[s.targets[0].id] = DVar(None, "DISPATCHDICT")
                dict_node = (s.targets[0].id, s.value)
            else:
                break
            k += 1
        if "stru" not in seen or len([v for v in env.values() if v.typ == "ITER"]) != 1:
            U(fn, "prologue of parseLines")
        rest = body[k:]
        if len(rest) != 2 or not isinstance(rest[0], ast.Try) or ast.unparse(rest[1]) != "return self.stru":
            U(fn, "parseLines is not `prologue; try: …; return self.stru`")
        t = rest[0]
        if t.orelse or t.finalbody or len(t.handlers) != 1:
            U(t, "try statement")
        self.check_handler(t.handlers[0], {})
        tname = "%s_parseLines_try1" % self.prefix
        # the try body
        self.dict_node = dict_node
        tout = list(out)
        tenv = dict(env)
        for s in t.body:
            if isinstance(s, ast.For):
                self.loop(s, tenv, tout, {})
            else:
                if self.stmt(s, tenv, tout, None, False):
                    U(s, "the try body ends early")
        self.emit_handler(tname, t.handlers[0])
        self.defs.append("/-- body of the `try` at line %d of parseLines (handler: %s), after the prologue `self.lines = lines; ilines = "
                         "self._linesIterator(); self.stru = PDFFitStructure()` -/\ndef %s (d : DiscusDoc) : M Unit := do\n%s\n  pure ()\n\n" % (
                             t.lineno, ", ".join(self.hm.handler_names(t.handlers[0])), tname, "\n".join("  " + x for x in tout)))
        self.defs.append("/-- `%s.parseLines` of parsers/p_discus.py, over the abstract document -/\ndef %s_parseLines (d : DiscusDoc) : M Unit := do\n"
                         "  tryExcept %s_handler (%s d)\n  return ()\n\n" % (cls.name, self.prefix, tname, tname))
        return "".join(self.defs)


def _discus_stmt_patch():
    """`rp = record_parsers.get(words[0], self._parse_unknown_record)` binds a dispatch function"""
    orig = Discus.stmt

    def stmt(self, s, env, out, loop, inhelper):
        if isinstance(s, ast.Assign) and len(s.targets) == 1 and is_name(s.targets[0]) and isinstance(s.value, ast.Call) \
                and isinstance(s.value.func, ast.Attribute) and s.value.func.attr == "get" and is_name(s.value.func.value) \
                and self.dict_node is not None and s.value.func.value.id == self.dict_node[0] and not inhelper:
            kb, fn = self.dispatch(self.dict_node[1], s.value, env)
            out += kb
            env[s.targets[0].id] = DVar(fn, "DISPATCH", "v_words")
            return False
        return orig(self, s, env, out, loop, inhelper)
    Discus.stmt = stmt


_discus_stmt_patch()


def discus_module_checks(tree, extra=None):
    origins = {}
    for n in tree.body:
        if isinstance(n, ast.ImportFrom):
            for a in n.names:
                origins[a.asname or a.name] = "%s.%s" % (n.module, a.name)
        elif isinstance(n, ast.Import):
            for a in n.names:
                origins[a.asname or a.name] = a.name
        elif isinstance(n, (ast.FunctionDef, ast.ClassDef)):
            origins[n.name] = "local"
        elif isinstance(n, ast.Assign):
            for t in n.targets:
                for x in ast.walk(t):
                    if isinstance(x, ast.Name):
                        origins[x.id] = "local"
    want = {"StructureFormatError": "diffpy.structure.structureerrors.StructureFormatError", "sys": "sys", "reduce": "functools.reduce",
            "Lattice": "diffpy.structure.Lattice", "PDFFitStructure": "diffpy.structure.PDFFitStructure"}
    want.update(extra or {})
    for k, v in want.items():
        if origins.get(k) != v:
            raise pysrc.Untranslatable("`%s` is bound to %r, expected %s" % (k, origins.get(k), v))  # noqa: F821
    for b in ("len", "int", "float", "str", "list", "range", "NotImplementedError", "iter", "next"):
        if b in origins:
            raise pysrc.Untranslatable("the module rebinds the builtin `%s`" % b)  # noqa: F821


def translate_discus(REPO, hm):
    path = os.path.join(REPO, "src", "diffpy", "structure", "parsers", "p_discus.py")
    try:
        tree = ast.parse(open(path, encoding="utf-8").read())
    except (OSError, SyntaxError) as e:
        raise pysrc.Untranslatable("p_discus.py: %s" % e)  # noqa: F821
    cls = pysrc.find_class(tree, "P_discus")  # noqa: F821
    if cls is None:
        raise pysrc.Untranslatable("class P_discus not found")  # noqa: F821
    discus_module_checks(tree)
    check_default_ncell(REPO)
    return Discus(cls, hm).main(pysrc.lean_str)  # noqa: F821


def check_default_ncell(REPO):
    pf = os.path.join(REPO, "src", "diffpy", "structure", "pdffitstructure.py")
    try:
        ptext = ast.unparse(ast.parse(open(pf, encoding="utf-8").read()))
    except (OSError, SyntaxError) as e:
        raise pysrc.Untranslatable("pdffitstructure.py: %s" % e)  # noqa: F821
    if ptext.count("'ncell': [1, 1, 1, 0]") != 1:
        raise pysrc.Untranslatable("the default pdffit['ncell'] of PDFFitStructure is not [1, 1, 1, 0]")  # noqa: F821


# =====================================================================================================================
# P_pdffit.parseLines (parsers/p_pdffit.py).  Same rendering as for P_discus (class `Discus`), with these differences:
#
#   the iterator        `stop = len(lines); while stop > 0 and lines[stop - 1].strip() == "": stop -= 1; ilines = iter(lines[:stop])`
#                       (compared with the expected text) = `stripTrailing Line.blank d.lines`; `for line in ilines` as for DISCUS;
#                       a loop whose body calls `next(ilines)` (= `nextLine it`, `StopIteration`) consumes a variable number of
#                       lines per round and is rendered with the fuel `len(remaining lines) + 1` (every round consumes at least
#                       the line of the `for`, so the fuel is never exhausted), as `Parsers.pdffitAtoms` is.
#   parser state        `cell_line_read` = `st.cellRead`, `len(latpars)` = `st.nLatpars`, `stru.pdffit["ncell"]` = `st.ncell`
#                       (`st : PState`); `stru = self.stru` is an alias; `p_nl` and `line.find(..) + len(..)` are ints that are
#                       only formatted / used as slice bounds of a string (never raises).
#   float lists         `L[i]` of a list of floats built from `W` = `olIdx W.length i` (`IndexError`); `len(L)` = `W.length`.
#   lattice             `stru.lattice = Lattice(*latpars)` = `latticeCtor (len latpars) v_line.lat` (no argument: default lattice;
#                       fewer than six: `ValueError`; six: the oracle field of the line).
#   atoms               `numpy.zeros((3, 3), dtype=float)` and stores `U[i, j] = <float>` with literal `i, j < 3`,
#                       `stru.lattice.isanisotropic(U)`, assignments of floats / float lists / those arrays to attributes of the
#                       atom just added evaluate their operands only; `addNewAtom(element, xyz=.., occupancy=..)` counts.
#   `_parse_shape(line)` `assert words[0] == "shape"` on the comma-free split is dropped when the call stands directly under the test
#                       `words[0] == "shape"` on the plain split (a token equal to a keyword contains no comma, hence it is also
#                       the first comma-free token).
# =====================================================================================================================

PD_STRIP = _canon('''
stop = len(lines)
while stop > 0 and lines[stop - 1].strip() == "":
    stop -= 1
ilines = iter(lines[:stop])
''')
PD_SUPER_TEST = _canon('stru.pdffit["ncell"][:3] != [1, 1, 1]')
PD_SUPER_BODY = _canon('''
superlatpars = [latpars[i] * stru.pdffit["ncell"][i] for i in range(3)] + latpars[3:]
superlattice = Lattice(*superlatpars)
stru.placeInLattice(superlattice)
stru.pdffit["ncell"] = [1, 1, 1, p_natoms]
''')
PD_REDUCE_1 = _canon('reduce(lambda x, y: x * y, stru.pdffit["ncell"], 1)')
PD_REDUCE_0 = _canon('reduce(lambda x, y: x * y, stru.pdffit["ncell"])')
PD_SHAPE_GUARD = _canon('words[0] == "shape"')
PD_ASSERT = _canon('assert words[0] == "shape"')
ATOM_ATTRS = ("sigxyz", "sigo", "anisotropy", "U", "sigU")


class Pdffit(Discus):
    FLAG = "cell_line_read"
    LATPARS = "latpars"
    stru_made = False

    def is_stru(self, n, env):
        return is_self_attr(n, "stru") or (is_name(n) and n.id in env and env[n.id].typ == "STRU")

    def pd_item(self, n, env, key=None):
        return isinstance(n, ast.Subscript) and isinstance(n.value, ast.Attribute) and n.value.attr == "pdffit" and self.is_stru(n.value.value, env) \
            and isinstance(n.slice, ast.Constant) and isinstance(n.slice.value, str) and (key is None or n.slice.value == key)

    def ex(self, e, env):
        if self.pd_item(e, env, "ncell"):
            return [], "st.ncell", "LI", None
        if isinstance(e, ast.BinOp) and isinstance(e.op, ast.Add):
            snap = self.ntmp
            lb, l, lt, _ = self.ex(e.left, env)
            rb, r, rt, _ = self.ex(e.right, env)
            if lt == "NL" and rt == "NL":
                return lb + rb, None, "NL", None
            self.ntmp = snap
        if isinstance(e, ast.Subscript):
            if nat_const(e.slice) and is_name(e.value) and e.value.id in env and env[e.value.id].typ == "OL":
                o = env[e.value.id].origin
                return ["olIdx %s.length %d" % (par(o[3]), e.slice.value)], None, "F", None
            if isinstance(e.slice, ast.Slice) and e.slice.step is None and any(x is not None and not nat_const(x) for x in (e.slice.lower, e.slice.upper)):
                b, t, ty, _ = self.ex(e.value, env)
                if ty in ("LINE", "S"):
                    for x in (e.slice.lower, e.slice.upper):
                        if x is not None and not nat_const(x):
                            xb, xt, xty, _ = self.ex(x, env)
                            if xty != "NL" or xb:
                                U(e, "slice bound")
                    return b, None, "S", None
        return Discus.ex(self, e, env)

    def call(self, e, env):
        f, a = e.func, e.args
        text = ast.unparse(e)
        if text in (PD_REDUCE_1, PD_REDUCE_0) and "stru" in env and env["stru"].typ == "STRU":
            v = self.tmp("p")
            return ["let %s ← pyProduct %s st.ncell" % (v, "true" if text == PD_REDUCE_1 else "false")], v, "I", None
        if is_name(f, "len") and len(a) == 1 and not e.keywords:
            if self.is_stru(a[0], env):
                return [], "n_stru", "N", None
            b, t, ty, o = self.ex(a[0], env)
            if ty == "WL":
                return b, "%s.length" % par(t), "N", None
            if ty == "OL" and not b:
                return b, "%s.length" % par(o[3]), "N", None
            if ty == "S":
                return b, None, "NL", None
            U(e, "len of a %s" % ty)
        if is_name(f, "next") and len(a) == 1 and not e.keywords and is_name(a[0]) and a[0].id in env and env[a[0].id].typ == "ITER" \
                and env[a[0].id].lean == "it":
            r = self.tmp("r")
            return ["let %s ← nextLine it" % r, "it := %s.2" % r], "%s.1" % r, "LINE", None
        if text == "numpy.zeros((3, 3), dtype=float)":
            return [], None, "NDARR", None
        if isinstance(f, ast.Attribute) and not e.keywords:
            if f.attr == "isanisotropic" and isinstance(f.value, ast.Attribute) and f.value.attr == "lattice" and self.is_stru(f.value.value, env) \
                    and len(a) == 1 and is_name(a[0]) and a[0].id in env and env[a[0].id].typ == "NDARR":
                return [], None, "S", None
            if f.attr == "find" and len(a) == 1:
                b, t, ty, _ = self.ex(f.value, env)
                b2, t2, ty2, _ = self.ex(a[0], env)
                if ty in ("LINE", "S") and ty2 == "S":
                    return b + b2, None, "NL", None
            if f.attr == "getLastAtom" and self.is_stru(f.value, env) and not a:
                return [], None, "ATOM", None
        return Discus.call(self, e, env)

    def cond(self, c, env):
        if isinstance(c, ast.Compare) and len(c.ops) == 1:
            if ast.unparse(c) == PD_SUPER_TEST:
                return [], "st.ncell.take 3 ≠ [1, 1, 1]"
            sym = {ast.Eq: "=", ast.NotEq: "≠", ast.Lt: "<", ast.LtE: "≤", ast.Gt: ">", ast.GtE: "≥"}.get(type(c.ops[0]))
            r = c.comparators[0]
            if sym and nat_const(r):
                snap = self.ntmp
                lb, lt, lty, _ = self.ex(c.left, env)
                if lty == "N":
                    return lb, "%s %s %d" % (par(lt), sym, r.value)
                self.ntmp = snap
        return Discus.cond(self, c, env)

    def stmt(self, s, env, out, loop, inhelper):
        if isinstance(s, ast.Assign):
            tgs = s.targets
            if all(isinstance(t, ast.Subscript) and is_name(t.value) and t.value.id in env and env[t.value.id].typ == "NDARR"
                   and isinstance(t.slice, ast.Tuple) and len(t.slice.elts) == 2 and all(nat_const(x) and x.value < 3 for x in t.slice.elts) for t in tgs):
                b, t, ty, _ = self.ex(s.value, env)
                if ty != "F":
                    U(s, "array element of type %s" % ty)
                out += b
                return False
            if len(tgs) == 1:
                tg = tgs[0]
                if is_name(tg):
                    if tg.id == self.FLAG:
                        if not (isinstance(s.value, ast.Constant) and isinstance(s.value.value, bool)):
                            U(s, "value of the state flag")
                        out.append("st := { st with cellRead := %s }" % ("true" if s.value.value else "false"))
                        env[tg.id] = DVar("st.cellRead", "B")
                        return False
                    if nat_const(s.value) and tg.id in env and env[tg.id].typ == "NL":
                        return False
                    if ast.unparse(s.value) == "self.stru" and self.stru_made:
                        env[tg.id] = DVar(None, "STRU")
                        return False
                    if tg.id == self.LATPARS:
                        b, t, ty, o = self.ex(s.value, env)
                        if ty != "OL":
                            U(s, "latpars of type %s" % ty)
                        out += b
                        out.append("st := { st with nLatpars := %s.length }" % par(o[3]))
                        env[tg.id] = DVar(None, "OL", o)
                        return False
                if ast.unparse(tg) == "self.stru" and ast.unparse(s.value) == "PDFFitStructure()":
                    self.stru_made = True
                    out += ["n_stru := 0", "st := { st with ncell := [1, 1, 1, 0] }"]
                    return False
                if self.pd_item(tg, env):
                    b, t, ty, _ = self.ex(s.value, env)
                    out += b
                    if tg.slice.value == "ncell":
                        if ty != "LI":
                            U(s, "ncell value of type %s" % ty)
                        out.append("st := { st with ncell := %s }" % t)
                    elif ty not in ("S", "F", "OL"):
                        U(s, "pdffit value of type %s" % ty)
                    return False
                if isinstance(tg, ast.Attribute) and self.is_stru(tg.value, env):
                    if tg.attr == "title":
                        b, t, ty, _ = self.ex(s.value, env)
                        if ty != "S":
                            U(s, "title of type %s" % ty)
                        out += b
                        return False
                    v = s.value
                    if tg.attr == "lattice" and isinstance(v, ast.Call) and is_name(v.func, "Lattice") and not v.keywords and len(v.args) == 1 \
                            and isinstance(v.args[0], ast.Starred) and is_name(v.args[0].value, self.LATPARS) and self.LATPARS in env \
                            and env[self.LATPARS].typ == "OL" and loop:
                        out.append("latticeCtor %s.length v_line.lat" % par(env[self.LATPARS].origin[3]))
                        return False
                if isinstance(tg, ast.Attribute) and is_name(tg.value) and tg.value.id in env and env[tg.value.id].typ == "ATOM" and tg.attr in ATOM_ATTRS:
                    b, t, ty, _ = self.ex(s.value, env)
                    if ty not in ("OL", "F", "S", "NDARR"):
                        U(s, "atom attribute of type %s" % ty)
                    out += b
                    return False
        if isinstance(s, ast.AugAssign) and is_name(s.target) and s.target.id in env and env[s.target.id].typ == "NL" and isinstance(s.op, ast.Add) \
                and nat_const(s.value):
            return False
        if isinstance(s, ast.Assert) and inhelper and ast.unparse(s) == PD_ASSERT and "words" in env and env["words"].origin == "cwords":
            return False
        if isinstance(s, ast.Expr) and isinstance(s.value, ast.Call):
            c = s.value
            text = ast.unparse(c.func)
            if text == "self.ignored_lines.append" and len(c.args) == 1 and not c.keywords and is_name(c.args[0]) and c.args[0].id in env \
                    and env[c.args[0].id].typ == "LINE":
                return False
            if isinstance(c.func, ast.Attribute) and c.func.attr == "addNewAtom" and self.is_stru(c.func.value, env) and len(c.args) == 1 \
                    and [k.arg for k in c.keywords] == ["xyz", "occupancy"]:
                vals = [self.ex(x, env) for x in (c.args[0], c.keywords[0].value, c.keywords[1].value)]
                if [v[2] for v in vals] != ["S", "OL", "F"]:
                    U(s, "addNewAtom arguments")
                for v in vals:
                    out += v[0]
                out.append("n_stru := n_stru + 1")
                return False
            if text == "self._parse_shape" and len(c.args) == 1 and not c.keywords and is_name(c.args[0]) and c.args[0].id in env \
                    and env[c.args[0].id].lean == "v_line" and env[c.args[0].id].typ == "LINE":
                if self.guards.get(id(s)) != PD_SHAPE_GUARD or "words" not in env or env["words"].origin != "words":
                    U(s, "_parse_shape is not called directly under `words[0] == \"shape\"`")
                out.append("(st, n_stru) ← %s v_line st n_stru" % self.helper_line("_parse_shape"))
                return False
        if isinstance(s, ast.If) and ast.unparse(s.test) == PD_SUPER_TEST:
            if s.orelse or "\n".join(ast.unparse(x) for x in s.body) != PD_SUPER_BODY or loop or inhelper:
                U(s, "supercell block differs from the expected text")
            out.append("if st.ncell.take 3 ≠ [1, 1, 1] then")
            out += ["  superStep st.nLatpars st.ncell 0", "  superStep st.nLatpars st.ncell 1", "  superStep st.nLatpars st.ncell 2", "  d.superLat.run"]
            return False
        return Discus.stmt(self, s, env, out, loop, inhelper)

    def helper_line(self, mname):
        lean = "%s_%s" % (self.prefix, mname)
        if mname in self.helpers:
            return lean
        self.helpers[mname] = "line"
        f = self.method(mname)
        if [x.arg for x in f.args.args] != ["self", "line"]:
            U(f, "signature")
        saved, self.cur = self.cur, lean
        env = {"line": DVar("v_line", "LINE")}
        lines, term = self.block(strip_doc(f.body), env, None, True)
        self.cur = saved
        if not term:
            lines.append("return (st, n_stru)")
        body = ["let mut st := st", "let mut n_stru := n_stru"] + lines
        self.defs.append("/-- `%s.%s(line)` -/\ndef %s %s : M (PState × Nat) := do\n%s\n\n" % (
            self.cls.name, mname, lean, PSTATE_SIG, "\n".join("  " + x for x in body)))
        return lean

    def loop(self, s, env, out, after):
        if not (is_name(s.target) and is_name(s.iter) and s.iter.id in env and env[s.iter.id].typ == "ITER" and s.target.id not in PROTECTED):
            U(s, "for statement")
        self.nfor += 1
        name = "%s_parseLines_for%d" % (self.prefix, self.nfor)
        has_break = any(isinstance(n, ast.Break) for n in ast.walk(s))
        uses_next = any(isinstance(n, ast.Call) and is_name(n.func, "next") for n in ast.walk(s))
        if uses_next and (has_break or s.orelse):
            U(s, "loop with next() and break / else")
        stored = {n.id for n in ast.walk(s) if isinstance(n, ast.Name) and isinstance(n.ctx, ast.Store)}
        for n in ast.walk(s):          # comprehension variables are local to the comprehension
            if isinstance(n, ast.comprehension):
                stored -= {x.id for x in ast.walk(n.target) if isinstance(x, ast.Name)}
        benv = {k: v for k, v in env.items() if v.lean is None or v.lean.startswith("st.")}
        benv[s.iter.id] = DVar("it", "ITER")
        benv[s.target.id] = DVar("v_line", "LINE")
        call = "%s fuel" % name if uses_next else name
        lines, term = self.block(s.body, benv, (call, has_break), False)
        if not term:
            lines.append(call + " it st n_stru")
        for n in stored & after:
            # strings have no term and reading them cannot raise; the flag and the length of latpars are fields of `st`
            if n not in (self.FLAG, self.LATPARS) and not (n in env and env[n].typ == "NL") and self.ltypes.get(n) != {"S"}:
                U(s, "`%s` is bound inside the loop and read after it" % n)
        if s.orelse:
            el, eterm = self.block(s.orelse, {k: v for k, v in env.items() if v.lean is None}, None, False)
            if not eterm:
                U(s, "else clause that does not raise")
        else:
            el = ["pure (st, n_stru, [])" if has_break else "pure (st, n_stru)"]
        ret = "PState × Nat × List Line" if has_break else "PState × Nat"
        body = ["let mut st := st", "let mut n_stru := n_stru"] + (["let mut it := it"] if uses_next else []) + lines
        doc = " ".join(ast.unparse(s).split("\n")[0].split())
        if uses_next:
            self.defs.append("/-- `%s` over the shared line iterator, the body calls `next(%s)`: fuel = number of remaining lines + 1 -/\n"
                             "def %s : Nat → List Line → PState → Nat → M (%s)\n  | 0, _, st, n_stru => pure (st, n_stru)\n"
                             "  | _, [], st, n_stru => do\n%s\n  | fuel + 1, v_line :: it, st, n_stru => do\n%s\n\n" % (
                                 doc, s.iter.id, name, ret, "\n".join("    " + x for x in el), "\n".join("    " + x for x in body)))
        else:
            self.defs.append("/-- `%s` over the shared line iterator (`continue` = the recursive call, `break` = return of the remaining lines) -/\n"
                             "def %s : List Line → PState → Nat → M (%s)\n  | [], st, n_stru => do\n%s\n  | v_line :: it, st, n_stru => do\n%s\n\n" % (
                                 doc, name, ret, "\n".join("    " + x for x in el), "\n".join("    " + x for x in body)))
        it = "v_%s" % s.iter.id
        if has_break:
            out.append("(st, n_stru, %s) ← %s %s st n_stru" % (it, name, it))
        else:
            out.append("(st, n_stru) ← %s %s%s st n_stru" % (name, "(%s.length + 1) " % it if uses_next else "", it))
            out.append("%s := []" % it)
        if self.LATPARS in benv:
            env[self.LATPARS] = DVar(None, "OL", benv[self.LATPARS].origin)

    def main(self, lean_str):
        fn = self.method("parseLines")
        if [x.arg for x in fn.args.args] != ["self", "lines"]:
            U(fn, "signature")
        body = strip_doc(fn.body)
        if len(body) != 3 or ast.unparse(body[0]) != "p_nl = 0" or not isinstance(body[1], ast.Try) \
                or ast.unparse(body[2]) not in ("return stru", "return self.stru"):
            U(fn, "parseLines is not `p_nl = 0; try: …; return stru`")
        self.guards = {}
        for n in ast.walk(self.cls):
            if isinstance(n, ast.If):
                for st in n.body:
                    self.guards[id(st)] = ast.unparse(n.test)
        t = body[1]
        if t.orelse or t.finalbody or len(t.handlers) != 1:
            U(t, "try statement")
        env = {"p_nl": DVar(None, "NL")}
        self.check_handler(t.handlers[0], env)
        tname = "%s_parseLines_try1" % self.prefix
        tout = ["let mut st : PState := {}", "let mut n_stru : Nat := 0"]
        stmts = t.body
        k = 0
        while k < len(stmts):
            s = stmts[k]
            if "\n".join(ast.unparse(x) for x in stmts[k:k + 3]) == PD_STRIP and "ilines" not in env:
                env["ilines"] = DVar("v_ilines", "ITER")
                tout.append("let mut v_ilines : List Line := stripTrailing Line.blank d.lines")
                k += 3
                continue
            if isinstance(s, ast.For):
                after = set()
                for x in stmts[k + 1:]:
                    loads = {n.id for n in ast.walk(x) if isinstance(n, ast.Name) and isinstance(n.ctx, ast.Load)}
                    if isinstance(x, ast.For) and is_name(x.target):
                        loads.discard(x.target.id)       # rebound by that loop before it is read
                    after |= loads
                self.loop(s, env, tout, after)
            elif self.stmt(s, env, tout, None, False):
                U(s, "the try body ends early")
            k += 1
        if "stru" not in env or env["stru"].typ != "STRU":
            U(fn, "`stru = self.stru` not found")
        self.emit_handler(tname, t.handlers[0])
        self.defs.append("/-- body of the `try` at line %d of parseLines (handler: %s) -/\ndef %s (d : PdffitDoc) : M Unit := do\n%s\n  pure ()\n\n" % (
            t.lineno, ", ".join(self.hm.handler_names(t.handlers[0])), tname, "\n".join("  " + x for x in tout)))
        self.defs.append("/-- `%s.parseLines` of parsers/p_pdffit.py, over the abstract document -/\ndef %s_parseLines (d : PdffitDoc) : M Unit := do\n"
                         "  tryExcept %s_handler (%s d)\n  return ()\n\n" % (self.cls.name, self.prefix, tname, tname))
        return "".join(self.defs)


def translate_pdffit(REPO, hm):
    path = os.path.join(REPO, "src", "diffpy", "structure", "parsers", "p_pdffit.py")
    try:
        tree = ast.parse(open(path, encoding="utf-8").read())
    except (OSError, SyntaxError) as e:
        raise pysrc.Untranslatable("p_pdffit.py: %s" % e)  # noqa: F821
    cls = pysrc.find_class(tree, "P_pdffit")  # noqa: F821
    if cls is None:
        raise pysrc.Untranslatable("class P_pdffit not found")  # noqa: F821
    discus_module_checks(tree, {"numpy": "numpy"})
    check_default_ncell(REPO)
    return Pdffit(cls, hm, "pdffit").main(pysrc.lean_str)  # noqa: F821


def translate(report):
    REPO = pysrc.REPO  # noqa: F821  (injected; read at call time)
    lean_str = pysrc.lean_str  # noqa: F821
    info = {"methods": {}, "untranslatable": {}}
    out = []
    hm = load_handlers()
    for fname, cls, prefix in (("p_xyz.py", "P_xyz", "xyz"), ("p_rawxyz.py", "P_rawxyz", "rawxyz")):
        name = "%s_parseLines" % prefix
        try:
            out.append(translate_parser(fname, cls, prefix, REPO, hm))
            info["methods"][name] = True
        except pysrc.Untranslatable as e:  # noqa: F821
            info["untranslatable"][name] = str(e)
            out.append("def %s_untranslatable : String := %s\n\n" % (name, lean_str(str(e))))
        except Exception as e:  # noqa: BLE001  (never crash: an unexpected shape is an untranslatable one)
            msg = "internal %s: %s" % (type(e).__name__, e)
            info["untranslatable"][name] = msg
            out.append("def %s_untranslatable : String := %s\n\n" % (name, lean_str(msg)))
    for name, fn in (("discus_parseLines", translate_discus), ("pdffit_parseLines", translate_pdffit)):
        try:
            out.append(fn(REPO, hm))
            info["methods"][name] = True
        except pysrc.Untranslatable as e:  # noqa: F821
            info["untranslatable"][name] = str(e)
            out.append("def %s_untranslatable : String := %s\n\n" % (name, lean_str(str(e))))
        except Exception as e:  # noqa: BLE001
            msg = "internal %s: %s" % (type(e).__name__, e)
            info["untranslatable"][name] = msg
            out.append("def %s_untranslatable : String := %s\n\n" % (name, lean_str(msg)))
    report[GROUP] = info
    return HEADER + PRELUDE + "".join(out) + "end DS.Src.Readers\n"
