"""Source tie of the CIF symmetry-operator reader (`getSymOp`, properties C17 and C07).

Plug-in of translate/pysrc.py (the module global `pysrc` is injected).  Reads the *current*
`src/diffpy/structure/parsers/p_cif.py` with `ast` and writes `lean/DS/Gen/SrcSymOp.lean`:

* `getSymOp` and `_symop_constant`, statement by statement, into Lean over `List Char` and exact fractions
  (`DS.PyStr` primitives of `lean/DS/Model/Rx.lean`: `replace`, `split`, `partition`, `lower`, slices with a step,
  list/dictionary indexing with their exceptions, `float` on literal forms, float division, `numpy.zeros`,
  `R[i, :] +=`, `t[i] +=`, `t -= numpy.floor(t)`; the `while` loop as a recursion with an iteration bound);
* the two regular expressions as *data* (`DS.Rx.Re`), converted from CPython's own parse tree
  (`re._parser.parse`), for the matcher `DS.Rx.mK`;
* the dictionary `symvec` after the module body has run (dict display + the alias assignments).

STRICT.  Every statement of the two functions must have exactly the expected shape (local names are free, the
constants - separators, slices, the index tuple, sign characters, patterns, messages - are data that the tie
theorem then depends on).  Any other statement or expression - in particular any call of `eval`, `exec`,
`compile`, `__import__`, `getattr`, any further use of `symvec` / the pattern object, a decorator, a shadowed
builtin or module name - makes the function `<name>_untranslatable`, so a re-introduced evaluator breaks the
tie by construction.  A regular-expression construct outside {class, `.`, concatenation, `|`, greedy `? * +`,
groups, `^ $ \\A \\Z`, global `(?i)`}, or a `*`/`+` whose body can match the empty text, makes the pattern untranslatable.
"""
import ast
import os

GROUP = "symop"
OUTFILE = "SrcSymOp.lean"

if "pysrc" not in globals():          # imported by the harness (regex conversion for the differential stream)
    from translate import pysrc       # noqa: F401


def U(msg):
    return pysrc.Untranslatable(msg)


# ======================================================================================================
# regular expressions: CPython parse tree -> Re
# ======================================================================================================

def convert_pattern(pat):
    """pattern text -> (tree, keep) with tree a nested tuple:
    ("empty",) ("any",) ("bos",) ("eos",) ("eosZ",) ("cls", ic, neg, [items]) ("seq", a, b) ("alt", a, b)
    ("opt", a) ("star", a) ("plus", a) ("group", a); items ("c", code) ("r", lo, hi) ("d",).
    Raises Untranslatable for anything else."""
    import re
    try:
        import re._parser as sp
        import re._constants as sc
    except ImportError:  # Python < 3.11
        import sre_parse as sp
        import sre_constants as sc
    if not isinstance(pat, str):
        raise U("pattern is not a str literal")
    if any(ord(c) >= 128 for c in pat):
        raise U("non-ASCII pattern")
    try:
        p = sp.parse(pat)
    except re.error as e:
        raise U("pattern does not compile: %s" % e)
    flags = p.state.flags
    allowed = sc.SRE_FLAG_UNICODE | sc.SRE_FLAG_IGNORECASE
    if flags & ~allowed:
        raise U("pattern flags %d outside {UNICODE, IGNORECASE}" % flags)
    ic = bool(flags & sc.SRE_FLAG_IGNORECASE)

    def item(it):
        op, av = it
        if op is sc.LITERAL:
            if av >= 128:
                raise U("non-ASCII class member")
            return ("c", av)
        if op is sc.RANGE:
            lo, hi = av
            if hi >= 128:
                raise U("non-ASCII range")
            return ("r", lo, hi)
        if op is sc.CATEGORY and av is sc.CATEGORY_DIGIT:
            return ("d",)
        raise U("class member %s %s" % (op, av))

    def seq(items):
        nodes = [node(x) for x in items]
        if not nodes:
            return ("empty",)
        r = nodes[-1]
        for n in reversed(nodes[:-1]):
            r = ("seq", n, r)
        return r

    def node(x):
        op, av = x
        if op is sc.LITERAL:
            if av >= 128:
                raise U("non-ASCII literal")
            return ("cls", ic, False, [("c", av)])
        if op is sc.NOT_LITERAL:
            if av >= 128:
                raise U("non-ASCII literal")
            return ("cls", ic, True, [("c", av)])
        if op is sc.IN:
            neg = False
            its = list(av)
            if its and its[0][0] is sc.NEGATE:
                neg = True
                its = its[1:]
            return ("cls", ic, neg, [item(i) for i in its])
        if op is sc.ANY:
            return ("any",)
        if op is sc.MAX_REPEAT:
            lo, hi, body = av
            b = seq(body)
            if (lo, hi) == (0, 1):
                return ("opt", b)
            if hi is sc.MAXREPEAT and tree_nullable(b):
                # sre's rule for an iteration that consumes nothing is not modelled
                raise U("unbounded repeat of a body that can match the empty text")
            if lo == 0 and hi is sc.MAXREPEAT:
                return ("star", b)
            if lo == 1 and hi is sc.MAXREPEAT:
                return ("plus", b)
            raise U("repeat {%s,%s}" % (lo, hi))
        if op is sc.BRANCH:
            _, alts = av
            nodes = [seq(a) for a in alts]
            r = nodes[-1]
            for n in reversed(nodes[:-1]):
                r = ("alt", n, r)
            return r
        if op is sc.SUBPATTERN:
            grp, addf, delf, body = av
            if addf or delf:
                raise U("scoped flags in a group")
            b = seq(body)
            return b if grp is None else ("group", b)
        if op is sc.AT:
            if av in (sc.AT_BEGINNING, sc.AT_BEGINNING_STRING):
                return ("bos",)
            if av is sc.AT_END:
                return ("eos",)
            if av is sc.AT_END_STRING:
                return ("eosZ",)
            raise U("anchor %s" % av)
        raise U("regular expression construct %s" % op)

    tree = seq(list(p))
    return tree, p.state.groups - 1


def tree_nullable(t):
    k = t[0]
    if k in ("cls", "any"):
        return False
    if k == "seq":
        return tree_nullable(t[1]) and tree_nullable(t[2])
    if k == "alt":
        return tree_nullable(t[1]) or tree_nullable(t[2])
    if k in ("plus", "group"):
        return tree_nullable(t[1])
    return True          # empty, opt, star, anchors


def has_group(t):
    return t[0] == "group" or any(isinstance(x, tuple) and has_group(x) for x in t[1:] if t[0] != "cls")


def split_form(pat):
    """(tree, keep) for `re.split(pat, …)`: the whole pattern one capturing group (keep) or no group at all"""
    tree, ngroups = convert_pattern(pat)
    if ngroups == 0:
        return tree, False
    if ngroups == 1 and tree[0] == "group" and not has_group(tree[1]):
        return tree[1], True
    raise U("re.split with capturing groups other than one group around the whole pattern")


def lean_char(code):
    c = chr(code)
    if c == "'":
        return "'\\''"
    if c == "\\":
        return "'\\\\'"
    if c == "\n":
        return "'\\n'"
    if c == "\t":
        return "'\\t'"
    if 32 <= code < 127:
        return "'%s'" % c
    return "(Char.ofNat %d)" % code


def lean_chars(s):
    return "[" + ", ".join(lean_char(ord(c)) for c in s) + "]"


def re_to_lean(t):
    k = t[0]
    if k in ("empty", "any", "bos", "eos", "eosZ"):
        return ".%s" % k
    if k == "cls":
        its = []
        for it in t[3]:
            if it[0] == "c":
                its.append(".chr %s" % lean_char(it[1]))
            elif it[0] == "r":
                its.append(".range %s %s" % (lean_char(it[1]), lean_char(it[2])))
            else:
                its.append(".digit")
        return "(.cls %s %s [%s])" % ("true" if t[1] else "false", "true" if t[2] else "false", ", ".join(its))
    if k in ("seq", "alt"):
        return "(.%s %s %s)" % (k, re_to_lean(t[1]), re_to_lean(t[2]))
    return "(.%s %s)" % (k, re_to_lean(t[1]))


def re_to_words(t):
    k = t[0]
    if k in ("empty", "any", "bos", "eos", "eosZ"):
        return [k]
    if k == "cls":
        w = ["cls", "1" if t[1] else "0", "1" if t[2] else "0", str(len(t[3]))]
        for it in t[3]:
            w += [it[0]] + [str(v) for v in it[1:]]
        return w
    if k in ("seq", "alt"):
        return [k] + re_to_words(t[1]) + re_to_words(t[2])
    return [k] + re_to_words(t[1])


# ======================================================================================================
# strict statement matching: templates with metavariables `__v` (free local names / constants)
# ======================================================================================================

class NoMatch(Exception):
    pass


def unify(tpl, node, b):
    """structural equality of two ast nodes; a template Name `__x` binds to any node (consistently)"""
    if isinstance(tpl, ast.Name) and tpl.id.startswith("__"):
        key = tpl.id[2:]
        if key in b:
            same = (b[key].id == node.id) if isinstance(b[key], ast.Name) and isinstance(node, ast.Name) else ast.dump(b[key]) == ast.dump(node)
            if not same:
                raise NoMatch("`%s` differs from the earlier `%s`" % (ast.unparse(node), ast.unparse(b[key])))
        else:
            b[key] = node
        if isinstance(node, ast.Name) and type(node.ctx) is not type(tpl.ctx):
            raise NoMatch("context of `%s`" % node.id)
        return
    if type(tpl) is not type(node):
        raise NoMatch("`%s` where `%s` is expected" % (ast.unparse(node) if isinstance(node, ast.AST) else node, ast.unparse(tpl) if isinstance(tpl, ast.AST) else tpl))
    if isinstance(tpl, ast.Constant):
        if type(tpl.value) is not type(node.value) or tpl.value != node.value or tpl.kind != node.kind:
            raise NoMatch("constant `%r` where `%r` is expected" % (node.value, tpl.value))
        return
    for f in tpl._fields:
        x, y = getattr(tpl, f, None), getattr(node, f, None)
        if isinstance(x, list):
            if not isinstance(y, list) or len(x) != len(y):
                raise NoMatch("`%s`: %d item(s) in `%s` where %d are expected" % (f, len(y) if isinstance(y, list) else -1, ast.unparse(node)[:80], len(x)))
            for p, q in zip(x, y):
                unify(p, q, b)
        elif isinstance(x, ast.AST):
            if not isinstance(y, ast.AST):
                raise NoMatch("missing `%s` in `%s`" % (f, ast.unparse(node)[:80]))
            unify(x, y, b)
        else:
            if x != y:
                raise NoMatch("`%s` = %r where %r is expected in `%s`" % (f, y, x, ast.unparse(node)[:80]))


def match_body(name, body, templates):
    """all statements of `body` against the template statements, in order; returns the bindings"""
    tpl = ast.parse("\n".join(templates).replace("$", "__")).body
    if len(tpl) != len(body):
        raise U("%s: %d statements where %d are expected" % (name, len(body), len(tpl)))
    b = {}
    for t, s in zip(tpl, body):
        try:
            unify(t, s, b)
        except NoMatch as e:
            raise U("%s: statement `%s`: %s" % (name, " ".join(ast.unparse(s).split())[:100], e))
    return b


def strip_doc(body):
    if body and isinstance(body[0], ast.Expr) and isinstance(body[0].value, ast.Constant) and isinstance(body[0].value.value, str):
        return body[1:]
    return list(body)


def names(b, keys, fname, forbidden):
    """the metavariables `keys` are bound to pairwise distinct local names, none of them a protected name"""
    out = {}
    for k in keys:
        n = b[k]
        if not isinstance(n, ast.Name):
            raise U("%s: `%s` where a local name is expected" % (fname, ast.unparse(n)))
        if n.id in forbidden:
            raise U("%s: local name `%s` shadows a global the function uses" % (fname, n.id))
        out[k] = n.id
    groups = {}
    for k, v in out.items():
        groups.setdefault(v, []).append(k)
    return out, groups


def const(b, key, typ, fname):
    n = b[key]
    if not isinstance(n, ast.Constant) or type(n.value) is not typ:
        raise U("%s: `%s` where a %s literal is expected" % (fname, ast.unparse(n), typ.__name__))
    return n.value


def one_char(v, what, fname):
    if len(v) != 1 or ord(v) >= 128:
        raise U("%s: %s %r is not a single ASCII character" % (fname, what, v))
    return v


PROTECTED = ("re", "numpy", "float", "len", "symvec", "SymOp", "StructureFormatError", "getSymOp", "_symop_constant")

T_GETSYMOP = [
    "from diffpy.structure.spacegroups import SymOp",
    "$snb = $s.replace($blank, $empty)",
    "$eql = $snb.split($comma)",
    "$R = numpy.zeros((3, 3), dtype=float)",
    "$t = numpy.zeros(3, dtype=float)",
    "for $i in $idx:\n"
    "    $eqp = re.split($pat, $eql[$i])\n"
    "    for $Rp in $eqp[$ra::$rs]:\n"
    "        $R[$i, :] += symvec[$Rp.lower()]\n"
    "    for $tp in $eqp[::$ts]:\n"
    "        $t[$i] += $cfn($tp)\n",
    "$t -= numpy.floor($t)",
    "$rv = SymOp($R, $t)",
    "return $rv",
]

T_CONSTANT = [
    "$total = 0.0",
    "$pos = 0",
    "while $pos < len($tp):\n"
    "    $mx = $rx.match($tp, $pos)\n"
    "    if $mx is None or ($pos > 0 and $tp[$pos] not in $signs):\n"
    "        $em1 = $fmt1 % $tp\n"
    "        raise StructureFormatError($em1)\n"
    "    $nom, $u, $den = $mx.group().partition($slash)\n"
    "    if $den and float($den) == 0.0:\n"
    "        $em2 = $fmt2 % $tp\n"
    "        raise StructureFormatError($em2)\n"
    "    $total += float($nom) / float($den) if $den else float($nom)\n"
    "    $pos = $mx.end()\n",
    "return $total",
]


def plain_function(fn, name, nargs):
    if fn is None:
        raise U("function %s not found" % name)
    a = fn.args
    if fn.decorator_list or a.posonlyargs or a.kwonlyargs or a.vararg or a.kwarg or a.defaults or len(a.args) != nargs or fn.returns is not None:
        raise U("%s: signature is not `def %s(%s)` without decorators" % (name, name, ", ".join(["arg"] * nargs)))
    return [x.arg for x in a.args]


def bindings_of(tree):
    """every place a name is bound anywhere in the module: name -> list of (kind, lineno)"""
    out = {}

    def add(n, kind, node):
        out.setdefault(n, []).append((kind, getattr(node, "lineno", 0)))
    for x in ast.walk(tree):
        if isinstance(x, ast.Name) and isinstance(x.ctx, (ast.Store, ast.Del)):
            add(x.id, "assign", x)
        elif isinstance(x, (ast.FunctionDef, ast.AsyncFunctionDef, ast.ClassDef)):
            add(x.name, "def", x)
        elif isinstance(x, (ast.Import, ast.ImportFrom)):
            for al in x.names:
                add((al.asname or al.name).split(".")[0], "import", x)
        elif isinstance(x, ast.arg):
            add(x.arg, "arg", x)
        elif isinstance(x, (ast.Global, ast.Nonlocal)):
            for n in x.names:
                add(n, "global", x)
        elif isinstance(x, ast.ExceptHandler) and x.name:
            add(x.name, "assign", x)
        elif isinstance(x, (ast.MatchAs, ast.MatchStar)) and x.name:
            add(x.name, "assign", x)
    return out


def check_environment(tree, info):
    """the global names the two functions use mean what the translation assumes"""
    bnd = bindings_of(tree)
    want = {"re": ("import", "import re"), "numpy": ("import", "import numpy"), "StructureFormatError": ("import", "from diffpy.structure.structureerrors import StructureFormatError"),
            "getSymOp": ("def", None), "_symop_constant": ("def", None), "symvec": ("assign", None)}
    for n, (kind, stmt) in want.items():
        got = bnd.get(n, [])
        if len(got) != 1 or got[0][0] != kind:
            raise U("global `%s` is bound %d time(s) (%s) where exactly one %s is expected" % (n, len(got), ", ".join("%s@%d" % g for g in got), kind))
        if stmt:
            ok = False
            for x in tree.body:
                if isinstance(x, ast.Import) and stmt == "import " + n and any(al.name == n and al.asname is None for al in x.names):
                    ok = True
                if isinstance(x, ast.ImportFrom) and x.level == 0 and stmt.startswith("from %s import " % x.module) and any(
                        al.name == n and al.asname is None for al in x.names):
                    ok = True
            if not ok:
                raise U("`%s` not found at module level" % stmt)
    for n in ("float", "len", "str", "SymOp"):
        got = [g for g in bnd.get(n, []) if not (n == "SymOp" and g[0] == "import")]
        if got:
            raise U("builtin/global `%s` is rebound in the module (%s)" % (n, ", ".join("%s@%d" % g for g in got)))
    # `SymOp` is imported only inside functions, from diffpy.structure.spacegroups
    for x in ast.walk(tree):
        if isinstance(x, (ast.Import, ast.ImportFrom)) and any((al.asname or al.name) == "SymOp" for al in x.names):
            if not (isinstance(x, ast.ImportFrom) and x.module == "diffpy.structure.spacegroups" and x.level == 0 and all(al.asname is None for al in x.names)):
                raise U("`SymOp` imported from elsewhere: `%s`" % ast.unparse(x))
    for x in ast.walk(tree):
        if isinstance(x, ast.Call) and isinstance(x.func, ast.Name) and x.func.id in ("globals", "vars", "locals", "setattr", "delattr"):
            # a module that edits its own namespace cannot be read statically
            if x.func.id in ("globals", "setattr", "delattr"):
                raise U("the module calls `%s(...)`: its global names cannot be resolved statically" % x.func.id)


def count_name(tree, name):
    return sum(1 for x in ast.walk(tree) if isinstance(x, ast.Name) and x.id == name)


def read_symvec(tree):
    """value of the module dictionary `symvec` after the module body has run: display + alias assignments"""
    items = {}
    order = []
    seen = 0      # occurrences of the name in the statements read here
    state = 0      # 0 before the display, 1 in the alias block, 2 after
    for st in tree.body:
        mentions = any(isinstance(x, ast.Name) and x.id == "symvec" for x in ast.walk(st))
        if isinstance(st, (ast.FunctionDef, ast.ClassDef)):
            continue
        if not mentions:
            if state == 1:
                state = 2
            continue
        if state == 0:
            if not (isinstance(st, ast.Assign) and len(st.targets) == 1 and isinstance(st.targets[0], ast.Name) and isinstance(st.value, ast.Dict)):
                raise U("symvec: `%s` where `symvec = {…}` is expected" % ast.unparse(st)[:80])
            for k, v in zip(st.value.keys, st.value.values):
                if not (isinstance(k, ast.Constant) and isinstance(k.value, str)) or any(ord(c) >= 128 for c in k.value):
                    raise U("symvec: key `%s`" % (ast.unparse(k) if k is not None else "**"))
                tpl = ast.parse("numpy.array([__a, __b, __c], dtype=float)").body[0].value
                b = {}
                try:
                    unify(tpl, v, b)
                except NoMatch as e:
                    raise U("symvec[%r]: %s" % (k.value, e))
                vec = []
                for q in "abc":
                    n = b[q]
                    sgn = 1
                    if isinstance(n, ast.UnaryOp) and isinstance(n.op, ast.USub):
                        sgn, n = -1, n.operand
                    if not (isinstance(n, ast.Constant) and type(n.value) is int):
                        raise U("symvec[%r]: entry `%s` is not an integer literal" % (k.value, ast.unparse(b[q])))
                    vec.append(sgn * n.value)
                if k.value in items:
                    order.remove(k.value)
                items[k.value] = tuple(vec)
                order.append(k.value)
            seen += count_name(st, "symvec")
            state = 1
        elif state == 1:
            tpl = ast.parse("symvec[__k] = symvec[__j]").body[0]
            b = {}
            try:
                unify(tpl, st, b)
            except NoMatch as e:
                raise U("symvec: statement `%s`: %s" % (ast.unparse(st)[:80], e))
            for q in "kj":
                if not (isinstance(b[q], ast.Constant) and isinstance(b[q].value, str)) or any(ord(c) >= 128 for c in b[q].value):
                    raise U("symvec: key `%s`" % ast.unparse(b[q]))
            if b["j"].value not in items:
                raise U("symvec: alias of the missing key %r" % b["j"].value)
            if b["k"].value not in items:
                order.append(b["k"].value)
            items[b["k"].value] = items[b["j"].value]
            seen += count_name(st, "symvec")
        else:
            raise U("symvec: further module-level statement `%s`" % ast.unparse(st)[:80])
    if state == 0:
        raise U("symvec = {…} not found at module level")
    return [(k, items[k]) for k in order], seen


def read_rx(tree, name):
    pats = [st for st in tree.body if isinstance(st, ast.Assign) and any(isinstance(t, ast.Name) and t.id == name for t in st.targets)]
    if len(pats) != 1 or len(pats[0].targets) != 1:
        raise U("`%s = re.compile(…)` is not defined exactly once at module level" % name)
    tpl = ast.parse("re.compile(__p)").body[0].value
    b = {}
    try:
        unify(tpl, pats[0].value, b)
    except NoMatch as e:
        raise U("%s: %s" % (name, e))
    if not (isinstance(b["p"], ast.Constant) and isinstance(b["p"].value, str)):
        raise U("%s: pattern `%s` is not a string literal" % (name, ast.unparse(b["p"])))
    return b["p"].value


def translate(report):
    info = {"methods": {}, "untranslatable": {}}
    report[GROUP] = info
    path = os.path.join(pysrc.REPO, "src", "diffpy", "structure", "parsers", "p_cif.py")
    try:
        tree = ast.parse(open(path, encoding="utf-8").read())
    except (OSError, SyntaxError) as e:
        raise U("cannot read the source: %s" % e)
    out = []
    L = pysrc.lean_str

    def fail(name, e):
        info["untranslatable"][name] = str(e)
        return "def %s_untranslatable : String := %s\n\n" % (name, L(str(e)))

    env_ok = True
    try:
        check_environment(tree, info)
    except pysrc.Untranslatable as e:
        env_ok = False
        out.append(fail("environment", e))

    # ---- symvec ---------------------------------------------------------------------------------------
    symvec_ok = False
    try:
        items, nsym = read_symvec(tree)
        symvec_ok = True
        out.append("/-- the module dictionary `symvec` after the module body has run (dict display, then the alias assignments) -/\n"
                   "def symvec : List (List Char × Vec) :=\n  [" + ",\n   ".join("(%s, (%d, %d, %d))" % ((lean_chars(k),) + v) for k, v in items) + "]\n\n")
        info["methods"]["symvec"] = True
    except pysrc.Untranslatable as e:
        nsym = None
        out.append(fail("symvec", e))

    # ---- _symop_constant ------------------------------------------------------------------------------
    const_ok = False
    try:
        if not env_ok:
            raise U("the global environment is not the expected one")
        fn = pysrc.find_func(tree.body, "_symop_constant")
        (param,) = plain_function(fn, "_symop_constant", 1)
        b = match_body("_symop_constant", strip_doc(fn.body), T_CONSTANT)
        nm, groups = names(b, ["total", "pos", "tp", "mx", "em1", "nom", "u", "den", "em2"], "_symop_constant", set(PROTECTED))
        if not isinstance(b["rx"], ast.Name) or b["rx"].id in PROTECTED or b["rx"].id in nm.values():
            raise U("_symop_constant: `%s` where the module-level pattern object is expected" % ast.unparse(b["rx"]))
        nm["rx"] = b["rx"].id
        if nm["tp"] != param:
            raise U("_symop_constant: `%s` is not the parameter" % nm["tp"])
        # distinct roles must have distinct names (the two message variables may coincide, `_` may be anything unused)
        for v, ks in groups.items():
            ks = set(ks)
            if len(ks) > 1 and not ks <= {"em1", "em2"}:
                raise U("_symop_constant: one name `%s` for the roles %s" % (v, sorted(ks)))
        rxname = nm["rx"]
        pat = read_rx(tree, rxname)
        if count_name(tree, rxname) != 2:
            raise U("the pattern object `%s` is used elsewhere than in `%s.match(…)`" % (rxname, rxname))
        bnd = bindings_of(tree).get(rxname, [])
        if len(bnd) != 1:
            raise U("`%s` is bound %d times" % (rxname, len(bnd)))
        signs = const(b, "signs", str, "_symop_constant")
        if any(ord(c) >= 128 for c in signs):
            raise U("_symop_constant: non-ASCII sign characters")
        slash = one_char(const(b, "slash", str, "_symop_constant"), "partition separator", "_symop_constant")
        fmt1 = const(b, "fmt1", str, "_symop_constant")
        fmt2 = const(b, "fmt2", str, "_symop_constant")
        for f in (fmt1, fmt2):
            # `fmt % str` cannot raise for these conversion counts
            body = f.replace("%%", "")
            if body.count("%") != 1 or not any(body[body.index("%"):].startswith(c) for c in ("%r", "%s")):
                raise U("_symop_constant: message format %r is not one %%r/%%s conversion" % f)
        tree_rx, _ = convert_pattern(pat)
        out.append("/-- pattern text of `%s` -/\ndef rx_symop_constant_pattern : String := %s\n\n" % (rxname, L(pat)))
        out.append("/-- `%s` as data for `DS.Rx.mK` (from CPython's parse tree of the pattern) -/\ndef rx_symop_constant : Re :=\n  %s\n\n" % (rxname, re_to_lean(tree_rx)))
        out.append("/-- the two message formats of `_symop_constant` (both raise `StructureFormatError`) -/\ndef symop_constant_messages : List String := [%s, %s]\n\n" % (L(fmt1), L(fmt2)))
        out.append("""/-- body of the `while` loop of `_symop_constant`, iteration bound `fuel` -/
def symop_constant_loop (tpart : List Char) : Nat → Frac → Nat → Except Exn Frac
  | 0, _, _ => .error .fuel
  | fuel + 1, total, pos =>
    if pos < tpart.length then
      match pyMatch rx_symop_constant tpart pos with
      | none => .error .structureFormatError
      | some mx => do
        let bad ← (if 0 < pos then (do let c ← listIndex tpart pos; pure (!(%s.contains c))) else pure false)
        if bad then .error .structureFormatError else
        let p := partition %s (group tpart mx)
        let nom := p.1
        let den := p.2.2
        let z ← (if !den.isEmpty then (do let d ← float den; pure (decide (d.num = 0))) else pure false)
        if z then .error .structureFormatError else
        let v ← (if !den.isEmpty then (do let a ← float nom; let b ← float den; fdiv a b) else float nom)
        symop_constant_loop tpart fuel (total.add v) mx.2
    else pure total

/-- `_symop_constant(tpart)`: `total = 0.0`, `pos = 0`, the loop, `return total` -/
def symop_constant (tpart : List Char) : Except Exn Frac :=
  symop_constant_loop tpart (tpart.length + 1) Frac.zero 0

""" % (lean_chars(signs), lean_char(ord(slash))))
        const_ok = True
        info["methods"]["_symop_constant"] = True
    except pysrc.Untranslatable as e:
        out.append(fail("symop_constant", e))

    # ---- getSymOp -------------------------------------------------------------------------------------
    try:
        if not env_ok:
            raise U("the global environment is not the expected one")
        fn = pysrc.find_func(tree.body, "getSymOp")
        (param,) = plain_function(fn, "getSymOp", 1)
        b = match_body("getSymOp", strip_doc(fn.body), T_GETSYMOP)
        nm, groups = names(b, ["snb", "s", "eql", "R", "t", "i", "eqp", "Rp", "tp", "rv"], "getSymOp", set(PROTECTED))
        nm["cfn"] = b["cfn"].id if isinstance(b["cfn"], ast.Name) else ast.unparse(b["cfn"])
        if nm["s"] != param:
            raise U("getSymOp: `%s` is not the parameter" % nm["s"])
        for v, ks in groups.items():
            if len(ks) > 1:
                raise U("getSymOp: one name `%s` for the roles %s" % (v, sorted(ks)))
        if nm["cfn"] != "_symop_constant":
            raise U("getSymOp: the constant text goes to `%s`, not to `_symop_constant`" % nm["cfn"])
        if count_name(tree, "_symop_constant") != 1:
            raise U("`_symop_constant` is used elsewhere")
        if not symvec_ok:
            raise U("depends on symvec, which is untranslatable")
        if not const_ok:
            raise U("depends on _symop_constant, which is untranslatable")
        if count_name(tree, "symvec") != nsym + 1:   # + the one lookup matched above
            raise U("`symvec` is used elsewhere than in its definition and in getSymOp")
        blank = one_char(const(b, "blank", str, "getSymOp"), "replaced text", "getSymOp")
        if const(b, "empty", str, "getSymOp") != "":
            raise U("getSymOp: replacement text is not empty")
        comma = one_char(const(b, "comma", str, "getSymOp"), "split separator", "getSymOp")
        idx = b["idx"]
        if not (isinstance(idx, ast.Tuple) and all(isinstance(e, ast.Constant) and type(e.value) is int and e.value >= 0 for e in idx.elts)):
            raise U("getSymOp: loop range `%s` is not a tuple of non-negative integer literals" % ast.unparse(idx))
        idxs = [e.value for e in idx.elts]
        ra, rs, ts = (const(b, k, int, "getSymOp") for k in ("ra", "rs", "ts"))
        if ra < 0 or rs < 1 or ts < 1:
            raise U("getSymOp: slice bounds")
        pat = const(b, "pat", str, "getSymOp")
        tree_rx, keep = split_form(pat)
        out.append("/-- pattern text of the `re.split` in `getSymOp` -/\ndef rx_split_pattern : String := %s\n\n" % L(pat))
        out.append("/-- the split pattern as data; `rx_split_keep`: the whole pattern is one capturing group, so the matched\ntexts are kept between the pieces -/\n"
                   "def rx_split : Re :=\n  %s\ndef rx_split_keep : Bool := %s\n\n" % (re_to_lean(tree_rx), "true" if keep else "false"))
        out.append("""/-- body of `for i in %s` -/
def getSymOp_row (eqlist : List (List Char)) (st : (Vec × Vec × Vec) × (Frac × Frac × Frac)) (i : Nat) :
    Except Exn ((Vec × Vec × Vec) × (Frac × Frac × Frac)) := do
  let e ← listIndex eqlist i
  let eqparts ← (match pySplit rx_split rx_split_keep e with | some l => pure l | none => .error .outside)
  let R ← (sliceStep %d %d eqparts).foldlM (fun R Rpart => do
      let v ← dictGet symvec (lower Rpart)
      addRow R i v) st.1
  let t ← (sliceStep 0 %d eqparts).foldlM (fun t tpart => do
      let c ← symop_constant tpart
      addAt t i c) st.2
  pure (R, t)

/-- `getSymOp(s)` -/
def getSymOp (s : List Char) : Except Exn SymOp := do
  let snoblanks := removeAll %s s
  let eqlist := split %s snoblanks
  let st ← %s.foldlM (getSymOp_row eqlist) (zeros33, zeros3)
  let t := subFloor st.2
  pure (mkSymOp st.1 t)

""" % (ast.unparse(idx), ra, rs, ts, lean_char(ord(blank)), lean_char(ord(comma)), "[" + ", ".join(str(i) for i in idxs) + "]"))
        info["methods"]["getSymOp"] = True
    except pysrc.Untranslatable as e:
        out.append(fail("getSymOp", e))

    hdr = ("-- GENERATED by translate/src_symop.py from src/diffpy/structure/parsers/p_cif.py — do not edit\n"
           "import DS.Model.Rx\nnamespace DS.Src.SymOp\nopen DS.Rx DS.PyStr DS.SymText\nset_option linter.unusedVariables false\n\n")
    return hdr + "".join(out) + "end DS.Src.SymOp\n"
