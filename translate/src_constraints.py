"""Source-tie plug-in "constraints": the constraint code of `symmetryutilities.py` -> `lean/DS/Gen/SrcConstraints.lean`.

Loaded by translate/pysrc.py (`pysrc` is injected as a module global).  Reads from `pysrc.REPO`
src/diffpy/structure/symmetryutilities.py:

  _findInvariants, GeneratorSite.__init__ / _findPosParameters / _findUParameters / _findeqUij / positionFormula / UFormula /
  eqIndex / signedRatStr, ExpandAsymmetricUnit.__init__, pruneFormulaDictionary, SymmetryConstraints._findConstraints /
  positionFormulas / UFormulas, and the module constants `epsilon`, `stdUsymbols`, `GeneratorSite.idx2Usymbol`

and emits each as a composition of the numpy/Python primitives of `DS/Model/ConReal.lean` (+ `DS/Model/SymReal.lean`) over a
generic scalar.  `DS/Props/SrcConstraints.lean` proves that these definitions compute the models `DS.Con` / `DS.Partition`.
NOT transliterated (certificate-checked by the harness): `nullSpace`, `_findNullSpace`, `_findUSpace` (SVD); they enter
`generatorSiteInit` as function parameters.  Recorded as text (`facts`): declarations of attributes, the string formatting of the
formula pieces (`"%s*%s " % ...`, the final `re.sub`/`strip`), the `%+g` fallback of `signedRatStr`, `isconstantFormula`.

How it works: every function has a fixed statement SKELETON (loops, branches, the statements on lists / dictionaries / sets)
that is compared as text (`ast.unparse` normal form); the numeric expressions and the straight-line numeric blocks inside go
through a typed expression translator (`Ex`), so a changed constant, operator, operand order, index, comparison or a dropped
numeric statement changes the emitted Lean term, and anything outside the subset raises `Untranslatable`
(=> `def <name>_untranslatable`, the tie theorems do not elaborate, the check reports a broken tie).

Types (fixed from the call sites): S scalar, V length-3 array, M 3x3 array, LV n x 3 array, LM list of 3x3, LS flat array,
BV / BM / LB boolean arrays, B bool, N non-negative int, LN list of ints, STR str, LSTR list of str, OP SymOp, LOP / LLOP lists.
An operation that may raise (indexing, `dict[key]`, `next`, `.index`) is bound with `Option.bind` in source order.
"""
import ast
import os
import re

GROUP = "constraints"
OUTFILE = "SrcConstraints.lean"

# the module global `pysrc` is injected by translate/pysrc.py before this file is executed


def U(msg):
    return pysrc.Untranslatable(msg)


def flt(v):
    """a Python float constant as a Lean scientific literal of the scalar type"""
    r = repr(float(v))
    if "inf" in r or "nan" in r:
        raise U("float constant %r" % (v,))
    m = re.fullmatch(r"(-?)(\d+)(?:\.(\d+))?(?:e([-+]?\d+))?", r)
    if not m or m.group(1):
        raise U("float constant %r" % (v,))
    ip, fp, ex = m.group(2), m.group(3) or "0", m.group(4)
    s = "%s.%s" % (ip, fp)
    if ex is not None:
        s += "e%d" % int(ex)
    return "(%s : α)" % s


def chars(s):
    """a Python str as a Lean `List Char` literal"""
    for c in s:
        if not (c.isalnum() and c.isascii()):
            raise U("string constant %r" % (s,))
    return "[" + ", ".join("'%s'" % c for c in s) + "]"


def tmpname(node):
    t = re.sub(r"[^A-Za-z0-9]+", "_", ast.unparse(node)).strip("_")
    return t


CMPV = {ast.Lt: "lt", ast.LtE: "le", ast.Gt: "gt", ast.GtE: "ge", ast.Eq: "eq", ast.NotEq: "ne"}
CMPS = {ast.Lt: "<", ast.LtE: "≤", ast.Gt: ">", ast.GtE: "≥", ast.Eq: "=", ast.NotEq: "≠"}


class Ex:
    """typed expression translator.  `env`: python name / attribute text -> (lean text, type).  Operations that may raise are
    appended to `pre` as `(<option expr>).bind fun <name> =>` lines (source order) and the name is returned."""

    def __init__(self, env, pre=None, calls=None):
        self.env = dict(env)
        self.pre = pre if pre is not None else []
        self.calls = calls or {}  # python callable text -> function(self, args) -> (lean, type)

    def bind(self, node, opt_expr, typ, name=None):
        nm = name or tmpname(node)
        self.pre.append("(%s).bind fun %s =>" % (opt_expr, nm))
        return nm, typ

    # ---- helpers -------------------------------------------------------------------------------------------------
    def idx_int(self, node):
        """an index expression as a Lean `Int`"""
        if isinstance(node, ast.Constant) and type(node.value) is int:
            return "(%d : Int)" % node.value
        if isinstance(node, ast.UnaryOp) and isinstance(node.op, ast.USub) and isinstance(node.operand, ast.Constant) \
                and type(node.operand.value) is int:
            return "(%d : Int)" % (-node.operand.value)
        e = self.tx(node)
        if e[1] == "N":
            return "(Int.ofNat %s)" % e[0]
        raise U("index `%s` of type %s" % (ast.unparse(node), e[1]))

    def nat(self, node):
        e = self.tx(node)
        if e[1] != "N":
            raise U("`%s` is not a non-negative int" % ast.unparse(node))
        return e[0]

    # ---- expressions -----------------------------------------------------------------------------------------------
    def tx(self, n):
        if isinstance(n, ast.Constant):
            if type(n.value) is float:
                return flt(n.value), "S"
            if type(n.value) is int and n.value >= 0:
                return "%d" % n.value, "N"
            if type(n.value) is str:
                return chars(n.value), "STR"
            if n.value is True or n.value is False:
                return ("true" if n.value else "false"), "B"
            raise U("constant %r" % (n.value,))
        if isinstance(n, ast.Name):
            if n.id in self.env:
                return self.env[n.id]
            raise U("name `%s`" % n.id)
        if isinstance(n, ast.Attribute):
            src = ast.unparse(n)
            if src in self.env:
                return self.env[src]
            base = self.tx(n.value)
            if base[1] == "OP" and n.attr == "R":
                return "%s.R" % base[0], "M"
            if base[1] == "OP" and n.attr == "t":
                return "%s.t" % base[0], "V"
            if base[1] in ("M",) and n.attr == "T":
                return "(Np.transpose %s)" % base[0], "M"
            if base[1] == "GEN" and n.attr in GEN_FIELDS:
                return "%s.%s" % (base[0], n.attr), GEN_FIELDS[n.attr]
            raise U("attribute `%s`" % src)
        if isinstance(n, ast.Tuple):
            es = [self.tx(e) for e in n.elts]
            return "(%s)" % ", ".join(e[0] for e in es), "T(" + ",".join(e[1] for e in es) + ")"
        if isinstance(n, ast.BoolOp):
            es = [self.tx(v) for v in n.values]
            if any(e[1] != "B" for e in es):
                raise U("boolean operator on non-booleans: `%s`" % ast.unparse(n))
            op = " && " if isinstance(n.op, ast.And) else " || "
            return "(" + op.join(e[0] for e in es) + ")", "B"
        if isinstance(n, ast.UnaryOp) and isinstance(n.op, ast.Not):
            e = self.truth(n.operand)
            return "(!%s)" % e, "B"
        if isinstance(n, ast.BinOp):
            return self.binop(n)
        if isinstance(n, ast.Compare):
            return self.compare(n)
        if isinstance(n, ast.Subscript):
            return self.subscript(n)
        if isinstance(n, ast.Call):
            return self.call(n)
        if isinstance(n, ast.ListComp):
            return self.listcomp(n)
        raise U("expression `%s`" % ast.unparse(n))

    def truth(self, n):
        """truth value of an expression used as a condition"""
        e = self.tx(n)
        if e[1] == "B":
            return e[0]
        if e[1] in ("FSTR", "FDICT", "LV", "LN", "LSTR"):
            return "(!%s.isEmpty)" % e[0]
        if e[1] == "OLOP":
            return "(Py.truthyOL %s)" % e[0]
        raise U("truth value of `%s` (type %s)" % (ast.unparse(n), e[1]))

    def binop(self, n):
        a, b = self.tx(n.left), self.tx(n.right)
        ta, tb = a[1], b[1]
        op = type(n.op)
        sym = {ast.Add: "+", ast.Sub: "-", ast.Mult: "*", ast.Div: "/"}.get(op)
        if sym is None:
            raise U("operator in `%s`" % ast.unparse(n))
        if ta == "S" and tb == "S":
            return "(%s %s %s)" % (a[0], sym, b[0]), "S"
        if ta == "N" and tb == "N" and op in (ast.Add, ast.Mult):
            return "(%s %s %s)" % (a[0], sym, b[0]), "N"
        if op in (ast.Add, ast.Sub):
            f = "add" if op is ast.Add else "sub"
            if ta == "V" and tb == "V":
                return "(Np.%s %s %s)" % (f, a[0], b[0]), "V"
            if ta == "V" and tb == "S":
                return "(Np.%s %s (Np.fill %s))" % (f, a[0], b[0]), "V"
            if ta == "S" and tb == "V":
                return "(Np.%s (Np.fill %s) %s)" % (f, a[0], b[0]), "V"
            if ta == "M" and tb == "M":
                return "(Np.%sM %s %s)" % (f, a[0], b[0]), "M"
            if ta == "LV" and tb == "V":
                return "(%s.map fun row => Np.%s row %s)" % (a[0], f, b[0]), "LV"
            if ta == "LV" and tb == "LV":
                return "(List.zipWith Np.%s %s %s)" % (f, a[0], b[0]), "LV"
            if ta == "LS" and tb == "LS":
                return "(List.zipWith (fun a b => a %s b) %s %s)" % (sym, a[0], b[0]), "LS"
        if op is ast.Mult:
            if ta == "S" and tb == "V":
                return "(Np.mulS %s %s)" % (a[0], b[0]), "V"
            if ta == "V" and tb == "S":
                return "(Np.mulVS %s %s)" % (a[0], b[0]), "V"
            if ta == "S" and tb == "M":
                return "(Np.smulM %s %s)" % (a[0], b[0]), "M"
            if ta == "S" and tb == "LS":
                return "(%s.map fun d => %s * d)" % (b[0], a[0]), "LS"
        raise U("operator in `%s` on types %s, %s" % (ast.unparse(n), ta, tb))

    def compare(self, n):
        if len(n.ops) != 1:
            raise U("comparison `%s`" % ast.unparse(n))
        op = type(n.ops[0])
        if op in (ast.In, ast.NotIn):
            a, b = self.tx(n.left), self.tx(n.comparators[0])
            neg = "!" if op is ast.NotIn else ""
            if b[1] == "DICT" and a[1] in ("STR", "N"):
                return "%s(Py.dictHas %s %s)" % (neg, b[0], a[0]), "B"
            if b[1] == "SETN" and a[1] == "N":
                return "(%s(%s.contains %s))" % (neg, b[0], a[0]), "B"
            raise U("membership test `%s` on types %s, %s" % (ast.unparse(n), a[1], b[1]))
        if op in (ast.Is, ast.IsNot):
            raise U("identity test `%s`" % ast.unparse(n))
        if op not in CMPV:
            raise U("comparison `%s`" % ast.unparse(n))
        a, b = self.tx(n.left), self.tx(n.comparators[0])
        ta, tb = a[1], b[1]
        if tb == "N" and ta in ("S", "V", "M"):
            b = ("((%s : Int) : α)" % b[0], "S")
            tb = "S"
        if ta == "S" and tb == "S":
            return "(decide (%s %s %s))" % (a[0], CMPS[op], b[0]), "B"
        if ta == "N" and tb == "N":
            return "(decide (%s %s %s))" % (a[0], CMPS[op], b[0]), "B"
        if ta == "V" and tb == "V":
            return "(Np.%s %s %s)" % (CMPV[op], a[0], b[0]), "BV"
        if ta == "V" and tb == "S":
            return "(Np.%s %s (Np.fill %s))" % (CMPV[op], a[0], b[0]), "BV"
        if ta == "M" and tb == "M" and op is ast.Eq:
            return "(Np.eqM %s %s)" % (a[0], b[0]), "BM"
        if ta == "LS" and tb == "S":
            return "(%s.map fun v => decide (v %s %s))" % (a[0], CMPS[op], b[0]), "LB"
        raise U("comparison `%s` on types %s, %s" % (ast.unparse(n), ta, tb))

    def subscript(self, n):
        sl = n.slice
        # numpy.where(mask)[0]
        if isinstance(n.value, ast.Call) and ast.unparse(n.value.func) == "numpy.where" and len(n.value.args) == 1 \
                and not n.value.keywords and isinstance(sl, ast.Constant) and sl.value == 0 and type(sl.value) is int:
            m = self.tx(n.value.args[0])
            if m[1] == "BV":
                return "(Np.where3 %s)" % m[0], "LN"
            if m[1] == "LB":
                return "(Np.whereL %s)" % m[0], "LN"
            if m[1] == "LS":
                return "(Np.whereNZ %s)" % m[0], "LN"
            raise U("numpy.where on type %s" % m[1])
        if isinstance(sl, ast.Slice):
            base = self.tx(n.value)
            if sl.step is not None:
                raise U("slice `%s`" % ast.unparse(n))
            if base[1] in ("STR", "LSTR"):
                b0 = "(Py.chars %s)" % base[0] if base[1] == "STR" else base[0]
                if sl.lower is not None and sl.upper is None:
                    return "(Py.sliceFrom %s %s)" % (b0, self.nat(sl.lower)), "LSTR"
                if sl.lower is not None and sl.upper is not None and base[1] == "LSTR":
                    return "Py.slice %s %s %s" % (b0, self.nat(sl.lower), self.nat(sl.upper)), "LSTR"
            raise U("slice `%s`" % ast.unparse(n))
        base = self.tx(n.value)
        tb = base[1]
        elem = {"LN": "N", "LV": "V", "LM": "M", "LS": "S", "LOP": "OP", "LLOP": "LOP", "LSTR": "STR", "LFSTR": "FSTR",
                "LPAR": "PAR"}.get(tb)
        if tb == "V":
            i = self.tx(sl)
            if i[1] != "N":
                raise U("index of `%s`" % ast.unparse(n))
            return self.bind(n, "Np.get3? %s %s" % (base[0], i[0]), "S")
        if tb == "LS" and self.ty(sl) == "LN":
            return self.bind(n, "Py.takeIdx %s %s" % (base[0], self.tx(sl)[0]), "LS")
        if tb == "PAR" and isinstance(sl, ast.Constant) and sl.value in (0, 1):
            return ("%s.%d" % (base[0], sl.value + 1)), ("STR" if sl.value == 0 else "S")
        if tb == "DICT":
            k = self.tx(sl)
            return self.bind(n, "Py.dictGet %s %s" % (base[0], k[0]), self.env.get("#val:" + ast.unparse(n.value), ("", "STR"))[1])
        if elem is not None:
            return self.bind(n, "Py.getIdx %s %s" % (base[0], self.idx_int(sl)), elem)
        raise U("subscript `%s` on type %s" % (ast.unparse(n), tb))

    def ty(self, node):
        """type of an expression without keeping its binds"""
        sub = Ex(self.env, pre=[], calls=self.calls)
        return sub.tx(node)[1]

    def listcomp(self, n):
        if len(n.generators) != 1:
            raise U("comprehension `%s`" % ast.unparse(n))
        g = n.generators[0]
        if g.is_async or not isinstance(g.target, ast.Name):
            raise U("comprehension `%s`" % ast.unparse(n))
        it = self.tx(g.iter)
        v = g.target.id
        elt_t = {"LOP": "OP", "LM": "M", "LSTR": "STR", "STR": "STR", "LV": "V"}.get(it[1])
        if elt_t is None:
            raise U("comprehension over `%s` (type %s)" % (ast.unparse(g.iter), it[1]))
        src = "(Py.chars %s)" % it[0] if it[1] == "STR" else it[0]
        sub = Ex(dict(self.env, **{v: (v, elt_t)}), pre=[], calls=self.calls)
        conds = [sub.tx(c) for c in g.ifs]
        body = sub.tx(n.elt)
        if sub.pre:
            raise U("comprehension with an operation that may raise: `%s`" % ast.unparse(n))
        if any(c[1] != "B" for c in conds):
            raise U("comprehension condition in `%s`" % ast.unparse(n))
        out_t = {"V": "LV", "M": "LM", "STR": "LSTR", "S": "LS"}.get(body[1])
        if out_t is None:
            raise U("comprehension element `%s` (type %s)" % (ast.unparse(n.elt), body[1]))
        if conds:
            if len(conds) != 1 or body[0] != v:
                raise U("comprehension `%s`" % ast.unparse(n))
            return "(%s.filter fun %s => %s)" % (src, v, conds[0][0]), out_t
        return "(%s.map fun %s => %s)" % (src, v, body[0]), out_t

    def call(self, n):
        f = ast.unparse(n.func)
        # method calls without arguments
        if isinstance(n.func, ast.Attribute) and not n.args and not n.keywords:
            a = self.tx(n.func.value)
            if n.func.attr == "round":
                if a[1] == "S":
                    return "(Np.roundS %s)" % a[0], "S"
                if a[1] == "V":
                    return "(Np.round %s)" % a[0], "V"
                if a[1] == "LV":
                    return "(%s.map Np.round)" % a[0], "LV"
                if a[1] == "LS":
                    return "(%s.map Np.roundS)" % a[0], "LS"
            if n.func.attr == "transpose" and a[1] == "M":
                return "(Np.transpose %s)" % a[0], "M"
            if n.func.attr == "flatten" and a[1] == "M":
                return "(Np.flatten %s)" % a[0], "LS"
            raise U("call `%s` on type %s" % (ast.unparse(n), a[1]))
        if f == "numpy.mean" and len(n.args) == 1 and len(n.keywords) == 1 and n.keywords[0].arg == "axis" \
                and isinstance(n.keywords[0].value, ast.Constant) and n.keywords[0].value.value == 0 \
                and type(n.keywords[0].value.value) is int:
            a = self.tx(n.args[0])
            if a[1] == "LV":
                return "(Np.mean0 %s)" % a[0], "V"
            raise U("numpy.mean on type %s" % a[1])
        if f == "numpy.tril" and len(n.args) == 2 and not n.keywords and ast.unparse(n.args[1]) == "-1":
            a = self.tx(n.args[0])
            if a[1] == "M":
                return "(Np.tril1 %s)" % a[0], "M"
        if f == "numpy.array" and len(n.args) == 1 and (not n.keywords or (len(n.keywords) == 1 and n.keywords[0].arg == "dtype"
                                                                         and ast.unparse(n.keywords[0].value) == "float")):
            a = self.tx(n.args[0])
            if a[1] in ("V", "M", "LV"):
                return a  # a copy with the same values
            raise U("numpy.array on type %s" % a[1])
        if n.keywords or any(isinstance(a, ast.Starred) for a in n.args):
            raise U("call with keywords `%s`" % ast.unparse(n))
        if f in self.calls:
            return self.calls[f](self, n.args)
        args = [self.tx(a) for a in n.args]
        ty = [a[1] for a in args]
        if f in ("numpy.fabs", "abs", "numpy.abs"):
            if ty == ["S"]:
                return "(Np.absS %s)" % args[0][0], "S"
            if ty == ["V"]:
                return "(Np.fabs %s)" % args[0][0], "V"
            if ty == ["LS"]:
                return "(%s.map Np.absS)" % args[0][0], "LS"
        if f == "numpy.all":
            if ty == ["BV"]:
                return "(Np.all %s)" % args[0][0], "B"
            if ty == ["BM"]:
                return "(Np.allM %s)" % args[0][0], "B"
        if f == "numpy.any" and ty == ["BV"]:
            return "(Np.any %s)" % args[0][0], "B"
        if f == "numpy.dot":
            if ty == ["M", "M"]:
                return "(Np.matmul %s %s)" % (args[0][0], args[1][0]), "M"
            if ty == ["LV", "M"]:
                return "(Np.dotLM %s %s)" % (args[0][0], args[1][0]), "LV"
            if ty == ["LS", "LS"]:
                return "(Np.dot1 %s %s)" % (args[0][0], args[1][0]), "S"
            if ty == ["M", "V"]:
                return "(Np.dot %s %s)" % (args[0][0], args[1][0]), "V"
        if f == "numpy.transpose" and ty == ["M"]:
            return "(Np.transpose %s)" % args[0][0], "M"
        if f == "len":
            if ty[0] in ("LV", "LM", "LN", "LOP", "LLOP", "LPAR", "LSTR", "LS"):
                return "%s.length" % args[0][0], "N"
        if f == "range" and ty == ["N"]:
            return "(List.range %s)" % args[0][0], "LN"
        if f == "enumerate" and ty == ["LS"]:
            return "(Py.enumerate %s)" % args[0][0], "LENUM"
        if f == "zip" and len(ty) == 2:
            zt = {("LV", "LPAR"): "LZVP", ("LM", "LPAR"): "LZMP", ("LV", "LM"): "LZVM"}.get((ty[0], ty[1]))
            if zt:
                return "(%s.zip %s)" % (args[0][0], args[1][0]), zt
        if f == "sorted" and ty == ["SETN"]:
            return "Py.sortedNat %s" % args[0][0], "LN"
        raise U("call `%s` on types %s" % (ast.unparse(n), ",".join(ty)))


GEN_FIELDS = {"pparameters": "LPAR", "Uparameters": "LPAR", "eqxyz": "LV", "eqUij": "LM", "Uisotropy": "B",
              "multiplicity": "N", "symops": "LLOP", "null_space": "LV", "Uspace": "LM", "eps": "S", "xyz": "V", "Uij": "M"}


def strip_doc(body):
    return [b for b in body if not (isinstance(b, ast.Expr) and isinstance(b.value, ast.Constant) and isinstance(b.value.value, str))]


def lname(target_src):
    """lean name of an assignment target `x` / `self.x`"""
    return target_src.replace(".", "_")


class Block:
    """straight-line statements -> Lean lines (`let x := e` / `(e).bind fun x =>`); `env` is updated in place"""

    def __init__(self, env, calls=None, frozen=()):
        self.env = env
        self.calls = calls or {}
        self.lines = []
        self.frozen = set(frozen)

    def ex(self):
        return Ex(self.env, pre=self.lines, calls=self.calls)

    def assign(self, tsrc, value, typ_expected=None):
        if tsrc in self.frozen:
            raise U("assignment to `%s`, which is read again outside this block" % tsrc)
        ex = self.ex()
        n0 = len(self.lines)
        e = ex.tx(value)
        name = lname(tsrc)
        if len(self.lines) > n0 and self.lines[-1].endswith("fun %s =>" % e[0]) and isinstance(value, (ast.Subscript, ast.Call)):
            # the value itself is the operation that may raise: bind it under the target's name
            self.lines[-1] = self.lines[-1][: -len("fun %s =>" % e[0])] + "fun %s =>" % name
        else:
            self.lines.append("let %s := %s" % (name, e[0]))
        if typ_expected and e[1] != typ_expected:
            raise U("`%s = %s` has type %s, expected %s" % (tsrc, ast.unparse(value)[:60], e[1], typ_expected))
        self.env[tsrc] = (name, e[1])

    def stmt(self, s):
        if isinstance(s, ast.Assign) and len(s.targets) == 1:
            t = s.targets[0]
            if isinstance(t, (ast.Name, ast.Attribute)):
                return self.assign(ast.unparse(t), s.value)
            if isinstance(t, ast.Subscript):
                base_src = ast.unparse(t.value)
                if base_src in self.frozen:
                    raise U("in-place assignment to `%s`" % base_src)
                base = self.env.get(base_src)
                if base is None:
                    raise U("assignment target `%s`" % ast.unparse(t))
                ex = self.ex()
                if base[1] == "V":
                    m = ex.tx(t.slice)
                    v = ex.tx(s.value)
                    if m[1] != "BV" or v[1] not in ("S", "V"):
                        raise U("masked assignment `%s`" % ast.unparse(s))
                    rhs = v[0] if v[1] == "V" else "(Np.fill %s)" % v[0]
                    self.lines.append("let %s := Np.assignMask %s %s %s" % (base[0], base[0], m[0], rhs))
                    return
                if base[1] == "DICT":
                    k = ex.tx(t.slice)
                    v = ex.tx(s.value)
                    self.lines.append("let %s := Py.dictSet %s %s %s" % (base[0], base[0], k[0], v[0]))
                    return
            raise U("assignment `%s`" % ast.unparse(s)[:80])
        if isinstance(s, ast.AugAssign) and isinstance(s.target, (ast.Name, ast.Attribute)) and isinstance(s.op, (ast.Add, ast.Sub)):
            tsrc = ast.unparse(s.target)
            if tsrc in self.frozen or tsrc not in self.env:
                raise U("augmented assignment `%s`" % ast.unparse(s)[:80])
            cur = self.env[tsrc]
            ex = self.ex()
            v = ex.tx(s.value)
            f = "add" if isinstance(s.op, ast.Add) else "sub"
            if cur[1] == "V" and v[1] == "V":
                self.lines.append("let %s := (Np.%s %s %s)" % (cur[0], f, cur[0], v[0]))
                return
            if cur[1] == "M" and v[1] == "M":
                self.lines.append("let %s := (Np.%sM %s %s)" % (cur[0], f, cur[0], v[0]))
                return
            raise U("augmented assignment `%s` on types %s, %s" % (ast.unparse(s)[:80], cur[1], v[1]))
        if isinstance(s, ast.Expr) and isinstance(s.value, ast.Call) and isinstance(s.value.func, ast.Attribute) \
                and s.value.func.attr == "append" and len(s.value.args) == 1 and not s.value.keywords:
            tsrc = ast.unparse(s.value.func.value)
            if tsrc in self.frozen or tsrc not in self.env:
                raise U("append to `%s`" % tsrc)
            cur = self.env[tsrc]
            ex = self.ex()
            v = ex.tx(s.value.args[0])
            ok = {"LPAR": "T(STR,S)", "LM": "M", "LN": "N", "LB": "B", "LLV": "LV", "LLM": "LM"}
            if ok.get(cur[1]) != v[1]:
                raise U("append of type %s to `%s` of type %s" % (v[1], tsrc, cur[1]))
            self.lines.append("let %s := %s ++ [%s]" % (cur[0], cur[0], v[0]))
            return
        raise U("statement `%s`" % ast.unparse(s)[:80])

    def run(self, stmts):
        for s in stmts:
            self.stmt(s)
        return self.lines


def unique_def(body, name, kind=ast.FunctionDef):
    defs = [n for n in body if isinstance(n, (ast.FunctionDef, ast.AsyncFunctionDef, ast.ClassDef)) and n.name == name]
    for n in body:
        tg = []
        if isinstance(n, ast.Assign):
            tg = n.targets
        elif isinstance(n, (ast.AugAssign, ast.AnnAssign)):
            tg = [n.target]
        if any(isinstance(t, ast.Name) and t.id == name for t in tg):
            raise U("`%s` is rebound by an assignment" % name)
    if len(defs) != 1 or not isinstance(defs[0], kind):
        raise U("`%s`: %d definitions" % (name, len(defs)))
    if defs[0].decorator_list:
        raise U("`%s` is decorated" % name)
    return defs[0]


def signature(fn, names, defaults):
    a = fn.args
    if a.vararg or a.kwarg or a.kwonlyargs or a.posonlyargs:
        raise U("%s: signature" % fn.name)
    got = [x.arg for x in a.args]
    gd = [ast.unparse(d) for d in a.defaults]
    if got != names or gd != defaults:
        raise U("%s: signature (%s) defaults (%s)" % (fn.name, ", ".join(got), ", ".join(gd)))


def expect(stmt, text, what):
    got = ast.unparse(stmt)
    try:
        same = ast.dump(ast.parse(text).body[0]) == ast.dump(ast.parse(got).body[0])
    except SyntaxError:  # `return` / `break` / `continue` outside their context still parse; anything else: compare as text
        same = got == text
    if not same:
        raise U("%s: expected `%s`, found `%s`" % (what, text.replace("\n", " ; "), got.replace("\n", " ; ")[:100]))


def expect_all(stmts, texts, what):
    if len(stmts) != len(texts):
        raise U("%s: %d statements, expected %d" % (what, len(stmts), len(texts)))
    for s, t in zip(stmts, texts):
        expect(s, t, what)


def is_for(s, target, iter_src, what):
    if not (isinstance(s, ast.For) and not s.orelse and ast.unparse(s.target) == target and ast.unparse(s.iter) == iter_src):
        raise U("%s: expected `for %s in %s:`, found `%s`" % (what, target, iter_src, ast.unparse(s).split("\n")[0][:100]))
    return s.body


def is_if(s, what, test_src=None, orelse=False):
    if not isinstance(s, ast.If) or (bool(s.orelse) != orelse):
        raise U("%s: expected an `if`%s, found `%s`" % (what, " with else" if orelse else " without else", ast.unparse(s).split("\n")[0][:100]))
    if test_src is not None and ast.unparse(s.test) != test_src:
        raise U("%s: expected `if %s:`, found `if %s:`" % (what, test_src, ast.unparse(s.test)[:100]))
    return s


def ind(lines, n=1):
    return ["  " * n + ln for ln in lines]


def emit(doc, header, lines):
    return "/-- %s -/\n%s\n%s\n\n" % (doc, header, "\n".join(ind(lines)))


LT = {"S": "α", "V": "V3 α", "M": "M3 α", "LV": "List (V3 α)", "LM": "List (M3 α)", "LS": "List α", "LN": "List Nat", "N": "Nat",
      "LPAR": "List (List Char × α)", "OP": "SymOp α", "LOP": "List (SymOp α)", "LLOP": "List (List (SymOp α))", "B": "Bool",
      "STR": "List Char", "LSTR": "List (List Char)"}


def call_next(ex, args):
    """`next(i for i, x in enumerate(A) if x == c)`"""
    if len(args) != 1 or not isinstance(args[0], ast.GeneratorExp):
        raise U("next(...)")
    g = args[0]
    if len(g.generators) != 1:
        raise U("next(...) generator")
    c = g.generators[0]
    if not (isinstance(c.target, ast.Tuple) and len(c.target.elts) == 2 and all(isinstance(e, ast.Name) for e in c.target.elts)
            and len(c.ifs) == 1 and isinstance(g.elt, ast.Name) and g.elt.id == c.target.elts[0].id and not c.is_async):
        raise U("next(...) generator shape `%s`" % ast.unparse(g))
    it = ex.tx(c.iter)
    if it[1] != "LENUM":
        raise U("next(...) over `%s`" % ast.unparse(c.iter))
    xname = c.target.elts[1].id
    cond = c.ifs[0]
    if not (isinstance(cond, ast.Compare) and len(cond.ops) == 1 and isinstance(cond.ops[0], ast.Eq) and isinstance(cond.left, ast.Name)
            and cond.left.id == xname and isinstance(cond.comparators[0], ast.Constant)):
        raise U("next(...) condition `%s`" % ast.unparse(cond))
    cv = cond.comparators[0].value
    if type(cv) is int:
        cl = "((%d : Int) : α)" % cv
    elif type(cv) is float:
        cl = flt(cv)
    else:
        raise U("next(...) condition constant %r" % (cv,))
    node = ast.Call(func=ast.Name(id="next"), args=args, keywords=[])
    return ex.bind(node, "Py.next? (%s.filterMap fun p => if p.2 = %s then some p.1 else none)" % (it[0], cl), "N", name="next_")


def body_def(name, doc, params, state, itervar, stmts, env, calls=None, frozen=()):
    """one loop body as a Lean definition.  `params`: [(lean name, lean type)], `state`: [(python src, type, lean type)],
    `itervar`: (lean name, lean type).  Returns the text; the body must only assign to state variables and new locals."""
    env = dict(env)
    lines = []
    if len(state) == 1:
        st_params = "(%s : %s)" % (lname(state[0][0]), state[0][2])
        env[state[0][0]] = (lname(state[0][0]), state[0][1])
    else:
        st_params = "(st : %s)" % " × ".join(s[2] for s in state)
        for i, (src, typ, _) in enumerate(state):
            proj = "st." + ".".join(["2"] * i + (["1"] if i < len(state) - 1 else []))
            lines.append("let %s := %s" % (lname(src), proj))
            env[src] = (lname(src), typ)
    blk = Block(env, calls=calls, frozen=frozen)
    blk.lines = lines
    blk.run(stmts)
    for src, typ, _ in state:
        if env[src][1] != typ:
            raise U("%s: `%s` changes its type to %s" % (name, src, env[src][1]))
    ret = " × ".join(s[2] for s in state)
    result = "some " + (lname(state[0][0]) if len(state) == 1 else "(" + ", ".join(lname(s[0]) for s in state) + ")")
    ps = " ".join("(%s : %s)" % p for p in params)
    header = "def %s %s %s (%s : %s) :\n    Option (%s) :=" % (name, ps, st_params, itervar[0], itervar[1], ret)
    return emit(doc, header.replace("  ", " ").replace("def %s  " % name, "def %s " % name), lines + [result])


def wrap(out, info, lean_names, fn):
    """run one translator; on `Untranslatable` emit `<name>_untranslatable` for every definition it would have produced"""
    try:
        txt = fn()
        out.append(txt)
        for n in lean_names:
            info["methods"][n] = True
        return True
    except pysrc.Untranslatable as e:
        for n in lean_names:
            info["untranslatable"][n] = str(e)
            out.append("def %s_untranslatable : String := %s\n\n" % (n, pysrc.lean_str(str(e))))
        return False


# ------------------------------------------------------------------------------------------------------------------------
def tr_constants(t_su, gs):
    out = []
    eps = None
    std = None
    for n in t_su.body:
        if isinstance(n, ast.Assign) and len(n.targets) == 1 and isinstance(n.targets[0], ast.Name):
            if n.targets[0].id == "epsilon":
                if eps is not None or not (isinstance(n.value, ast.Constant) and type(n.value.value) is float):
                    raise U("module constant epsilon")
                eps = n.value.value
            if n.targets[0].id == "stdUsymbols":
                if std is not None or not (isinstance(n.value, ast.List) and all(isinstance(e, ast.Constant) and type(e.value) is str for e in n.value.elts)):
                    raise U("module constant stdUsymbols")
                std = [e.value for e in n.value.elts]
    if eps is None or std is None:
        raise U("module constants epsilon / stdUsymbols not found")
    out.append("/-- module constant `epsilon` -/\ndef epsilon : α := %s\n\n" % flt(eps))
    out.append("/-- module constant `stdUsymbols` -/\ndef stdUsymbols : List (List Char) := [%s]\n\n" % ", ".join(chars(s) for s in std))
    d = None
    for n in gs.body:
        if isinstance(n, ast.Assign) and len(n.targets) == 1 and ast.unparse(n.targets[0]) == "idx2Usymbol":
            if d is not None or not isinstance(n.value, ast.Dict):
                raise U("GeneratorSite.idx2Usymbol")
            d = []
            for k, v in zip(n.value.keys, n.value.values):
                if not (isinstance(k, ast.Constant) and type(k.value) is int and k.value >= 0 and isinstance(v, ast.Constant) and type(v.value) is str):
                    raise U("GeneratorSite.idx2Usymbol entry")
                d.append((k.value, v.value))
            if len({k for k, _ in d}) != len(d):
                raise U("GeneratorSite.idx2Usymbol: repeated key")
    if d is None:
        raise U("GeneratorSite.idx2Usymbol not found")
    out.append("/-- `GeneratorSite.idx2Usymbol` -/\ndef idx2Usymbol : List (Nat × List Char) := [%s]\n\n" % ", ".join("(%d, %s)" % (k, chars(v)) for k, v in d))
    return "".join(out)


def tr_findInvariants(t_su):
    fn = unique_def(t_su.body, "_findInvariants")
    signature(fn, ["symops"], [])
    b = strip_doc(fn.body)
    if len(b) != 6:
        raise U("_findInvariants: %d statements" % len(b))
    expect(b[0], "invrnts = None", "_findInvariants")
    expect(b[1], "R0 = numpy.identity(3, dtype=float)", "_findInvariants")
    expect(b[2], "t0 = numpy.zeros(3, dtype=float)", "_findInvariants")
    outer = is_for(b[3], "ops", "symops", "_findInvariants")
    if len(outer) != 2:
        raise U("_findInvariants: body of the outer loop")
    inner = is_for(outer[0], "op", "ops", "_findInvariants")
    if len(inner) != 1:
        raise U("_findInvariants: body of the inner loop")
    iff = is_if(inner[0], "_findInvariants")
    expect_all(iff.body, ["invrnts = ops", "break"], "_findInvariants inner if")
    expect(outer[1], "if invrnts:\n    break", "_findInvariants")
    expect(b[4], "if invrnts is None:\n    emsg = 'Could not find identity operation.'\n    raise ValueError(emsg)", "_findInvariants")
    expect(b[5], "return invrnts", "_findInvariants")
    ex = Ex({"op": ("op", "OP"), "R0": ("R0", "M"), "t0": ("t0", "V")})
    test = ex.tx(iff.test)
    if test[1] != "B" or ex.pre:
        raise U("_findInvariants: test `%s`" % ast.unparse(iff.test))
    return (
        "/-- `_findInvariants`: body of `for op in ops` -/\n"
        "def findInvariants_inner (ops : List (SymOp α)) (R0 : M3 α) (t0 : V3 α) (invrnts : Option (List (SymOp α))) (op : SymOp α) :\n"
        "    Option (List (SymOp α)) × Bool :=\n"
        "  if %s = true then\n"
        "    let invrnts := some ops\n"
        "    (invrnts, true)\n"
        "  else (invrnts, false)\n\n"
        "/-- `_findInvariants`: body of `for ops in symops` -/\n"
        "def findInvariants_outer (R0 : M3 α) (t0 : V3 α) (invrnts : Option (List (SymOp α))) (ops : List (SymOp α)) :\n"
        "    Option (List (SymOp α)) × Bool :=\n"
        "  let invrnts := Py.forBreak ops invrnts (findInvariants_inner ops R0 t0)\n"
        "  if Py.truthyOL invrnts = true then (invrnts, true) else (invrnts, false)\n\n"
        "/-- `_findInvariants(symops)`; `none` = `ValueError` -/\n"
        "def findInvariants (symops : List (List (SymOp α))) : Option (List (SymOp α)) :=\n"
        "  let invrnts : Option (List (SymOp α)) := none\n"
        "  let R0 : M3 α := Np.identity3\n"
        "  let t0 : V3 α := Np.zeros3\n"
        "  let invrnts := Py.forBreak symops invrnts (findInvariants_outer R0 t0)\n"
        "  if invrnts.isNone = true then none else invrnts\n\n" % test[0])


def tr_findPosParameters(gs):
    fn = unique_def(gs.body, "_findPosParameters")
    signature(fn, ["self"], [])
    b = strip_doc(fn.body)
    if len(b) != 4:
        raise U("_findPosParameters: %d statements" % len(b))
    expect(b[0], "usedsymbol = {}", "_findPosParameters")
    expect(b[1], "txyz = self.xyz", "_findPosParameters")
    body = is_for(b[2], "nvec", "self.null_space", "_findPosParameters")
    expect(b[3], "return", "_findPosParameters")
    env = {"nvec": ("nvec", "V"), "epsilon": ("epsilon", "S")}
    txt = body_def("findPosParameters_body",
                   "`GeneratorSite._findPosParameters`: body of `for nvec in self.null_space`; state `(txyz, self.pparameters, usedsymbol)`",
                   [], [("txyz", "V", "V3 α"), ("self.pparameters", "LPAR", "List (List Char × α)"),
                        ("usedsymbol", "DICT", "List (List Char × Bool)")],
                   ("nvec", "V3 α"), body, env)
    return txt + (
        "/-- `GeneratorSite._findPosParameters(self)`: `self.pparameters` afterwards (it is `[]` before); `none` = an exception -/\n"
        "def findPosParameters (self_null_space : List (V3 α)) (self_xyz : V3 α) : Option (List (List Char × α)) :=\n"
        "  let usedsymbol : List (List Char × Bool) := []\n"
        "  let txyz := self_xyz\n"
        "  (Py.forM self_null_space (txyz, [], usedsymbol) findPosParameters_body).bind fun st =>\n"
        "  some st.2.1\n\n")


def int_tuple(node, what):
    if isinstance(node, ast.Call) and ast.unparse(node.func) == "numpy.array" and len(node.args) == 1 and not node.keywords:
        node = node.args[0]
    if not (isinstance(node, (ast.Tuple, ast.List)) and all(isinstance(e, ast.Constant) and type(e.value) is int and e.value >= 0 for e in node.elts)):
        raise U("%s: not a tuple of non-negative ints" % what)
    return [e.value for e in node.elts]


def tr_findUParameters(gs):
    fn = unique_def(gs.body, "_findUParameters")
    signature(fn, ["self"], [])
    b = strip_doc(fn.body)
    if len(b) != 4:
        raise U("_findUParameters: %d statements" % len(b))
    if not (isinstance(b[0], ast.Assign) and ast.unparse(b[0].targets[0]) == "diagorder"):
        raise U("_findUParameters: `diagorder = ...`")
    diag = int_tuple(b[0].value, "_findUParameters diagorder")
    blk = Block({"self.Uij": ("self_Uij", "M")})
    if not (isinstance(b[1], ast.Assign) and ast.unparse(b[1].targets[0]) == "Uijflat"):
        raise U("_findUParameters: `Uijflat = ...`")
    blk.stmt(b[1])
    if blk.env["Uijflat"][1] != "LS" or len(blk.lines) != 1:
        raise U("_findUParameters: Uijflat")
    body = is_for(b[2], "Usp", "self.Uspace", "_findUParameters")
    expect(b[3], "return", "_findUParameters")
    env = {"Usp": ("Usp", "M"), "diagorder": ("diagorder", "LN"), "Uijflat": ("Uijflat", "LS"),
           "self.idx2Usymbol": ("idx2Usymbol", "DICT")}
    txt = body_def("findUParameters_body", "`GeneratorSite._findUParameters`: body of `for Usp in self.Uspace`",
                   [("diagorder", "List Nat"), ("Uijflat", "List α")],
                   [("self.Uparameters", "LPAR", "List (List Char × α)")], ("Usp", "M3 α"), body, env,
                   calls={"next": call_next}, frozen=("diagorder", "Uijflat", "self.idx2Usymbol"))
    return txt + (
        "/-- `GeneratorSite._findUParameters(self)`: `self.Uparameters` afterwards (it is `[]` before); `none` = an exception -/\n"
        "def findUParameters (self_Uspace : List (M3 α)) (self_Uij : M3 α) : Option (List (List Char × α)) :=\n"
        "  let diagorder : List Nat := [%s]\n"
        "  %s\n"
        "  Py.forM self_Uspace [] (findUParameters_body diagorder Uijflat)\n\n" % (", ".join(map(str, diag)), blk.lines[0]))


def tr_findeqUij(gs):
    fn = unique_def(gs.body, "_findeqUij")
    signature(fn, ["self"], [])
    b = strip_doc(fn.body)
    if len(b) != 4:
        raise U("_findeqUij: %d statements" % len(b))
    expect(b[0], "self.Uij = numpy.zeros((3, 3), dtype=float)", "_findeqUij")
    body1 = is_for(b[1], "i", "range(len(self.Uparameters))", "_findeqUij")
    body2 = is_for(b[2], "ops", "self.symops", "_findeqUij")
    expect(b[3], "return", "_findeqUij")
    env1 = {"i": ("i", "N"), "self.Uspace": ("self_Uspace", "LM"), "self.Uparameters": ("self_Uparameters", "LPAR")}
    t1 = body_def("findeqUij_body1", "`GeneratorSite._findeqUij`: body of `for i in range(len(self.Uparameters))`",
                  [("self_Uspace", "List (M3 α)"), ("self_Uparameters", "List (List Char × α)")],
                  [("self.Uij", "M", "M3 α")], ("i", "Nat"), body1, env1, frozen=("self.Uspace", "self.Uparameters", "i"))
    env2 = {"ops": ("ops", "LOP"), "self.Uij": ("self_Uij", "M")}
    t2 = body_def("findeqUij_body2", "`GeneratorSite._findeqUij`: body of `for ops in self.symops`",
                  [("self_Uij", "M3 α")], [("self.eqUij", "LM", "List (M3 α)")], ("ops", "List (SymOp α)"), body2, env2,
                  frozen=("self.Uij", "ops"))
    return t1 + t2 + (
        "/-- `GeneratorSite._findeqUij(self)`: `(self.Uij, self.eqUij)` afterwards (`self.eqUij` is `[]` before); `none` = an exception -/\n"
        "def findeqUij (self_Uspace : List (M3 α)) (self_Uparameters : List (List Char × α)) (self_symops : List (List (SymOp α))) :\n"
        "    Option (M3 α × List (M3 α)) :=\n"
        "  let self_Uij : M3 α := Np.zerosM\n"
        "  (Py.forM (List.range self_Uparameters.length) self_Uij (findeqUij_body1 self_Uspace self_Uparameters)).bind fun self_Uij =>\n"
        "  (Py.forM self_symops [] (findeqUij_body2 self_Uij)).bind fun self_eqUij =>\n"
        "  some (self_Uij, self_eqUij)\n\n")


GS_DECLS = [
    "self.xyz = numpy.array(xyz, dtype=float)", "self.Uij = numpy.array(Uij, dtype=float)",
    "self.sgoffset = numpy.array(sgoffset, dtype=float)", "self.eps = eps", "self.eqxyz = []", "self.eqUij = []",
    "self.symops = None", "self.multiplicity = None", "self.Uisotropy = False", "self.invariants = []", "self.null_space = None",
    "self.Uspace = None", "self.pparameters = []", "self.Uparameters = []"]
GS_TAIL = ["self.eqxyz = sites", "self.symops = ops", "self.multiplicity = mult", "self.invariants = invariants",
           "self._findNullSpace()", "self._findPosParameters()", "self._findUSpace()", "self._findUParameters()", "self._findeqUij()",
           "return"]


def call_symop(ex, args):
    a = [ex.tx(x) for x in args]
    if [x[1] for x in a] != ["V"]:
        raise U("op(...) argument")
    return "(Src.Sym.symopCall op %s)" % a[0][0], "V"


def expand_call(stmt, env, what, sym_ok):
    """`sites, ops, mult = expandPosition(spacegroup, <xyz>, <off>, <eps>)` -> lean option expression"""
    if not (isinstance(stmt, ast.Assign) and ast.unparse(stmt.targets[0]) == "(sites, ops, mult)" and isinstance(stmt.value, ast.Call)
            and ast.unparse(stmt.value.func) == "expandPosition" and len(stmt.value.args) == 4 and not stmt.value.keywords):
        raise U("%s: expected `sites, ops, mult = expandPosition(...)`, found `%s`" % (what, ast.unparse(stmt)[:80]))
    if not sym_ok:
        raise U("%s: `expandPosition` / `SymOp.__call__` are themselves untranslatable (group sym)" % what)
    if ast.unparse(stmt.value.args[0]) != "spacegroup":
        raise U("%s: first argument of expandPosition" % what)
    ex = Ex(env)
    a = [ex.tx(x) for x in stmt.value.args[1:]]
    if [x[1] for x in a] != ["V", "V", "S"] or ex.pre:
        raise U("%s: arguments of expandPosition" % what)
    return "Src.Sym.expandPosition spacegroup %s %s %s" % (a[0][0], a[1][0], a[2][0])


def tr_init(gs, facts, sym_ok):
    fn = unique_def(gs.body, "__init__")
    signature(fn, ["self", "spacegroup", "xyz", "Uij", "sgoffset", "eps"], ["numpy.zeros((3, 3))", "[0, 0, 0]", "None"])
    b = strip_doc(fn.body)
    expect(b[0], "if eps is None:\n    eps = epsilon", "GeneratorSite.__init__")
    nd = len(GS_DECLS)
    expect_all(b[1:1 + nd], GS_DECLS, "GeneratorSite.__init__ declarations")
    facts["GeneratorSite.__init__ declarations"] = "; ".join(GS_DECLS)
    facts["GeneratorSite.__init__ default eps"] = "if eps is None: eps = epsilon"
    rest = b[1 + nd:]
    if len(rest) != 3 + len(GS_TAIL):
        raise U("GeneratorSite.__init__: %d statements after the declarations" % len(rest))
    env = {"xyz": ("xyz", "V"), "sgoffset": ("sgoffset", "V"), "eps": ("eps", "S"), "self.xyz": ("self_xyz", "V"),
           "self.sgoffset": ("self_sgoffset", "V"), "self.eps": ("self_eps", "S")}
    e1 = expand_call(rest[0], env, "GeneratorSite.__init__", sym_ok)
    expect(rest[1], "invariants = _findInvariants(ops)", "GeneratorSite.__init__")
    iff = is_if(rest[2], "GeneratorSite.__init__", "mult > 1")
    expect_all(rest[3:], GS_TAIL, "GeneratorSite.__init__ tail")
    if len(iff.body) < 2 or not isinstance(iff.body[-1], ast.If):
        raise U("GeneratorSite.__init__: body of `if mult > 1:`")
    frozen = ("xyz", "sgoffset", "eps", "self.sgoffset", "self.eps", "invariants", "mult", "sites", "ops", "spacegroup")
    env1 = dict(env, invariants=("invariants", "LOP"))
    blk1 = Block(env1, calls={"op": call_symop}, frozen=frozen + ("self.xyz",))
    blk1.run(iff.body[:-1])
    inner = is_if(iff.body[-1], "GeneratorSite.__init__ inner if")
    ex = Ex(env1)
    test = ex.tx(inner.test)
    if test[1] != "B" or ex.pre:
        raise U("GeneratorSite.__init__: test `%s`" % ast.unparse(inner.test))
    if len(inner.body) < 2:
        raise U("GeneratorSite.__init__: body of the inner if")
    expect(inner.body[-1], "invariants = _findInvariants(ops)", "GeneratorSite.__init__ inner if")
    blk2 = Block(dict(env1), calls={"op": call_symop}, frozen=frozen)
    blk2.run(inner.body[:-2])
    e2 = expand_call(inner.body[-2], blk2.env, "GeneratorSite.__init__ inner if", sym_ok)
    unpack = ["let sites := r.1", "let ops := r.2.1", "let mult := r.2.2"]
    keep = "some (self_xyz, sites, ops, mult, invariants)"
    lines = ["let self_xyz := xyz", "let self_sgoffset := sgoffset", "let self_eps := eps", "(%s).bind fun r =>" % e1] + unpack + [
        "(findInvariants ops).bind fun invariants =>", "if mult > 1 then"]
    lines += ind(blk1.lines) + ["  if %s = true then" % test[0]]
    lines += ind(blk2.lines, 2) + ind(["(%s).bind fun r =>" % e2] + unpack + ["(findInvariants ops).bind fun invariants =>", keep], 2)
    lines += ["  else " + keep, "else " + keep]
    snap = emit("`GeneratorSite.__init__` up to the comment \"self.xyz, sites, ops are all adjusted here\":\n"
                "`(self.xyz, sites, ops, mult, invariants)`; `none` = an exception",
                "def snapSite (spacegroup : List (SymOp α)) (xyz : V3 α) (sgoffset : V3 α) (eps : α) :\n"
                "    Option (V3 α × List (V3 α) × List (List (SymOp α)) × Nat × List (SymOp α)) :=", lines)
    # `_findUSpace` ends with the isotropy flag; `_findNullSpace` / the rest of `_findUSpace` are the SVD code (parameters here)
    fu = unique_def(gs.body, "_findUSpace")
    fb = strip_doc(fu.body)
    if len(fb) < 2:
        raise U("_findUSpace")
    expect(fb[-1], "return", "_findUSpace")
    if not (isinstance(fb[-2], ast.Assign) and ast.unparse(fb[-2].targets[0]) == "self.Uisotropy"):
        raise U("_findUSpace: last statement is not `self.Uisotropy = ...`")
    iso = Ex({"self.Uspace": ("self_Uspace", "LM")}).tx(fb[-2].value)
    if iso[1] != "B":
        raise U("_findUSpace: Uisotropy")
    for m in ("_findNullSpace", "_findUSpace"):
        f = unique_def(gs.body, m)
        signature(f, ["self"], [])
    init = (
        "/-- `GeneratorSite.__init__(self, spacegroup, xyz, Uij, sgoffset, eps)`; `findNullSpace` / `findUSpace` stand for the SVD based\n"
        "`_findNullSpace` / `_findUSpace` (certificate-checked, not transliterated): `self.null_space` / `self.Uspace` as functions of\n"
        "`self.invariants`; `none` = an exception -/\n"
        "def generatorSiteInit (spacegroup : List (SymOp α)) (findNullSpace : List (SymOp α) → List (V3 α))\n"
        "    (findUSpace : List (SymOp α) → List (M3 α)) (xyz : V3 α) (Uij : M3 α) (sgoffset : V3 α) (eps : α) : Option (GenSite α) :=\n"
        "  (snapSite spacegroup xyz sgoffset eps).bind fun s =>\n"
        "  let self_xyz := s.1\n"
        "  let self_eqxyz := s.2.1\n"
        "  let self_symops := s.2.2.1\n"
        "  let self_multiplicity := s.2.2.2.1\n"
        "  let self_invariants := s.2.2.2.2\n"
        "  let self_null_space := findNullSpace self_invariants\n"
        "  (findPosParameters self_null_space self_xyz).bind fun self_pparameters =>\n"
        "  let self_Uspace := findUSpace self_invariants\n"
        "  let self_Uisotropy := %s\n"
        "  (findUParameters self_Uspace Uij).bind fun self_Uparameters =>\n"
        "  (findeqUij self_Uspace self_Uparameters self_symops).bind fun u =>\n"
        "  some { xyz := self_xyz, Uij := u.1, sgoffset := sgoffset, eps := eps, eqxyz := self_eqxyz, eqUij := u.2,\n"
        "         symops := self_symops, multiplicity := self_multiplicity, Uisotropy := self_Uisotropy,\n"
        "         invariants := self_invariants, null_space := self_null_space, Uspace := self_Uspace,\n"
        "         pparameters := self_pparameters, Uparameters := self_Uparameters }\n\n" % iso[0])
    return snap + init


def call_nearest(ex, args):
    a = [ex.tx(x) for x in args]
    if [x[1] for x in a] != ["LV", "V"]:
        raise U("nearestSiteIndex arguments")
    node = ast.Call(func=ast.Name(id="nearestSiteIndex"), args=args, keywords=[])
    return ex.bind(node, "Src.Sym.nearestSiteIndex %s %s" % (a[0][0], a[1][0]), "N")


def call_equal(ex, args):
    a = [ex.tx(x) for x in args]
    if [x[1] for x in a] != ["V", "V", "S"]:
        raise U("equalPositions arguments")
    return "(Src.Sym.equalPositions %s %s %s)" % (a[0][0], a[1][0], a[2][0]), "B"


SELF_ENV = {"self.eqxyz": ("self.eqxyz", "LV"), "self.symops": ("self.symops", "LLOP"), "self.eps": ("self.eps", "S"),
            "self.null_space": ("self.null_space", "LV"), "self.pparameters": ("self.pparameters", "LPAR"),
            "self.Uspace": ("self.Uspace", "LM"), "self.Uparameters": ("self.Uparameters", "LPAR"), "pos": ("pos", "V"),
            "epsilon": ("epsilon", "S")}


def str_list(node, what):
    if not (isinstance(node, (ast.Tuple, ast.List)) and all(isinstance(e, ast.Constant) and type(e.value) is str for e in node.elts)):
        raise U("%s: not a tuple of strings" % what)
    return "[" + ", ".join(chars(e.value) for e in node.elts) + "]"


def find_equivalent(stmts, what, sym_ok):
    """the first five statements of positionFormula / UFormula -> lines of `findEquivalent`"""
    if not sym_ok:
        raise U("%s: `nearestSiteIndex` / `equalPositions` are themselves untranslatable (group sym)" % what)
    if len(stmts) != 4:
        raise U("%s: lookup prefix" % what)
    blk = Block(dict(SELF_ENV), calls={"nearestSiteIndex": call_nearest, "equalPositions": call_equal},
                frozen=("pos", "self.eqxyz", "self.symops", "self.eps"))
    blk.run(stmts[:2])
    iff = is_if(stmts[2], what)
    expect_all(iff.body, ["return {}"], what)
    ex = blk.ex()
    n0 = len(blk.lines)
    test = ex.tx(iff.test)
    if test[1] != "B" or len(blk.lines) != n0:
        raise U("%s: test `%s`" % (what, ast.unparse(iff.test)))
    blk.lines.append("if %s = true then some none else" % test[0])
    if not (isinstance(stmts[3], ast.Assign) and ast.unparse(stmts[3].targets[0]) == "R"):
        raise U("%s: `R = ...`" % what)
    blk.stmt(stmts[3])
    if blk.env.get("R", ("", ""))[1] != "M" or blk.env.get("eqpos", ("", ""))[1] != "V":
        raise U("%s: types of eqpos / R" % what)
    return blk.lines + ["some (some (eqpos, R))"]


def piece_stmt(s, what, target, fmt, ex, kind):
    """`xyzformula[i] += '%s*%s ' % (self.signedRatStr(c), name2sym[vname])` / `... += self.signedRatStr(c)` /
    `f = '%+g*%s' % (c, name2sym[vname])` -> (coefficient lean, symbol lean or None)"""
    v = s.value
    if kind == "const":
        if not (isinstance(v, ast.Call) and ast.unparse(v.func) == "self.signedRatStr" and len(v.args) == 1 and not v.keywords):
            raise U("%s: expected `%s += self.signedRatStr(...)`" % (what, target))
        c = ex.tx(v.args[0])
        if c[1] != "S":
            raise U("%s: argument of signedRatStr" % what)
        return c[0], None
    if not (isinstance(v, ast.BinOp) and isinstance(v.op, ast.Mod) and isinstance(v.left, ast.Constant) and v.left.value == fmt
            and isinstance(v.right, ast.Tuple) and len(v.right.elts) == 2):
        raise U("%s: expected the format `%s %% (coefficient, symbol)`, found `%s`" % (what, fmt, ast.unparse(v)[:80]))
    c0, sy = v.right.elts
    if kind == "rat":
        if not (isinstance(c0, ast.Call) and ast.unparse(c0.func) == "self.signedRatStr" and len(c0.args) == 1 and not c0.keywords):
            raise U("%s: coefficient is not printed by self.signedRatStr" % what)
        c0 = c0.args[0]
    c = ex.tx(c0)
    y = ex.tx(sy)
    if c[1] != "S" or y[1] != "STR":
        raise U("%s: types of coefficient / symbol" % what)
    return c[0], y[0]


class CEx(Ex):
    """Ex that binds each source text only once (for one loop body without intervening assignments)"""

    def __init__(self, env, pre, calls=None):
        Ex.__init__(self, env, pre, calls)
        self.cache = {}

    def bind(self, node, opt_expr, typ, name=None):
        key = ast.unparse(node)
        if key in self.cache:
            return self.cache[key]
        r = Ex.bind(self, node, opt_expr, typ, name)
        self.cache[key] = r
        return r


def tr_positionFormula(gs, facts, sym_ok):
    fn = unique_def(gs.body, "positionFormula")
    signature(fn, ["self", "pos", "xyzsymbols"], ["('x', 'y', 'z')"])
    b = strip_doc(fn.body)
    if len(b) != 13:
        raise U("positionFormula: %d statements" % len(b))
    fe = find_equivalent(b[:4], "positionFormula", sym_ok)
    out = emit("`positionFormula` / `UFormula`: \"find pos in eqxyz\" — `none` = an exception, `some none` = `return {}`,\n"
               "`some (some (eqpos, R))` otherwise",
               "def findEquivalent (self : GenSite α) (pos : V3 α) : Option (Option (V3 α × M3 α)) :=", fe)
    env = dict(SELF_ENV, eqpos=("eqpos", "V"), R=("R", "M"))
    blk = Block(env, frozen=("pos", "eqpos", "R", "self.null_space", "self.pparameters"))
    blk.run(b[4:6])
    if env.get("nsrotated", ("", ""))[1] != "LV" or env.get("teqpos", ("", ""))[1] != "V":
        raise U("positionFormula: types of nsrotated / teqpos")
    body = is_for(b[6], "(nvec, (vname, varvalue))", "zip(nsrotated, self.pparameters)", "positionFormula")
    if len(body) != 1 or not isinstance(body[0], ast.AugAssign):
        raise U("positionFormula: body of the offset loop")
    b1 = Block({"teqpos": ("teqpos", "V"), "nvec": ("e.1", "V"), "varvalue": ("e.2.2", "S"), "vname": ("e.2.1", "STR")})
    b1.run(body)
    if len(b1.lines) != 1 or not b1.lines[0].startswith("let teqpos := "):
        raise U("positionFormula: offset loop")
    blk.lines.append("let teqpos := (nsrotated.zip self.pparameters).foldl (fun teqpos e => %s) teqpos" % b1.lines[0][len("let teqpos := "):])
    if not (isinstance(b[7], ast.Assign) and ast.unparse(b[7].targets[0]) == "name2sym" and isinstance(b[7].value, ast.Call)
            and ast.unparse(b[7].value.func) == "dict" and len(b[7].value.args) == 1 and isinstance(b[7].value.args[0], ast.Call)
            and ast.unparse(b[7].value.args[0].func) == "zip" and len(b[7].value.args[0].args) == 2
            and ast.unparse(b[7].value.args[0].args[1]) == "xyzsymbols"):
        raise U("positionFormula: `name2sym = dict(zip(..., xyzsymbols))`")
    keys = str_list(b[7].value.args[0].args[0], "positionFormula name2sym keys")
    blk.lines.append("let name2sym := Py.dictZip %s xyzsymbols" % keys)
    expect(b[8], "xyzformula = 3 * ['']", "positionFormula")
    blk.lines.append("let xyzformula : List (FStr α) := List.replicate 3 []")
    # term loop
    body = is_for(b[9], "(nvec, (vname, ignore))", "zip(nsrotated, self.pparameters)", "positionFormula")
    if len(body) != 1:
        raise U("positionFormula: body of the term loop")
    inner = is_for(body[0], "i", "range(3)", "positionFormula")
    if len(inner) != 2:
        raise U("positionFormula: body of `for i in range(3)` (terms)")
    iff = is_if(inner[0], "positionFormula term loop")
    expect_all(iff.body, ["continue"], "positionFormula term loop")
    tenv = {"nvec": ("nvec", "V"), "vname": ("vname", "STR"), "i": ("i", "N"), "epsilon": ("epsilon", "S"),
            "name2sym": ("name2sym", "DICT"), "xyzformula": ("xyzformula", "LFSTR")}
    tl = []
    ex = CEx(tenv, tl)
    test = ex.tx(iff.test)
    if test[1] != "B":
        raise U("positionFormula: test `%s`" % ast.unparse(iff.test))
    tl.append("if %s = true then some xyzformula else" % test[0])
    s = inner[1]
    if not (isinstance(s, ast.AugAssign) and isinstance(s.op, ast.Add) and ast.unparse(s.target) == "xyzformula[i]"):
        raise U("positionFormula: expected `xyzformula[i] += ...`")
    cur = ex.tx(s.target)
    c, y = piece_stmt(s, "positionFormula term", "xyzformula[i]", "%s*%s ", ex, "rat")
    tl.append("Py.listSet xyzformula i (%s ++ [FPiece.term %s %s])" % (cur[0], c, y))
    out += emit("`positionFormula`: body of `for i in range(3)` inside `for nvec, (vname, ignore) in zip(nsrotated, self.pparameters)`",
                "def positionFormula_term (name2sym : List (List Char × List Char)) (nvec : V3 α) (vname : List Char)\n"
                "    (xyzformula : List (FStr α)) (i : Nat) : Option (List (FStr α)) :=", tl)
    out += emit("`positionFormula`: body of `for nvec, (vname, ignore) in zip(nsrotated, self.pparameters)` (second loop)",
                "def positionFormula_terms (name2sym : List (List Char × List Char)) (xyzformula : List (FStr α)) (e : V3 α × (List Char × α)) :\n"
                "    Option (List (FStr α)) :=",
                ["let nvec := e.1", "let vname := e.2.1", "Py.forM (List.range 3) xyzformula (positionFormula_term name2sym nvec vname)"])
    # constant loop
    inner = is_for(b[10], "i", "range(3)", "positionFormula")
    if len(inner) != 2:
        raise U("positionFormula: body of `for i in range(3)` (constants)")
    iff = is_if(inner[0], "positionFormula constant loop")
    expect_all(iff.body, ["continue"], "positionFormula constant loop")
    cenv = {"teqpos": ("teqpos", "V"), "i": ("i", "N"), "epsilon": ("epsilon", "S"), "xyzformula": ("xyzformula", "LFSTR")}
    cl = []
    ex = CEx(cenv, cl)
    # `xyzformula[i] and abs(teqpos[i]) < epsilon`
    t = iff.test
    if not (isinstance(t, ast.BoolOp) and isinstance(t.op, ast.And) and len(t.values) == 2):
        raise U("positionFormula: test `%s`" % ast.unparse(t))
    t1 = ex.truth(t.values[0])
    t2 = ex.tx(t.values[1])
    if t2[1] != "B":
        raise U("positionFormula: test `%s`" % ast.unparse(t))
    cl.append("if (%s && %s) = true then some xyzformula else" % (t1, t2[0]))
    s = inner[1]
    if not (isinstance(s, ast.AugAssign) and isinstance(s.op, ast.Add) and ast.unparse(s.target) == "xyzformula[i]"):
        raise U("positionFormula: expected `xyzformula[i] += ...`")
    cur = ex.tx(s.target)
    c, _ = piece_stmt(s, "positionFormula constant", "xyzformula[i]", None, ex, "const")
    cl.append("Py.listSet xyzformula i (%s ++ [FPiece.const %s])" % (cur[0], c))
    out += emit("`positionFormula`: body of `for i in range(3)` (\"add constant offset teqpos to all formulas\")",
                "def positionFormula_const (teqpos : V3 α) (xyzformula : List (FStr α)) (i : Nat) : Option (List (FStr α)) :=", cl)
    expect(b[11], "xyzformula = [re.sub('^[+]1[*]|(?<=[+-])1[*]', '', f).strip() for f in xyzformula]", "positionFormula")
    facts["positionFormula clean-up"] = "xyzformula = [re.sub('^[+]1[*]|(?<=[+-])1[*]', '', f).strip() for f in xyzformula]"
    facts["positionFormula term format"] = "xyzformula[i] += '%s*%s ' % (self.signedRatStr(coefficient), name2sym[vname])"
    if not (isinstance(b[12], ast.Return) and isinstance(b[12].value, ast.Call) and ast.unparse(b[12].value.func) == "dict"
            and len(b[12].value.args) == 1 and isinstance(b[12].value.args[0], ast.Call) and ast.unparse(b[12].value.args[0].func) == "zip"
            and len(b[12].value.args[0].args) == 2 and ast.unparse(b[12].value.args[0].args[1]) == "xyzformula"):
        raise U("positionFormula: return")
    rkeys = str_list(b[12].value.args[0].args[0], "positionFormula result keys")
    main = ["(findEquivalent self pos).bind fun found =>", "match found with", "| none => some []", "| some (eqpos, R) =>"]
    main += ind(blk.lines + [
        "(Py.forM (nsrotated.zip self.pparameters) xyzformula (positionFormula_terms name2sym)).bind fun xyzformula =>",
        "(Py.forM (List.range 3) xyzformula (positionFormula_const teqpos)).bind fun xyzformula =>",
        "some (Py.dictZip %s xyzformula)" % rkeys])
    out += emit("`GeneratorSite.positionFormula(self, pos, xyzsymbols)`: the formula strings as lists of pieces, before the final\n"
                "`re.sub`/`strip`; `{}` = `[]`; `none` = an exception",
                "def positionFormula (self : GenSite α) (pos : V3 α) (xyzsymbols : List (List Char)) : Option (FDict α) :=", main)
    return out


def tr_UFormula(gs, facts, sym_ok, pf_prefix_src):
    fn = unique_def(gs.body, "UFormula")
    signature(fn, ["self", "pos", "Usymbols"], ["stdUsymbols"])
    b = strip_doc(fn.body)
    if len(b) != 11:
        raise U("UFormula: %d statements" % len(b))
    if [ast.unparse(x) for x in b[:4]] != pf_prefix_src:
        raise U("UFormula: the lookup of the equivalent site differs from that of positionFormula")
    if not sym_ok:
        raise U("UFormula: `nearestSiteIndex` / `equalPositions` are themselves untranslatable (group sym)")
    env = dict(SELF_ENV, eqpos=("eqpos", "V"), R=("R", "M"))
    blk = Block(env, frozen=("pos", "eqpos", "R", "self.Uspace", "self.Uparameters"))
    blk.run(b[4:6])
    if env.get("Usrotated", ("", ""))[1] != "LM":
        raise U("UFormula: type of Usrotated")
    expect(b[6], "Uformula = dict.fromkeys(stdUsymbols, '')", "UFormula")
    expect(b[7], "name2sym = dict(zip(stdUsymbols, Usymbols))", "UFormula")
    blk.lines += ["let Uformula : FDict α := Py.dictFromKeys stdUsymbols []", "let name2sym := Py.dictZip stdUsymbols Usymbols"]
    body = is_for(b[8], "(Usr, (vname, ignore))", "zip(Usrotated, self.Uparameters)", "UFormula")
    if len(body) != 4 or not isinstance(body[0], ast.Assert) or body[0].msg is not None:
        raise U("UFormula: body of the loop over zip(Usrotated, self.Uparameters)")
    tenv = {"Usr": ("Usr", "M"), "vname": ("vname", "STR")}
    ex = Ex(tenv)
    at = ex.tx(body[0].test)
    if at[1] != "B" or ex.pre:
        raise U("UFormula: assert `%s`" % ast.unparse(body[0].test))
    tb = Block(tenv)
    tb.lines = ["let Usr := e.1", "let vname := e.2.1", "if (!%s) = true then none else" % at[0]]
    tb.run(body[1:3])
    if tenv.get("Usrflat", ("", ""))[1] != "LS":
        raise U("UFormula: type of Usrflat")
    loop = body[3]
    if not (isinstance(loop, ast.For) and not loop.orelse and ast.unparse(loop.target) == "i"):
        raise U("UFormula: inner loop")
    it = Ex(tenv).tx(loop.iter)
    if it[1] != "LN":
        raise U("UFormula: inner loop over `%s`" % ast.unparse(loop.iter))
    tb.lines.append("Py.forM %s Uformula (UFormula_term name2sym Usrflat vname)" % it[0])
    ib = loop.body
    if len(ib) != 3:
        raise U("UFormula: body of the inner loop")
    ienv = {"Usrflat": ("Usrflat", "LS"), "i": ("i", "N"), "vname": ("vname", "STR"), "name2sym": ("name2sym", "DICT"),
            "self.idx2Usymbol": ("idx2Usymbol", "DICT")}
    il = []
    ex = CEx(ienv, il)
    if not (isinstance(ib[0], ast.Assign) and ast.unparse(ib[0].targets[0]) == "f"):
        raise U("UFormula: `f = ...`")
    c, y = piece_stmt(ib[0], "UFormula term", "f", "%+g*%s", ex, "g")
    il.append("let f : FStr α := [FPiece.term %s %s]" % (c, y))
    ibk = Block(ienv)
    ibk.lines = il
    if not (isinstance(ib[1], ast.Assign) and ast.unparse(ib[1].targets[0]) == "smbl"):
        raise U("UFormula: `smbl = ...`")
    ibk.stmt(ib[1])
    expect(ib[2], "Uformula[smbl] += f", "UFormula")
    il.append("Py.dictUpd Uformula smbl (fun s => s ++ f)")
    expect(b[9], "for (smbl, f) in Uformula.items():\n    if not f:\n        f = '0'\n"
                 "    f = re.sub('^[+]?1[*]|^[+](?=\\\\d)|(?<=[+-])1[*]', '', f).strip()\n    Uformula[smbl] = f", "UFormula clean-up")
    facts["UFormula clean-up"] = ("for smbl, f in Uformula.items(): if not f: f = '0'; "
                                  "f = re.sub('^[+]?1[*]|^[+](?=\\d)|(?<=[+-])1[*]', '', f).strip(); Uformula[smbl] = f")
    facts["UFormula term format"] = "f = '%+g*%s' % (Usrflat[i], name2sym[vname]); Uformula[smbl] += f"
    expect(b[10], "return Uformula", "UFormula")
    out = emit("`UFormula`: body of `for i in numpy.where(Usrflat)[0]`",
               "def UFormula_term (name2sym : List (List Char × List Char)) (Usrflat : List α) (vname : List Char)\n"
               "    (Uformula : FDict α) (i : Nat) : Option (FDict α) :=", il)
    out += emit("`UFormula`: body of `for Usr, (vname, ignore) in zip(Usrotated, self.Uparameters)`; `none` = an exception\n"
                "(`AssertionError` included)",
                "def UFormula_terms (name2sym : List (List Char × List Char)) (Uformula : FDict α) (e : M3 α × (List Char × α)) : Option (FDict α) :=",
                tb.lines)
    main = ["(findEquivalent self pos).bind fun found =>", "match found with", "| none => some []", "| some (eqpos, R) =>"]
    main += ind(blk.lines + ["Py.forM (Usrotated.zip self.Uparameters) Uformula (UFormula_terms name2sym)"])
    out += emit("`GeneratorSite.UFormula(self, pos, Usymbols)`: the formula strings as lists of pieces, before the final loop\n"
                "(`\"\"` becomes `\"0\"`, `re.sub`, `strip`); `{}` = `[]`; `none` = an exception",
                "def UFormula (self : GenSite α) (pos : V3 α) (Usymbols : List (List Char)) : Option (FDict α) :=", main)
    return out


def tr_eqIndex(gs, sym_ok):
    fn = unique_def(gs.body, "eqIndex")
    signature(fn, ["self", "pos"], [])
    b = strip_doc(fn.body)
    if len(b) != 1 or not isinstance(b[0], ast.Return):
        raise U("eqIndex: body")
    if not sym_ok:
        raise U("eqIndex: `nearestSiteIndex` is itself untranslatable (group sym)")
    v = b[0].value
    if not (isinstance(v, ast.Call) and ast.unparse(v.func) == "nearestSiteIndex" and len(v.args) == 2 and not v.keywords):
        raise U("eqIndex: `%s`" % ast.unparse(b[0]))
    a = [Ex(SELF_ENV).tx(x) for x in v.args]
    if [x[1] for x in a] != ["LV", "V"]:
        raise U("eqIndex: arguments")
    return emit("`GeneratorSite.eqIndex(self, pos)`", "def eqIndex (self : GenSite α) (pos : V3 α) : Option Nat :=",
                ["(Src.Sym.nearestSiteIndex %s %s)" % (a[0][0], a[1][0])])


def tr_signedRatStr(gs, facts):
    fn = unique_def(gs.body, "signedRatStr")
    signature(fn, ["self", "x"], [])
    b = strip_doc(fn.body)
    if len(b) != 7:
        raise U("signedRatStr: %d statements" % len(b))
    expect(b[0], "s = '{:.8g}'.format(x)", "signedRatStr")
    expect(b[1], "if len(s) < 6:\n    return '%+g' % x", "signedRatStr")
    facts["signedRatStr short decimals"] = "s = '{:.8g}'.format(x); if len(s) < 6: return '%+g' % x"
    if not (isinstance(b[2], ast.Assign) and ast.unparse(b[2].targets[0]) == "den" and isinstance(b[2].value, ast.Call)
            and ast.unparse(b[2].value.func) == "numpy.array" and len(b[2].value.args) == 1 and isinstance(b[2].value.args[0], ast.List)
            and all(isinstance(e, ast.Constant) and type(e.value) is float for e in b[2].value.args[0].elts)):
        raise U("signedRatStr: `den = numpy.array([...])`")
    den = "[" + ", ".join(flt(e.value) for e in b[2].value.args[0].elts) + "]"
    env = {"x": ("x", "S"), "den": ("den", "LS"), "self.eps": ("self_eps", "S")}
    blk = Block(env, frozen=("x", "den", "self.eps"))
    blk.lines = ["if short8g x = true then some (Sum.inl x) else", "let den : List α := %s" % den]
    blk.run(b[3:5])
    if env.get("nom", ("", ""))[1] != "LS" or env.get("idx", ("", ""))[1] != "LN":
        raise U("signedRatStr: types of nom / idx")
    expect(b[5], "if idx.size == 0:\n    return '%+g' % x", "signedRatStr")
    facts["signedRatStr fallback"] = "return '%+g' % x"
    blk.lines.append("if idx.length = 0 then some (Sum.inl x) else")
    r = b[6]
    if not (isinstance(r, ast.Return) and isinstance(r.value, ast.BinOp) and isinstance(r.value.op, ast.Mod)
            and isinstance(r.value.left, ast.Constant) and r.value.left.value == "%+.0f/%.0f" and isinstance(r.value.right, ast.Tuple)
            and len(r.value.right.elts) == 2):
        raise U("signedRatStr: return")
    ex = CEx(env, blk.lines)
    n_ = ex.tx(r.value.right.elts[0])
    d_ = ex.tx(r.value.right.elts[1])
    if n_[1] != "S" or d_[1] != "S":
        raise U("signedRatStr: types of the printed fraction")
    facts["signedRatStr fraction format"] = "return '%+.0f/%.0f' % (nom[idx[0]], den[idx[0]])"
    blk.lines.append("some (Sum.inr (%s, %s))" % (n_[0], d_[0]))
    return emit("`GeneratorSite.signedRatStr(self, x)`: `Sum.inl x` = `\"%+g\" % x`, `Sum.inr (n, d)` = `\"%+.0f/%.0f\" % (n, d)`;\n"
                "`short8g x` stands for `len(\"{:.8g}\".format(x)) < 6`; `none` = an exception",
                "def signedRatStr (short8g : α → Bool) (self_eps : α) (x : α) : Option (Sum α (α × α)) :=", blk.lines)


def tr_expandAsymmetricUnit(t_su, facts):
    c = unique_def(t_su.body, "ExpandAsymmetricUnit", ast.ClassDef)
    fn = unique_def(c.body, "__init__")
    signature(fn, ["self", "spacegroup", "corepos", "coreUijs", "sgoffset", "eps"], ["None", "[0, 0, 0]", "None"])
    b = strip_doc(fn.body)
    decl = ["if eps is None:\n    eps = epsilon", "self.spacegroup = spacegroup", "self.corepos = corepos", "self.coreUijs = None",
            "self.sgoffset = numpy.array(sgoffset)", "self.eps = eps", "self.multiplicity = []", "self.Uisotropy = []",
            "self.expandedpos = []", "self.expandedUijs = []", "corelen = len(self.corepos)",
            "if coreUijs:\n    self.coreUijs = coreUijs\nelse:\n    self.coreUijs = numpy.zeros((corelen, 3, 3), dtype=float)"]
    if len(b) != len(decl) + 2:
        raise U("ExpandAsymmetricUnit.__init__: %d statements" % len(b))
    expect_all(b[:len(decl)], decl, "ExpandAsymmetricUnit.__init__")
    body = is_for(b[len(decl)], "(cpos, cUij)", "zip(self.corepos, self.coreUijs)", "ExpandAsymmetricUnit.__init__")
    expect_all(body, ["gen = GeneratorSite(self.spacegroup, cpos, cUij, self.sgoffset, self.eps)",
                      "self.multiplicity.append(gen.multiplicity)", "self.Uisotropy.append(gen.Uisotropy)",
                      "self.expandedpos.append(gen.eqxyz)", "self.expandedUijs.append(gen.eqUij)"], "ExpandAsymmetricUnit.__init__ loop")
    expect(b[-1], "return", "ExpandAsymmetricUnit.__init__")
    facts["ExpandAsymmetricUnit.__init__ declarations"] = "; ".join(d.replace("\n", " ") for d in decl[:10])
    return (
        "/-- `ExpandAsymmetricUnit.__init__`: body of `for cpos, cUij in zip(self.corepos, self.coreUijs)`;\n"
        "state `(self.multiplicity, self.Uisotropy, self.expandedpos, self.expandedUijs)` -/\n"
        "def expandAsymmetricUnit_body (generatorSite : V3 α → M3 α → Option (GenSite α))\n"
        "    (st : List Nat × List Bool × List (List (V3 α)) × List (List (M3 α))) (e : V3 α × M3 α) :\n"
        "    Option (List Nat × List Bool × List (List (V3 α)) × List (List (M3 α))) :=\n"
        "  let cpos := e.1\n"
        "  let cUij := e.2\n"
        "  (generatorSite cpos cUij).bind fun gen =>\n"
        "  some (st.1 ++ [gen.multiplicity], st.2.1 ++ [gen.Uisotropy], st.2.2.1 ++ [gen.eqxyz], st.2.2.2 ++ [gen.eqUij])\n\n"
        "/-- `ExpandAsymmetricUnit.__init__(self, spacegroup, corepos, coreUijs, sgoffset, eps)` with\n"
        "`generatorSite cpos cUij = GeneratorSite(self.spacegroup, cpos, cUij, self.sgoffset, self.eps)`:\n"
        "`(self.multiplicity, self.Uisotropy, self.expandedpos, self.expandedUijs)`; `none` = an exception -/\n"
        "def expandAsymmetricUnit (generatorSite : V3 α → M3 α → Option (GenSite α)) (corepos : List (V3 α)) (coreUijs : Option (List (M3 α))) :\n"
        "    Option (List Nat × List Bool × List (List (V3 α)) × List (List (M3 α))) :=\n"
        "  let corelen := corepos.length\n"
        "  let self_coreUijs := if Py.truthyOL coreUijs = true then coreUijs.getD [] else List.replicate corelen Np.zerosM\n"
        "  Py.forM (corepos.zip self_coreUijs) ([], [], [], []) (expandAsymmetricUnit_body generatorSite)\n\n")


def tr_prune(t_su, facts):
    fn = unique_def(t_su.body, "pruneFormulaDictionary")
    signature(fn, ["eqdict"], [])
    b = strip_doc(fn.body)
    expect_all(b, ["pruned = {}", "for (smb, eq) in eqdict.items():\n    if not isconstantFormula(eq):\n        pruned[smb] = eq", "return pruned"],
               "pruneFormulaDictionary")
    ic = unique_def(t_su.body, "isconstantFormula")
    signature(ic, ["s"], [])
    expect_all(strip_doc(ic.body), ["res = _rx_constant_formula.match(s.replace(' ', ''))", "return bool(res)"], "isconstantFormula")
    rx = [n for n in t_su.body if isinstance(n, ast.Assign) and ast.unparse(n.targets[0]) == "_rx_constant_formula"]
    if len(rx) != 1:
        raise U("_rx_constant_formula")
    facts["isconstantFormula"] = "res = _rx_constant_formula.match(s.replace(' ', '')); return bool(res)"
    if not (isinstance(rx[0].value, ast.Call) and ast.unparse(rx[0].value.func) == "re.compile" and len(rx[0].value.args) == 1
            and isinstance(rx[0].value.args[0], ast.Constant) and type(rx[0].value.args[0].value) is str and not rx[0].value.keywords):
        raise U("_rx_constant_formula is not `re.compile(<literal>)`")
    facts["_rx_constant_formula"] = rx[0].value.args[0].value
    return (
        "/-- `pruneFormulaDictionary(eqdict)` with `isconstantFormula` as a parameter -/\n"
        "def pruneFormulaDictionary {β : Type} (isconstantFormula : β → Bool) (eqdict : List (List Char × β)) : List (List Char × β) :=\n"
        "  eqdict.foldl (fun pruned e => if (!(isconstantFormula e.2)) = true then Py.dictSet pruned e.1 e.2 else pruned) []\n\n")


SC_DECLS = ["if eps is None:\n    eps = epsilon", "self.spacegroup = spacegroup", "self.positions = None", "self.Uijs = None",
            "self.sgoffset = numpy.array(sgoffset)", "self.eps = eps", "self.corepos = []", "self.coremap = {}", "self.poseqns = None",
            "self.pospars = []", "self.Ueqns = None", "self.Upars = []", "self.Uisotropy = None"]
SC_TAIL = ["numpos = len(self.positions)",
           "if Uijs is not None:\n    self.Uijs = numpy.array(Uijs, dtype=float)\nelse:\n    self.Uijs = numpy.zeros((numpos, 3, 3), dtype=float)",
           "self.poseqns = numpos * [None]", "self.Ueqns = numpos * [None]", "self.Uisotropy = numpos * [False]",
           "self._findConstraints()", "return"]


def tr_findConstraints(t_su, facts):
    c = unique_def(t_su.body, "SymmetryConstraints", ast.ClassDef)
    ini = unique_def(c.body, "__init__")
    signature(ini, ["self", "spacegroup", "positions", "Uijs", "sgoffset", "eps"], ["None", "[0, 0, 0]", "None"])
    ib = strip_doc(ini.body)
    if len(ib) != len(SC_DECLS) + 1 + len(SC_TAIL):
        raise U("SymmetryConstraints.__init__: %d statements" % len(ib))
    expect_all(ib[:len(SC_DECLS)], SC_DECLS, "SymmetryConstraints.__init__ declarations")
    expect_all(ib[len(SC_DECLS) + 1:], SC_TAIL, "SymmetryConstraints.__init__ tail")
    facts["SymmetryConstraints.__init__ declarations"] = "; ".join(d.replace("\n", " ") for d in SC_DECLS)
    facts["SymmetryConstraints.__init__ positions"] = re.sub(r"\s+", " ", ast.unparse(ib[len(SC_DECLS)]))
    facts["SymmetryConstraints.__init__ tail"] = "; ".join(d.replace("\n", " ") for d in SC_TAIL)
    fn = unique_def(c.body, "_findConstraints")
    signature(fn, ["self"], [])
    b = strip_doc(fn.body)
    if len(b) != 8:
        raise U("_findConstraints: %d statements" % len(b))
    expect_all(b[:4], ["numpos = len(self.positions)", "xyzsymbols = [smbl + str(i) for i in range(numpos) for smbl in 'xyz']",
                       "Usymbols = [smbl + str(i) for i in range(numpos) for smbl in stdUsymbols]", "independent = set(range(numpos))"],
               "_findConstraints")
    expect_all(b[5:], ["coreidx = sorted(self.coremap.keys())", "self.corepos = [self.positions[i] for i in coreidx]", "return"],
               "_findConstraints")
    ob = is_for(b[4], "genidx", "range(numpos)", "_findConstraints")
    if len(ob) != 11:
        raise U("_findConstraints: %d statements in the loop over genidx" % len(ob))
    expect_all(ob[:5], ["if genidx not in independent:\n    continue", "self.coremap[genidx] = []", "genpos = self.positions[genidx]",
                        "genUij = self.Uijs[genidx]", "gen = GeneratorSite(self.spacegroup, genpos, genUij, self.sgoffset, self.eps)"],
               "_findConstraints loop over genidx")

    def slice_of(stmt, name, base):
        if not (isinstance(stmt, ast.Assign) and ast.unparse(stmt.targets[0]) == name and isinstance(stmt.value, ast.Subscript)
                and ast.unparse(stmt.value.value) == base and isinstance(stmt.value.slice, ast.Slice) and stmt.value.slice.step is None
                and stmt.value.slice.lower is not None and stmt.value.slice.upper is not None):
            raise U("_findConstraints: `%s = %s[a:b]`" % (name, base))
        ex = Ex({"genidx": ("genidx", "N")})
        return ex.nat(stmt.value.slice.lower), ex.nat(stmt.value.slice.upper)

    x_lo, x_hi = slice_of(ob[5], "gxyzsymbols", "xyzsymbols")
    expect(ob[6], "for (k, v) in gen.pparameters:\n    smbl = gxyzsymbols['xyz'.index(k)]\n    self.pospars.append((smbl, v))", "_findConstraints")
    u_lo, u_hi = slice_of(ob[7], "gUsymbols", "Usymbols")
    expect(ob[8], "for (k, v) in gen.Uparameters:\n    smbl = gUsymbols[stdUsymbols.index(k)]\n    self.Upars.append((smbl, v))", "_findConstraints")
    expect(ob[9], "indies = sorted(independent)", "_findConstraints")
    inb = is_for(ob[10], "indidx", "indies", "_findConstraints")
    if len(inb) != 12:
        raise U("_findConstraints: %d statements in the loop over indies" % len(inb))
    expect_all(inb[:8], ["indpos = self.positions[indidx]", "formula = gen.positionFormula(indpos, gxyzsymbols)", "if not formula:\n    continue",
                         "independent.remove(indidx)", "self.coremap[genidx].append(indidx)", "self.poseqns[indidx] = formula",
                         "self.Ueqns[indidx] = gen.UFormula(indpos, gUsymbols)", "eqidx = gen.eqIndex(indpos)"], "_findConstraints loop over indies")
    expect_all(inb[10:], ["self.Uijs[indidx] = gen.eqUij[eqidx]", "self.Uisotropy[indidx] = gen.Uisotropy"], "_findConstraints loop over indies")
    env = {"gen": ("gen", "GEN"), "eqidx": ("eqidx", "N"), "indpos": ("indpos", "V")}
    blk = Block(env, frozen=("gen", "eqidx", "indpos"))
    if not (isinstance(inb[8], ast.Assign) and ast.unparse(inb[8].targets[0]) == "dxyz"):
        raise U("_findConstraints: `dxyz = ...`")
    blk.stmt(inb[8])
    if env["dxyz"][1] != "V":
        raise U("_findConstraints: type of dxyz")
    s9 = inb[9]
    if not (isinstance(s9, ast.AugAssign) and isinstance(s9.op, ast.Add) and ast.unparse(s9.target) == "self.positions[indidx]"):
        raise U("_findConstraints: `self.positions[indidx] += ...`")
    ex = blk.ex()
    n0 = len(blk.lines)
    inc = ex.tx(s9.value)
    if inc[1] != "V" or len(blk.lines) != n0:
        raise U("_findConstraints: increment of the position")
    inner = ["(Py.getIdx self.positions (Int.ofNat indidx)).bind fun indpos =>",
             "(positionFormula gen indpos gxyzsymbols).bind fun formula =>",
             "if formula.isEmpty = true then some self else",
             "(Py.setRemove self.independent indidx).bind fun independent =>",
             "(Py.dictUpd self.coremap genidx (fun l => l ++ [indidx])).bind fun coremap =>",
             "(Py.listSet self.poseqns indidx (some formula)).bind fun poseqns =>",
             "(UFormula gen indpos gUsymbols).bind fun uformula =>",
             "(Py.listSet self.Ueqns indidx (some uformula)).bind fun Ueqns =>",
             "(eqIndex gen indpos).bind fun eqidx =>"] + blk.lines + [
             "(Py.listSet self.positions indidx (Np.add indpos %s)).bind fun positions =>" % inc[0],
             "(Py.getIdx gen.eqUij (Int.ofNat eqidx)).bind fun gen_eqUij_eqidx =>",
             "(Py.listSet self.Uijs indidx gen_eqUij_eqidx).bind fun Uijs =>",
             "(Py.listSet self.Uisotropy indidx gen.Uisotropy).bind fun Uisotropy =>",
             "some { positions := positions, Uijs := Uijs, independent := independent, coremap := coremap, pospars := self.pospars,",
             "       Upars := self.Upars, poseqns := poseqns, Ueqns := Ueqns, Uisotropy := Uisotropy }"]
    out = (
        "/-- `_findConstraints`: body of `for k, v in gen.pparameters` -/\n"
        "def findConstraints_pospars (gxyzsymbols : List (List Char)) (self_pospars : List (List Char × α)) (kv : List Char × α) :\n"
        "    Option (List (List Char × α)) :=\n"
        "  (Py.index? (Py.chars ['x', 'y', 'z']) kv.1).bind fun j =>\n"
        "  (Py.getIdx gxyzsymbols (Int.ofNat j)).bind fun smbl =>\n"
        "  some (self_pospars ++ [(smbl, kv.2)])\n\n"
        "/-- `_findConstraints`: body of `for k, v in gen.Uparameters` -/\n"
        "def findConstraints_Upars (gUsymbols : List (List Char)) (self_Upars : List (List Char × α)) (kv : List Char × α) :\n"
        "    Option (List (List Char × α)) :=\n"
        "  (Py.index? stdUsymbols kv.1).bind fun j =>\n"
        "  (Py.getIdx gUsymbols (Int.ofNat j)).bind fun smbl =>\n"
        "  some (self_Upars ++ [(smbl, kv.2)])\n\n")
    out += emit("`_findConstraints`: body of `for indidx in indies`",
                "def findConstraints_inner (gen : GenSite α) (genidx : Nat) (gxyzsymbols gUsymbols : List (List Char)) (self : FCSt α) (indidx : Nat) :\n"
                "    Option (FCSt α) :=", inner)
    out += (
        "/-- `_findConstraints`: body of `for genidx in range(numpos)` -/\n"
        "def findConstraints_outer (generatorSite : V3 α → M3 α → Option (GenSite α)) (xyzsymbols Usymbols : List (List Char))\n"
        "    (self : FCSt α) (genidx : Nat) : Option (FCSt α) :=\n"
        "  if (!(self.independent.contains genidx)) = true then some self else\n"
        "  let coremap := Py.dictSet self.coremap genidx []\n"
        "  (Py.getIdx self.positions (Int.ofNat genidx)).bind fun genpos =>\n"
        "  (Py.getIdx self.Uijs (Int.ofNat genidx)).bind fun genUij =>\n"
        "  (generatorSite genpos genUij).bind fun gen =>\n"
        "  let gxyzsymbols := Py.slice xyzsymbols %s %s\n"
        "  (Py.forM gen.pparameters self.pospars (findConstraints_pospars gxyzsymbols)).bind fun pospars =>\n"
        "  let gUsymbols := Py.slice Usymbols %s %s\n"
        "  (Py.forM gen.Uparameters self.Upars (findConstraints_Upars gUsymbols)).bind fun Upars =>\n"
        "  let indies := Py.sortedNat self.independent\n"
        "  Py.forM indies { self with coremap := coremap, pospars := pospars, Upars := Upars }\n"
        "    (findConstraints_inner gen genidx gxyzsymbols gUsymbols)\n\n" % (x_lo, x_hi, u_lo, u_hi))
    out += (
        "/-- `SymmetryConstraints._findConstraints(self)` on the state left by `__init__`, with\n"
        "`generatorSite genpos genUij = GeneratorSite(self.spacegroup, genpos, genUij, self.sgoffset, self.eps)`:\n"
        "the final attributes and `self.corepos`; `none` = an exception -/\n"
        "def findConstraints (generatorSite : V3 α → M3 α → Option (GenSite α)) (positions : List (V3 α)) (Uijs : List (M3 α)) :\n"
        "    Option (FCSt α × List (V3 α)) :=\n"
        "  let numpos := positions.length\n"
        "  let xyzsymbols := (List.range numpos).flatMap fun i => (Py.chars ['x', 'y', 'z']).map fun smbl => smbl ++ Py.strNat i\n"
        "  let Usymbols := (List.range numpos).flatMap fun i => stdUsymbols.map fun smbl => smbl ++ Py.strNat i\n"
        "  let independent := Py.setRange numpos\n"
        "  let self0 : FCSt α := { positions := positions, Uijs := Uijs, independent := independent, coremap := [], pospars := [], Upars := [],\n"
        "                           poseqns := List.replicate numpos none, Ueqns := List.replicate numpos none,\n"
        "                           Uisotropy := List.replicate numpos false }\n"
        "  (Py.forM (List.range numpos) self0 (findConstraints_outer generatorSite xyzsymbols Usymbols)).bind fun self =>\n"
        "  let coreidx := Py.sortedNat (self.coremap.map fun e => e.1)\n"
        "  (Py.mapOpt (fun i => Py.getIdx self.positions (Int.ofNat i)) coreidx).bind fun corepos =>\n"
        "  some (self, corepos)\n\n")
    return out


def parse_rx(pat, what):
    """the supported regular expressions: a sequence of `\\b`, `[abc]`, a literal letter, `\\d`, and a final `\\d+`"""
    atoms = []
    i = 0
    while i < len(pat):
        c = pat[i]
        if pat.startswith("\\b", i):
            atoms.append("RxAtom.wordB")
            i += 2
        elif pat.startswith("\\d+", i):
            if i + 3 != len(pat):
                raise U("%s: `\\d+` is only supported at the end of the pattern %r" % (what, pat))
            atoms.append("RxAtom.digits1")
            i += 3
        elif pat.startswith("\\d", i):
            atoms.append("RxAtom.digit")
            i += 2
        elif c == "[":
            j = pat.find("]", i)
            body = pat[i + 1:j] if j > 0 else ""
            if j < 0 or not body or not body.isalnum() or not body.isascii():
                raise U("%s: character class in %r" % (what, pat))
            atoms.append("RxAtom.cls %s" % chars(body))
            i = j + 1
        elif c.isalpha() and c.isascii():
            atoms.append("RxAtom.cls %s" % chars(c))
            i += 1
        else:
            raise U("%s: unsupported regular expression %r (at %r)" % (what, pat, pat[i:]))
        if i < len(pat) and pat[i] in "*+?{|" :
            raise U("%s: unsupported regular expression %r (at %r)" % (what, pat, pat[i:]))
    return "[" + ", ".join(atoms) + "]"


def tr_formulas(t_su, facts):
    c = unique_def(t_su.body, "SymmetryConstraints", ast.ClassDef)
    pats = {}
    for meth, arg, eqns, pars, parfn, what in (("positionFormulas", "xyzsymbols", "self.poseqns", "self.pospars", "posparSymbols", "position"),
                                               ("UFormulas", "Usymbols", "self.Ueqns", "self.Upars", "UparSymbols", "U")):
        fn = unique_def(c.body, meth)
        signature(fn, ["self", arg], ["None"])
        b = strip_doc(fn.body)
        if len(b) != 8:
            raise U("%s: %d statements" % (meth, len(b)))
        expect(b[0], "if not %s:\n    return list(%s)" % (arg, eqns), meth)
        expect(b[1], "if len(%s) < len(%s):\n    emsg = 'Not enough symbols for %%i %s parameters' %% len(%s)\n    raise SymmetryError(emsg)"
               % (arg, pars, what, pars), meth)
        expect(b[2], "trsmbl = dict(zip(self.%s(), %s))" % (parfn, arg), meth)
        expect(b[3], "def translatesymbol(matchobj):\n    return trsmbl[matchobj.group(0)]", meth)
        if not (isinstance(b[4], ast.Assign) and ast.unparse(b[4].targets[0]) == "pat" and isinstance(b[4].value, ast.Call)
                and ast.unparse(b[4].value.func) == "re.compile" and len(b[4].value.args) == 1 and not b[4].value.keywords
                and isinstance(b[4].value.args[0], ast.Constant) and type(b[4].value.args[0].value) is str):
            raise U("%s: `pat = re.compile(<literal>)`" % meth)
        pats[meth] = (b[4].value.args[0].value, parse_rx(b[4].value.args[0].value, meth))
        expect(b[5], "rv = []", meth)
        expect(b[6], "for eqns in %s:\n    treqns = {}\n    for (smbl, eq) in eqns.items():\n        treqns[smbl] = re.sub(pat, translatesymbol, eq)\n"
                     "    rv.append(treqns)" % eqns, meth)
        expect(b[7], "return rv", meth)
        sf = unique_def(c.body, parfn)
        signature(sf, ["self"], [])
        expect_all(strip_doc(sf.body), ["return [n for (n, v) in %s]" % pars], parfn)
    out = ("/-- pattern of `SymmetryConstraints.positionFormulas`: `%s` -/\n"
           "def positionFormulas_pat : List RxAtom := %s\n\n"
           "/-- pattern of `SymmetryConstraints.UFormulas`: `%s` -/\n"
           "def UFormulas_pat : List RxAtom := %s\n\n" % (pats["positionFormulas"][0], pats["positionFormulas"][1],
                                                           pats["UFormulas"][0], pats["UFormulas"][1]))
    out += (
        "/-- `positionFormulas` / `UFormulas`: body of `for smbl, eq in eqns.items()` -/\n"
        "def translateFormulas_item (pat : List RxAtom) (trsmbl : List (List Char × List Char)) (treqns : List (List Char × List Char))\n"
        "    (e : List Char × List Char) : Option (List (List Char × List Char)) :=\n"
        "  (Rx.sub pat (fun m => Py.dictGet trsmbl m) e.2).bind fun s =>\n"
        "  some (Py.dictSet treqns e.1 s)\n\n"
        "/-- `positionFormulas` / `UFormulas`: body of `for eqns in self.poseqns` -/\n"
        "def translateFormulas_eqns (pat : List RxAtom) (trsmbl : List (List Char × List Char)) (rv : List (List (List Char × List Char)))\n"
        "    (eqns : List (List Char × List Char)) : Option (List (List (List Char × List Char))) :=\n"
        "  (Py.forM eqns [] (translateFormulas_item pat trsmbl)).bind fun treqns =>\n"
        "  some (rv ++ [treqns])\n\n")
    for meth, arg, eqns, doc in (("positionFormulas", "xyzsymbols", "self_poseqns", "self.posparSymbols()"),
                                 ("UFormulas", "Usymbols", "self_Ueqns", "self.UparSymbols()")):
        out += (
            "/-- `SymmetryConstraints.%s(self, %s)` on the formula STRINGS `%s` with `parSymbols = %s`:\n"
            "`none` = `SymmetryError` (\"Not enough symbols\"), `some none` = another exception -/\n"
            "def %s (%s : List (List (List Char × List Char))) (parSymbols : List (List Char))\n"
            "    (%s : List (List Char)) : Option (Option (List (List (List Char × List Char)))) :=\n"
            "  if %s.isEmpty = true then some (some %s) else\n"
            "  if %s.length < parSymbols.length then none else\n"
            "  let trsmbl := Py.dictZip parSymbols %s\n"
            "  let pat := %s_pat\n"
            "  some (Py.forM %s [] (translateFormulas_eqns pat trsmbl))\n\n"
            % (meth, arg, eqns.replace("_", "."), doc, meth, eqns, arg, arg, eqns, arg, arg, meth, eqns))
    return out


HDR = ("-- GENERATED by translate/src_constraints.py from src/diffpy/structure/symmetryutilities.py — do not edit\n"
       "import DS.Model.ConReal\nimport DS.Gen.SrcSym\nnamespace DS.Src.Constraints\nset_option linter.unusedVariables false\nopen DS\n\n"
       "section\nvariable {α : Type} [Add α] [Sub α] [Mul α] [Div α] [Neg α] [LT α] [LE α] [DecidableLT α] [DecidableLE α] [DecidableEq α]\n"
       "  [OfNat α 0] [OfScientific α] [IntCast α] [FloorOrd α]\n\n")


def translate(report):
    info = {"methods": {}, "untranslatable": {}}
    report[GROUP] = info
    path = os.path.join(pysrc.REPO, "src", "diffpy", "structure", "symmetryutilities.py")
    try:
        t_su = ast.parse(open(path, encoding="utf-8").read())
    except (OSError, SyntaxError) as e:
        raise U("cannot read the source: %s" % e)
    # the helpers of group "sym" that this group calls (`DS.Gen.SrcSym` always elaborates; a missing helper has no definition there)
    try:
        sym_rep = {}
        pysrc.plugins()["sym"].translate(sym_rep)
        have = sym_rep.get("sym", {}).get("methods", {})
    except Exception:  # noqa: BLE001
        have = {}
    sym_expand = all(have.get(k) for k in ("expandPosition", "symopCall"))
    sym_near = all(have.get(k) for k in ("nearestSiteIndex", "equalPositions"))
    out, tail = [], []
    facts = {}
    try:
        gs = unique_def(t_su.body, "GeneratorSite", ast.ClassDef)
    except pysrc.Untranslatable as e:
        raise U(str(e))
    ok_c = wrap(out, info, ["constants"], lambda: tr_constants(t_su, gs))
    if not ok_c:
        # everything below mentions `epsilon` / `stdUsymbols` / `idx2Usymbol`
        raise U("module constants: %s" % info["untranslatable"]["constants"])

    def need(names, what):
        missing = [n for n in names if n not in info["methods"]]
        if missing:
            raise U("%s uses %s, which is untranslatable" % (what, ", ".join(missing)))

    wrap(out, info, ["findInvariants"], lambda: tr_findInvariants(t_su))
    wrap(out, info, ["findPosParameters"], lambda: tr_findPosParameters(gs))
    wrap(out, info, ["findUParameters"], lambda: tr_findUParameters(gs))
    wrap(out, info, ["findeqUij"], lambda: tr_findeqUij(gs))

    def init():
        need(["findInvariants", "findPosParameters", "findUParameters", "findeqUij"], "GeneratorSite.__init__")
        return tr_init(gs, facts, sym_expand)
    wrap(out, info, ["snapSite", "generatorSiteInit"], init)
    wrap(out, info, ["findEquivalent", "positionFormula"], lambda: tr_positionFormula(gs, facts, sym_near))

    def uf():
        need(["findEquivalent"], "UFormula")
        pf = unique_def(gs.body, "positionFormula")
        return tr_UFormula(gs, facts, sym_near, [ast.unparse(x) for x in strip_doc(pf.body)[:4]])
    wrap(out, info, ["UFormula"], uf)
    wrap(out, info, ["eqIndex"], lambda: tr_eqIndex(gs, sym_near))
    wrap(out, info, ["signedRatStr"], lambda: tr_signedRatStr(gs, facts))
    wrap(out, info, ["expandAsymmetricUnit"], lambda: tr_expandAsymmetricUnit(t_su, facts))
    wrap(out, info, ["pruneFormulaDictionary"], lambda: tr_prune(t_su, facts))

    def fc():
        need(["positionFormula", "UFormula", "eqIndex"], "_findConstraints")
        return tr_findConstraints(t_su, facts)
    wrap(out, info, ["findConstraints"], fc)
    wrap(tail, info, ["positionFormulas", "UFormulas"], lambda: tr_formulas(t_su, facts))
    facts_txt = ("/-- statements recorded as text (not part of the arithmetic model) -/\n"
                 "def facts : List (String × String) := [\n  %s]\n\n" % ",\n  ".join(
                     "(%s, %s)" % (pysrc.lean_str(k), pysrc.lean_str(v)) for k, v in sorted(facts.items())))
    return HDR + "".join(out) + "end\n\n" + "".join(tail) + facts_txt + "end DS.Src.Constraints\n"
