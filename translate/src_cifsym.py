"""Source translator plug-in: which symmetry the CIF reader uses —
`P_cif._parse_space_group_symop_operation_xyz` (parsers/p_cif.py)  ->  lean/DS/Gen/SrcCifSym.lean  (namespace DS.Src.CifSym).

The method is read with `ast` from the tree under examination (`pysrc.REPO`, read at call time) and emitted statement by
statement as one Lean `do` block over the vocabulary of DS/Model/CifSym.lean (`Block`, `Env`, `PState`, `SGRes`, `pyOr`, `optOr`,
`orNone`).  `DS.Props.SrcCifSym` proves that the functional model `DS.CifSym.resolve` IS this transliteration.

Conventions (= trusted base of this translator):

  self            the parser object is the record `self : PState G Op A`; `self.x = e` -> `let self := { self with x := e }`;
                  only `stru`, `asymmetric_unit`, `cif_sgname`, `spacegroup` may be touched; `list(self.stru)` is `self.stru`
                  (lists are values)
  block           `n in block` -> `block.has n`; `block.get(k, "")` -> `block.getD k` (a string, "" = false);
                  `block.get(k)` -> `block.get? k` (`Option String`); `L = block.GetLoop(n)` followed by `L[n]` -> `block.col n`
  library calls   `getSymOp(t)` -> `env.getSymOp t` (may raise); `FindSpaceGroup(l)` inside `try … except ValueError: pass`
                  -> `match env.find l` (`none` = `ValueError`, nothing assigned); `IsSpaceGroupIdentifier(s)` -> `env.isId s`;
                  `GetSpaceGroup(s)` -> `env.getSG s` (may raise); `SpaceGroup(short_name=a, crystal_system=b, symop_list=c)`
                  -> `SGRes.custom a b c`; `s.upper()` -> `env.upper s`.  The four names must be bound by the import statement
                  at the top of the method, `getSymOp` must be the module-level function of p_cif.py.
  types           S string, OS optional string, LS list of strings, LO list of operators, B bool, SG optional space group.
                  `a or b or c`: all S -> `pyOr (pyOr a b) c`; OS … S -> `optOr a (optOr b c)`; `… or None` -> `orNone (…)`.
                  truth value of a name: S -> `v != ""`, list -> `!v.isEmpty`; `X is None` (X of type SG) -> `X.isNone`;
                  `and` -> `&&`
  statements      `x = e`; `self.x = e`; `x = x[0]` (`IndexError` when empty); `if c:` without `else` (the variables assigned in
                  the body and read later are returned by the branch); the `for t in L[n]: v = getSymOp(t); acc.append(v)`
                  loop -> `foldlM`; `try: self.spacegroup = FindSpaceGroup(l) / except ValueError: pass`;
                  `emsg = <string constant>` (dropped: cannot raise); `raise StructureFormatError(<text>)`;
                  the final `self._expandAsymmetricUnit(block)` / `return` (recorded in `parseSymops_tail`)
Anything else makes the translator emit `def parseSymops_untranslatable : String`, so the tie theorem cannot be stated.

`_parseCifBlock` is recorded as normalised statement text (`parseCifBlock_body`), compared verbatim.

`P_cif._expandAsymmetricUnit`  ->  `Src.CifSym.expandAsymmetricUnit` (+ the loop bodies `expandAsymmetricUnit_decide`, `_image`, `_site`), over
the vocabulary `Src.CifSym.X` that this translator writes at the top of the generated file (fixed text `X_PRELUDE` below).  Conventions:

  atoms           an `Atom` is the record `X.PAtom P T O R` of the VALUES of `label`, `element`, `occupancy`, `xyz`, `anisotropy`, `U` plus
                  an opaque `rest` (everything else `Atom(ca)` copies); `Atom(x)` -> `x` (a copy of a value is the value; the atoms of
                  `self.stru` are distinct objects, the copy shares nothing).  `x.xyz = e`, `x.label = e`, `x.label += e` are record
                  updates; the two property setters with behaviour of their own are parameters: `x.anisotropy = e` -> `ops.setAnisotropy e x`,
                  `x.U = e` -> `ops.setU e x` (`X.AtomOps`; their source is C09's subject, `DS.Props.SrcAtom`)
  self            `self : X.XState` with `stru` (list of atoms) and `anisotropy` (the dictionary label -> bool as an association list in
                  insertion order: `k not in d` -> `!(X.dictHas d k)`, `d[k] = v` -> `X.dictSet d k v`)
  eau             `self.eau = ExpandAsymmetricUnit(self.spacegroup, corepos, coreUijs, eps=self.eps)` with exactly these arguments ->
                  `let eau ← mkEau v_corepos v_coreUijs` (`mkEau` stands for the constructor at the parser's space group and eps; may
                  raise); afterwards `self.eau.multiplicity / expandedpos / expandedUijs / Uisotropy` are the fields of `X.Eau P T`;
                  `ExpandAsymmetricUnit` must be bound by the import statement at the top of the method, `Atom` by the module's
                  `from diffpy.structure import Atom …`, the builtins `zip enumerate range sum str` nowhere in the module
  types           N natural number (loop indices of `enumerate`/`range`, literals, `+`), S string (`+` = `++`, `str(n)` = `toString n`),
                  B bool (`not`, comparisons of N by `decide`, truth value of a B), P position, T tensor, A atom, lists of those
  indexing        `l[n]` with `n : N` -> `← X.pyIdx l n` (`IndexError` past the end; the indices are never negative)
  statements      the two list comprehensions `[a.f for a in self.stru]` -> `map`; `for ca, u in zip(self.stru, self.eau.Uisotropy)` whose
                  body assigns only attributes of `ca` and entries of `self.anisotropy` and cannot raise -> `X.forZipMut` (atoms past the
                  shorter list untouched); `for i, ca in enumerate(self.stru)` with body `eca = []`, `for j in range(<N>)` …
                  `eca.append(a)`, `newatoms.append(eca)` -> two `foldlM` over `X.enumerate` / `List.range`; `if c:` without `else`
                  (assigned variables returned by the branch); `self.stru[:] = sum(newatoms, [])` -> `List.flatten`; final `return`
Anything else -> `def expandAsymmetricUnit_untranslatable : String`.
"""
import ast
import os

GROUP = "cifsym"
OUTFILE = "SrcCifSym.lean"

FIELDS = {"stru": "LA", "asymmetric_unit": "LA", "cif_sgname": "OS", "spacegroup": "SG"}
LIB = ("FindSpaceGroup", "GetSpaceGroup", "IsSpaceGroupIdentifier", "SpaceGroup")


def U(msg):
    return pysrc.Untranslatable(msg)


def lstr(s):
    return pysrc.lean_str(s)


def strip_doc(body):
    if body and isinstance(body[0], ast.Expr) and isinstance(body[0].value, ast.Constant) and isinstance(body[0].value.value, str):
        return body[1:]
    return list(body)


def norm(st):
    return " ".join(ast.unparse(st).split())


class Tr:
    def __init__(self):
        self.env = {}      # local name -> type
        self.loops = {}    # name -> lean expr of the loop item name
        self.lines = []
        self.ind = 1

    def emit(self, s):
        self.lines.append("  " * self.ind + s)

    # ---- expressions: returns (lean, type)
    def expr(self, e):
        if isinstance(e, ast.Constant):
            if isinstance(e.value, str):
                return lstr(e.value), "S"
            if e.value is None:
                return "none", "N"
            raise U("constant %r" % (e.value,))
        if isinstance(e, ast.Name):
            if e.id in self.env:
                return "v_" + e.id, self.env[e.id]
            raise U("unknown name %s" % e.id)
        if isinstance(e, ast.Attribute) and isinstance(e.value, ast.Name) and e.value.id == "self":
            if e.attr in FIELDS:
                return "self." + e.attr, FIELDS[e.attr]
            raise U("self.%s" % e.attr)
        if isinstance(e, (ast.Tuple, ast.List)):
            if not e.elts:
                return "[]", "L?"
            parts = [self.expr(x) for x in e.elts]
            if all(t == "S" for _, t in parts):
                return "[" + ", ".join(p for p, _ in parts) + "]", "LS"
            raise U("sequence %s" % norm(e))
        if isinstance(e, ast.ListComp):
            # [n for n in X if n in block]
            if (len(e.generators) == 1 and isinstance(e.elt, ast.Name) and isinstance(e.generators[0].target, ast.Name)
                    and e.elt.id == e.generators[0].target.id and len(e.generators[0].ifs) == 1 and not e.generators[0].is_async):
                g = e.generators[0]
                c = g.ifs[0]
                src, t = self.expr(g.iter)
                if (t == "LS" and isinstance(c, ast.Compare) and len(c.ops) == 1 and isinstance(c.ops[0], ast.In)
                        and isinstance(c.left, ast.Name) and c.left.id == g.target.id
                        and isinstance(c.comparators[0], ast.Name) and c.comparators[0].id == "block"):
                    return "(%s).filter (fun n => block.has n)" % src, "LS"
            raise U("comprehension %s" % norm(e))
        if isinstance(e, ast.BoolOp) and isinstance(e.op, ast.Or):
            parts = [self.expr(x) for x in e.values]
            tail_none = parts[-1][1] == "N"
            if tail_none:
                parts = parts[:-1]
            ts = [t for _, t in parts]
            if all(t == "S" for t in ts):
                acc = parts[0][0]
                for p, _ in parts[1:]:
                    acc = "pyOr (%s) (%s)" % (acc, p)
                out, ty = acc, "S"
            elif ts[-1] == "S" and all(t in ("OS", "S") for t in ts[:-1]):
                acc = parts[-1][0]
                for p, t in reversed(parts[:-1]):
                    acc = ("optOr (%s) (%s)" if t == "OS" else "pyOr (%s) (%s)") % (p, acc)
                out, ty = acc, "S"
            else:
                raise U("or-chain %s" % norm(e))
            if tail_none:
                return "orNone (%s)" % out, "OS"
            return out, ty
        if isinstance(e, ast.BinOp) and isinstance(e.op, ast.Add):
            a, ta = self.expr(e.left)
            b, tb = self.expr(e.right)
            if ta == tb == "S":
                return "%s ++ (%s)" % (a, b), "S"
            raise U("+ %s" % norm(e))
        if isinstance(e, ast.Call):
            f = e.func
            if isinstance(f, ast.Name) and f.id == "list" and len(e.args) == 1 and not e.keywords:
                a, t = self.expr(e.args[0])
                if t == "LA":
                    return a, "LA"
            if isinstance(f, ast.Attribute) and isinstance(f.value, ast.Name) and f.value.id == "block" and f.attr == "get" and not e.keywords:
                if len(e.args) == 2 and isinstance(e.args[1], ast.Constant) and e.args[1].value == "":
                    k, t = self.expr(e.args[0])
                    if t == "S":
                        return "block.getD %s" % k, "S"
                if len(e.args) == 1:
                    k, t = self.expr(e.args[0])
                    if t == "S":
                        return "block.get? %s" % k, "OS"
            if isinstance(f, ast.Attribute) and f.attr == "upper" and not e.args and not e.keywords:
                a, t = self.expr(f.value)
                if t == "S":
                    return "env.upper (%s)" % a, "S"
            if isinstance(f, ast.Name) and f.id == "IsSpaceGroupIdentifier" and len(e.args) == 1 and not e.keywords:
                a, t = self.expr(e.args[0])
                if t == "S":
                    return "env.isId %s" % a, "B"
            if isinstance(f, ast.Name) and f.id == "SpaceGroup" and not e.args:
                kw = {k.arg: self.expr(k.value) for k in e.keywords}
                if sorted(kw) == ["crystal_system", "short_name", "symop_list"] and kw["short_name"][1] == "S" and kw["crystal_system"][1] == "S" and kw["symop_list"][1] == "LO":
                    return "SGRes.custom (%s) (%s) (%s)" % (kw["short_name"][0], kw["crystal_system"][0], kw["symop_list"][0]), "SGV"
            raise U("call %s" % norm(e))
        raise U("expression %s" % norm(e))

    def cond(self, e):
        if isinstance(e, ast.BoolOp) and isinstance(e.op, ast.And):
            return " && ".join(self.cond(x) for x in e.values)
        if isinstance(e, ast.Compare) and len(e.ops) == 1 and isinstance(e.ops[0], ast.Is) and isinstance(e.comparators[0], ast.Constant) and e.comparators[0].value is None:
            a, t = self.expr(e.left)
            if t in ("SG", "OS"):
                return "%s.isNone" % a
            raise U("is None on %s" % t)
        a, t = self.expr(e)
        if t == "B":
            return a
        if t == "S":
            return "%s != \"\"" % a
        if t in ("LS", "LO"):
            return "!%s.isEmpty" % a
        raise U("truth value of %s : %s" % (norm(e), t))

    # ---- statements
    def assigned(self, stmts):
        """(local names, self touched) assigned in a statement list"""
        names, selfs = [], False
        for s in stmts:
            for n in ast.walk(s):
                if isinstance(n, ast.Assign):
                    for t in n.targets:
                        if isinstance(t, ast.Name) and t.id not in names:
                            names.append(t.id)
                        if isinstance(t, ast.Attribute) and isinstance(t.value, ast.Name) and t.value.id == "self":
                            selfs = True
                if isinstance(n, ast.Call) and isinstance(n.func, ast.Attribute) and n.func.attr == "append" and isinstance(n.func.value, ast.Name):
                    if n.func.value.id not in names:
                        names.append(n.func.value.id)
        return names, selfs

    def reads(self, stmts):
        out = set()
        for s in stmts:
            for n in ast.walk(s):
                if isinstance(n, ast.Name) and isinstance(n.ctx, ast.Load):
                    out.add(n.id)
        return out

    def block(self, stmts, rest_reads):
        """emit the statements; `rest_reads` = names read after this block (for `if` results)"""
        i = 0
        while i < len(stmts):
            s = stmts[i]
            later = self.reads(stmts[i + 1:]) | rest_reads
            if isinstance(s, ast.ImportFrom):
                raise U("import inside the block")
            if isinstance(s, ast.Assign) and len(s.targets) == 1:
                t = s.targets[0]
                if isinstance(t, ast.Attribute) and isinstance(t.value, ast.Name) and t.value.id == "self":
                    if t.attr not in FIELDS:
                        raise U("assignment to self.%s" % t.attr)
                    v, ty = self.expr(s.value)
                    want = FIELDS[t.attr]
                    if want == "SG":
                        if ty == "N":
                            v = "none"
                        elif ty == "SGV":
                            v = "some (%s)" % v
                        elif isinstance(s.value, ast.Call) and isinstance(s.value.func, ast.Name) and s.value.func.id == "GetSpaceGroup":
                            raise U("GetSpaceGroup handled by the statement form")
                        else:
                            raise U("self.spacegroup = %s" % norm(s.value))
                    elif want == "OS":
                        if ty == "S":
                            v = "some (%s)" % v
                        elif ty not in ("OS", "N"):
                            raise U("self.%s = %s" % (t.attr, norm(s.value)))
                    elif want != ty:
                        raise U("self.%s = %s" % (t.attr, norm(s.value)))
                    self.emit("let self := { self with %s := %s }" % (t.attr, v))
                    i += 1
                    continue
                if isinstance(t, ast.Name):
                    # emsg = "<text>"  (cannot raise, only used by the raise that follows)
                    if isinstance(s.value, ast.Constant) and isinstance(s.value.value, str) and t.id == "emsg":
                        i += 1
                        continue
                    # x = x[0]
                    if (isinstance(s.value, ast.Subscript) and isinstance(s.value.value, ast.Name) and s.value.value.id == t.id
                            and isinstance(s.value.slice, ast.Constant) and s.value.slice.value == 0 and self.env.get(t.id) == "LS"):
                        self.emit("let v_%s ← (match v_%s[0]? with | some x => pure x | none => .error Exn.indexError)" % (t.id, t.id))
                        self.env[t.id] = "S"
                        i += 1
                        continue
                    # L = block.GetLoop(n)
                    if (isinstance(s.value, ast.Call) and isinstance(s.value.func, ast.Attribute) and s.value.func.attr == "GetLoop"
                            and isinstance(s.value.func.value, ast.Name) and s.value.func.value.id == "block" and len(s.value.args) == 1 and not s.value.keywords):
                        n, ty = self.expr(s.value.args[0])
                        if ty != "S":
                            raise U("GetLoop argument")
                        self.loops[t.id] = n
                        i += 1
                        continue
                    v, ty = self.expr(s.value)
                    if ty == "L?":
                        ty = "LO"   # checked by the append that fills it
                        self.emit("let v_%s : List Op := []" % t.id)
                    elif ty in ("S", "LS"):
                        self.emit("let v_%s : %s := %s" % (t.id, {"S": "String", "LS": "List String"}[ty], v))
                    else:
                        raise U("local of type %s: %s" % (ty, norm(s)))
                    self.env[t.id] = ty
                    i += 1
                    continue
                raise U("assignment %s" % norm(s))
            if isinstance(s, ast.For):
                self.for_loop(s)
                i += 1
                continue
            if isinstance(s, ast.Try):
                self.try_find(s)
                i += 1
                continue
            if isinstance(s, ast.If):
                if s.orelse:
                    raise U("if with else")
                # if <cond>: … raise  (last statement raises)
                if isinstance(s.body[-1], ast.Raise):
                    for b in s.body[:-1]:
                        if not (isinstance(b, ast.Assign) and isinstance(b.targets[0], ast.Name) and b.targets[0].id == "emsg"
                                and isinstance(b.value, ast.Constant) and isinstance(b.value.value, str)):
                            raise U("statement before raise: %s" % norm(b))
                    self.emit("if %s then .error %s else" % (self.cond(s.test), self.raise_kind(s.body[-1])))
                    i += 1
                    continue
                names, selfs = self.assigned(s.body)
                live = [n for n in names if n in later]
                c = self.cond(s.test)
                saved_env = dict(self.env)
                if selfs and not live:
                    self.emit("let self ← (if %s then do" % c)
                    self.ind += 2
                    self.block(s.body, later)
                    self.emit("pure self")
                    self.ind -= 1
                    self.emit("else pure self)")
                    self.ind -= 1
                    self.env = saved_env
                elif live and not selfs and len(live) == 1 and live[0] in self.env:
                    n = live[0]
                    self.emit("let v_%s ← (if %s then do" % (n, c))
                    self.ind += 2
                    self.block(s.body, later)
                    self.emit("pure v_%s" % n)
                    self.ind -= 1
                    self.emit("else pure v_%s)" % n)
                    self.ind -= 1
                    ty = self.env[n]
                    self.env = saved_env
                    if self.env[n] != ty:
                        raise U("type of %s changes in a branch" % n)
                else:
                    raise U("if assigning %r (self: %s), live %r" % (names, selfs, live))
                i += 1
                continue
            if isinstance(s, ast.Expr) and isinstance(s.value, ast.Call) and norm(s) == "self._expandAsymmetricUnit(block)":
                self.tail = [norm(s)]   # the caller checks that only `return` follows
                return
            raise U("statement %s" % norm(s))
        self.tail = []

    def raise_kind(self, s):
        if isinstance(s.exc, ast.Call) and isinstance(s.exc.func, ast.Name) and s.exc.func.id == "StructureFormatError" and s.cause is None:
            for n in ast.walk(s.exc):
                if isinstance(n, ast.Call) and n is not s.exc and not (isinstance(n.func, ast.Attribute) and n.func.attr == "format"):
                    raise U("call inside the raise: %s" % norm(s))
            return "Exn.structureFormatError"
        raise U("raise %s" % norm(s))

    def for_loop(self, s):
        # for t in L[n]: v = getSymOp(t); acc.append(v)
        if s.orelse or not isinstance(s.target, ast.Name):
            raise U("for shape")
        it = s.iter
        if not (isinstance(it, ast.Subscript) and isinstance(it.value, ast.Name) and it.value.id in self.loops):
            raise U("for iterates over %s" % norm(it))
        k, ty = self.expr(it.slice)
        if ty != "S" or k != self.loops[it.value.id]:
            raise U("loop column %s of loop %s" % (k, self.loops[it.value.id]))
        if len(s.body) != 2:
            raise U("for body")
        a, b = s.body
        ok = (isinstance(a, ast.Assign) and isinstance(a.targets[0], ast.Name) and isinstance(a.value, ast.Call)
              and isinstance(a.value.func, ast.Name) and a.value.func.id == "getSymOp" and len(a.value.args) == 1 and not a.value.keywords
              and isinstance(a.value.args[0], ast.Name) and a.value.args[0].id == s.target.id
              and isinstance(b, ast.Expr) and isinstance(b.value, ast.Call) and isinstance(b.value.func, ast.Attribute)
              and b.value.func.attr == "append" and isinstance(b.value.func.value, ast.Name) and len(b.value.args) == 1
              and isinstance(b.value.args[0], ast.Name) and b.value.args[0].id == a.targets[0].id)
        if not ok:
            raise U("for body %s" % norm(s))
        acc = b.value.func.value.id
        if self.env.get(acc) != "LO":
            raise U("append to %s" % acc)
        self.emit("let v_%s ← (block.col %s).foldlM (fun acc %s => do let %s ← env.getSymOp %s; pure (acc ++ [%s])) v_%s" % (
            acc, k, s.target.id, a.targets[0].id, s.target.id, a.targets[0].id, acc))

    def try_find(self, s):
        ok = (len(s.body) == 1 and len(s.handlers) == 1 and not s.orelse and not s.finalbody
              and isinstance(s.handlers[0].type, ast.Name) and s.handlers[0].type.id == "ValueError" and s.handlers[0].name is None
              and len(s.handlers[0].body) == 1 and isinstance(s.handlers[0].body[0], ast.Pass))
        b = s.body[0] if ok else None
        ok = ok and (isinstance(b, ast.Assign) and norm(b.targets[0]) == "self.spacegroup" and isinstance(b.value, ast.Call)
                     and isinstance(b.value.func, ast.Name) and b.value.func.id == "FindSpaceGroup" and len(b.value.args) == 1 and not b.value.keywords)
        if not ok:
            raise U("try statement %s" % norm(s))
        a, ty = self.expr(b.value.args[0])
        if ty != "LO":
            raise U("FindSpaceGroup argument")
        self.emit("let self ← (match env.find %s with" % a)
        self.emit("  | some g => pure { self with spacegroup := some (SGRes.tab g) }")
        self.emit("  | none => pure self)")


def get_sg_stmt(tr, s, later):
    """`if <cond>: self.spacegroup = GetSpaceGroup(x)`"""
    if (isinstance(s, ast.If) and not s.orelse and len(s.body) == 1 and isinstance(s.body[0], ast.Assign)
            and norm(s.body[0].targets[0]) == "self.spacegroup" and isinstance(s.body[0].value, ast.Call)
            and isinstance(s.body[0].value.func, ast.Name) and s.body[0].value.func.id == "GetSpaceGroup"
            and len(s.body[0].value.args) == 1 and not s.body[0].value.keywords):
        a, ty = tr.expr(s.body[0].value.args[0])
        if ty != "S":
            raise U("GetSpaceGroup argument")
        tr.emit("let self ← (if %s then do" % tr.cond(s.test))
        tr.emit("    let g ← env.getSG %s" % a)
        tr.emit("    pure { self with spacegroup := some (SGRes.tab g) }")
        tr.emit("  else pure self)")
        return True
    return False


def translate_method(cls, tree):
    fn = pysrc.find_func(cls.body, "_parse_space_group_symop_operation_xyz")
    if fn is None:
        raise U("method not found")
    if [a.arg for a in fn.args.args] != ["self", "block"] or fn.args.vararg or fn.args.kwarg or fn.args.kwonlyargs or fn.decorator_list:
        raise U("signature")
    body = strip_doc(fn.body)
    if not (body and isinstance(body[0], ast.ImportFrom) and body[0].module == "diffpy.structure.spacegroups" and body[0].level == 0
            and sorted(a.name for a in body[0].names) == sorted(LIB) and all(a.asname is None for a in body[0].names)):
        raise U("import statement of the library functions")
    # getSymOp must be the module-level function, none of the names rebound in the method
    mod_defs = [n.name for n in tree.body if isinstance(n, ast.FunctionDef)]
    if mod_defs.count("getSymOp") != 1:
        raise U("getSymOp is not a unique module-level function")
    for n in ast.walk(fn):
        if isinstance(n, ast.Name) and isinstance(n.ctx, ast.Store) and n.id in LIB + ("getSymOp", "block", "self", "list", "StructureFormatError"):
            raise U("%s rebound" % n.id)
    tr = Tr()
    stmts = body[1:]
    # the GetSpaceGroup statement form is handled here so that `Tr.block` stays generic
    i = 0
    out_stmts = []
    tr.tail = []
    while i < len(stmts):
        s = stmts[i]
        later = tr.reads(stmts[i + 1:])
        if get_sg_stmt(tr, s, later):
            i += 1
            continue
        tr.block([s], later)
        if tr.tail:
            tr.tail = [norm(x) for x in stmts[i:]]
            if tr.tail != ["self._expandAsymmetricUnit(block)", "return"]:
                raise U("statements after the expansion call")
            break
        i += 1
    if not tr.tail:
        raise U("the method does not end with the expansion call")
    tr.emit("pure self")
    return tr.lines, tr.tail


# ------------------------------------------------------------------------------------------------
# _expandAsymmetricUnit

X_PRELUDE = """/-! vocabulary of the transliteration of `P_cif._expandAsymmetricUnit` (fixed text of translate/src_cifsym.py) -/
namespace X

/-- the values `Atom(ca)` copies: the six attributes the method looks at, everything else in `rest` -/
structure PAtom (P T O R : Type) where
  label : String
  element : String
  occupancy : O
  xyz : P
  anisotropy : Bool
  U : T
  rest : R

/-- the two property setters of `Atom` with behaviour of their own (`atom.py`; C09) -/
structure AtomOps (P T O R : Type) where
  /-- `a.anisotropy = b` -/
  setAnisotropy : Bool → PAtom P T O R → PAtom P T O R
  /-- `a.U = v` -/
  setU : T → PAtom P T O R → PAtom P T O R

/-- the attributes of an `ExpandAsymmetricUnit` object the method reads -/
structure Eau (P T : Type) where
  multiplicity : List Nat
  expandedpos : List (List P)
  expandedUijs : List (List T)
  Uisotropy : List Bool

/-- `self.anisotropy`: label -> bool, insertion order -/
abbrev Dict := List (String × Bool)

/-- `k in d` -/
def dictHas (d : Dict) (k : String) : Bool := d.any (fun p => p.1 == k)

/-- `d.get(k)` -/
def dictGet (d : Dict) (k : String) : Option Bool := (d.find? (fun p => p.1 == k)).map (·.2)

/-- `d[k] = v` -/
def dictSet (d : Dict) (k : String) (v : Bool) : Dict :=
  if dictHas d k then d.map (fun p => if p.1 == k then (k, v) else p) else d ++ [(k, v)]

/-- the attributes of the parser object the method reads or writes -/
structure XState (P T O R : Type) where
  stru : List (PAtom P T O R)
  anisotropy : Dict

/-- `l[n]` for `n ≥ 0`: `IndexError` past the end -/
def pyIdx {A : Type} (l : List A) (n : Nat) : Except Exn A :=
  match l[n]? with
  | some x => pure x
  | none => .error Exn.indexError

def enumerateFrom {A : Type} : Nat → List A → List (Nat × A)
  | _, [] => []
  | n, a :: as => (n, a) :: enumerateFrom (n + 1) as

/-- `enumerate(l)` -/
def enumerate {A : Type} (l : List A) : List (Nat × A) := enumerateFrom 0 l

/-- `for a, b in zip(L, bs): <body>` where the body changes attributes of the object `a` and a state `s` only, and cannot raise:
the list afterwards (objects past the shorter list untouched) and the state -/
def forZipMut {A B S : Type} (body : S → A → B → A × S) : S → List A → List B → List A × S
  | s, a :: as, b :: bs =>
    let r := body s a b
    let t := forZipMut body r.2 as bs
    (r.1 :: t.1, t.2)
  | s, as, _ => (as, s)

end X

"""

XA_ATTRS = {"label": "S", "element": "S", "xyz": "P", "anisotropy": "B", "U": "T"}
XEAU = {"multiplicity": "LN", "expandedpos": "LLP", "expandedUijs": "LLT", "Uisotropy": "LB"}
XELEM = {"LN": "N", "LLP": "LP", "LLT": "LT", "LP": "P", "LT": "T", "LB": "B", "LA": "A", "LLA": "LA"}
XLEAN = {"N": "Nat", "S": "String", "B": "Bool", "P": "P", "T": "T", "A": "X.PAtom P T O R"}
XBUILTINS = ("zip", "enumerate", "range", "sum", "str")
XCMP = {ast.Gt: ">", ast.Lt: "<", ast.GtE: "≥", ast.LtE: "≤", ast.Eq: "=", ast.NotEq: "≠"}


def xlean_type(t):
    if t.startswith("L"):
        return "List (%s)" % xlean_type(t[1:])
    return XLEAN[t]


class XBlk:
    """statements of one body: lines plus whether any of them can raise (monadic binding)"""

    def __init__(self, env, eau_ok, ind):
        self.env = dict(env)       # python local name -> type
        self.eau_ok = eau_ok       # self.eau assigned
        self.lines = []
        self.monadic = False
        self.ind = ind
        self.tmp = [0]

    def emit(self, s):
        self.lines.append("  " * self.ind + s)

    def fresh(self):
        self.tmp[0] += 1
        return "t%d" % self.tmp[0]

    def sub(self, extra=0):
        b = XBlk(self.env, self.eau_ok, self.ind + extra)
        b.tmp = self.tmp
        return b

    # ---- expressions -> (lean, type); index operations are bound first (`let t ← X.pyIdx …`)
    def expr(self, e):
        if isinstance(e, ast.Constant):
            if isinstance(e.value, bool) or e.value is None:
                raise U("constant %r" % (e.value,))
            if isinstance(e.value, int) and e.value >= 0:
                return "%d" % e.value, "N"
            if isinstance(e.value, str):
                return lstr(e.value), "S"
            raise U("constant %r" % (e.value,))
        if isinstance(e, ast.Name) and isinstance(e.ctx, ast.Load):
            if e.id in self.env:
                return "v_" + e.id, self.env[e.id]
            raise U("unknown name %s" % e.id)
        if isinstance(e, ast.Attribute) and isinstance(e.ctx, ast.Load):
            if norm(e) == "self.stru":
                return "self.stru", "LA"
            if norm(e) == "self.anisotropy":
                return "self.anisotropy", "D"
            if isinstance(e.value, ast.Attribute) and norm(e.value) == "self.eau":
                if not self.eau_ok:
                    raise U("self.eau read before it is assigned")
                if e.attr in XEAU:
                    return "eau." + e.attr, XEAU[e.attr]
                raise U("self.eau.%s" % e.attr)
            a, t = self.expr(e.value)
            if t == "A" and e.attr in XA_ATTRS:
                return "%s.%s" % (a, e.attr), XA_ATTRS[e.attr]
            raise U("attribute %s" % norm(e))
        if isinstance(e, ast.Subscript) and isinstance(e.ctx, ast.Load):
            l, tl = self.expr(e.value)
            n, tn = self.expr(e.slice)
            if tl in XELEM and tl != "LA" and tl != "LLA" and tn == "N":
                t = self.fresh()
                self.emit("let %s ← X.pyIdx %s (%s)" % (t, l, n))
                self.monadic = True
                return t, XELEM[tl]
            raise U("subscript %s" % norm(e))
        if isinstance(e, ast.BinOp) and isinstance(e.op, ast.Add):
            a, ta = self.expr(e.left)
            b, tb = self.expr(e.right)
            if ta == tb == "N":
                return "(%s + %s)" % (a, b), "N"
            if ta == tb == "S":
                return "(%s ++ %s)" % (a, b), "S"
            raise U("+ %s" % norm(e))
        if isinstance(e, ast.UnaryOp) and isinstance(e.op, ast.Not):
            return "(!%s)" % self.cond(e.operand), "B"
        if isinstance(e, ast.Compare) and len(e.ops) == 1:
            op = e.ops[0]
            a, ta = self.expr(e.left)
            b, tb = self.expr(e.comparators[0])
            if type(op) in XCMP and ta == tb == "N":
                return "(decide (%s %s %s))" % (a, XCMP[type(op)], b), "B"
            if isinstance(op, (ast.In, ast.NotIn)) and ta == "S" and tb == "D":
                r = "(X.dictHas %s %s)" % (b, a)
                return ("(!%s)" % r if isinstance(op, ast.NotIn) else r), "B"
            raise U("comparison %s" % norm(e))
        if isinstance(e, ast.Call) and isinstance(e.func, ast.Name) and len(e.args) == 1 and not e.keywords:
            if e.func.id == "str":
                a, t = self.expr(e.args[0])
                if t == "N":
                    return "(toString %s)" % a, "S"
            if e.func.id == "Atom":
                a, t = self.expr(e.args[0])
                if t == "A":
                    return a, "A"
            raise U("call %s" % norm(e))
        raise U("expression %s" % norm(e))

    def cond(self, e):
        a, t = self.expr(e)
        if t == "B":
            return a
        raise U("truth value of %s : %s" % (norm(e), t))

    # ---- statements of a loop body; returns the names (lean variables) assigned
    def stmt(self, s, own):
        """`own`: python names whose attributes may be assigned here"""
        if isinstance(s, ast.Assign) and len(s.targets) == 1:
            t = s.targets[0]
            if isinstance(t, ast.Name):
                if t.id in ("self",) + XBUILTINS + ("Atom", "ExpandAsymmetricUnit"):
                    raise U("%s rebound" % t.id)
                v, ty = self.expr(s.value)
                if ty not in XLEAN:
                    raise U("local of type %s: %s" % (ty, norm(s)))
                if t.id in self.env and self.env[t.id] != ty:
                    raise U("type of %s changes" % t.id)
                self.emit("let v_%s : %s := %s" % (t.id, XLEAN[ty], v))
                self.env[t.id] = ty
                return ["v_" + t.id]
            if isinstance(t, ast.Attribute) and isinstance(t.value, ast.Name) and t.value.id in own and self.env.get(t.value.id) == "A":
                x = "v_" + t.value.id
                v, ty = self.expr(s.value)
                if t.attr in ("xyz", "label") and ty == XA_ATTRS[t.attr]:
                    self.emit("let %s := { %s with %s := %s }" % (x, x, t.attr, v))
                elif t.attr == "anisotropy" and ty == "B":
                    self.emit("let %s := ops.setAnisotropy %s %s" % (x, v, x))
                elif t.attr == "U" and ty == "T":
                    self.emit("let %s := ops.setU %s %s" % (x, v, x))
                else:
                    raise U("assignment %s" % norm(s))
                return [x]
            if isinstance(t, ast.Subscript) and norm(t.value) == "self.anisotropy":
                k, tk = self.expr(t.slice)
                v, tv = self.expr(s.value)
                if tk == "S" and tv == "B":
                    self.emit("let self_anisotropy := X.dictSet self_anisotropy %s %s" % (k, v))
                    return ["self_anisotropy"]
            raise U("assignment %s" % norm(s))
        if isinstance(s, ast.AugAssign) and isinstance(s.op, ast.Add):
            t = s.target
            if isinstance(t, ast.Attribute) and isinstance(t.value, ast.Name) and t.value.id in own and self.env.get(t.value.id) == "A" and t.attr == "label":
                x = "v_" + t.value.id
                v, ty = self.expr(s.value)
                if ty == "S":
                    self.emit("let %s := { %s with label := %s.label ++ %s }" % (x, x, x, v))
                    return [x]
            raise U("augmented assignment %s" % norm(s))
        if isinstance(s, ast.If):
            if s.orelse:
                raise U("if with else")
            c = self.cond(s.test)
            b = self.sub(2)
            names = []
            for q in s.body:
                for n in b.stmt(q, own):
                    if n not in names:
                        names.append(n)
            for n in names:
                if n.startswith("v_") and n[2:] not in self.env:
                    raise U("%s first assigned in a branch" % n[2:])
            if not names:
                raise U("if without effect")
            tup = names[0] if len(names) == 1 else "(" + ", ".join(names) + ")"
            if b.monadic:
                self.monadic = True
                self.emit("let %s ← (if %s then do" % (tup, c))
                self.lines += b.lines
                self.emit("    pure %s" % tup)
                self.emit("  else pure %s)" % tup)
            else:
                self.emit("let %s := (if %s then" % (tup, c))
                self.lines += b.lines
                self.emit("    %s" % tup)
                self.emit("  else %s)" % tup)
            return names
        raise U("statement %s" % norm(s))

    def dict_reads(self):
        """inside the zip body the dictionary is the loop state"""
        self.lines = [ln.replace("self.anisotropy", "self_anisotropy") for ln in self.lines]


def is_append(s, acc=None):
    ok = (isinstance(s, ast.Expr) and isinstance(s.value, ast.Call) and isinstance(s.value.func, ast.Attribute) and s.value.func.attr == "append"
          and isinstance(s.value.func.value, ast.Name) and len(s.value.args) == 1 and not s.value.keywords and isinstance(s.value.args[0], ast.Name))
    if ok and (acc is None or s.value.func.value.id == acc):
        return s.value.func.value.id, s.value.args[0].id
    return None


def translate_expand(cls, tree):
    """-> text of the four definitions"""
    fn = pysrc.find_func(cls.body, "_expandAsymmetricUnit")
    if fn is None:
        raise U("method not found")
    if [a.arg for a in fn.args.args] != ["self", "block"] or fn.args.vararg or fn.args.kwarg or fn.args.kwonlyargs or fn.decorator_list:
        raise U("signature")
    # names: Atom from the module import, the builtins nowhere rebound, ExpandAsymmetricUnit from the method's import
    atom_imports = [n for n in tree.body if isinstance(n, ast.ImportFrom) and n.module == "diffpy.structure" and n.level == 0
                    and any(a.name == "Atom" and a.asname is None for a in n.names)]
    if len(atom_imports) != 1:
        raise U("Atom is not imported from diffpy.structure at module level")
    for n in ast.walk(tree):
        bound = None
        if isinstance(n, ast.Name) and isinstance(n.ctx, (ast.Store, ast.Del)):
            bound = n.id
        elif isinstance(n, (ast.FunctionDef, ast.ClassDef, ast.AsyncFunctionDef)):
            bound = n.name
        elif isinstance(n, ast.arg):
            bound = n.arg
        elif isinstance(n, ast.alias) and n not in atom_imports[0].names:
            bound = (n.asname or n.name).split(".")[0]
        elif isinstance(n, ast.ExceptHandler):
            bound = n.name
        if bound in XBUILTINS + ("Atom",):
            raise U("%s rebound in the module" % bound)
        if isinstance(n, (ast.Global, ast.Nonlocal)) and set(n.names) & set(XBUILTINS + ("Atom", "ExpandAsymmetricUnit")):
            raise U("global statement")
    body = strip_doc(fn.body)
    if len(body) != 9:
        raise U("the method has %d statements, the template 9" % len(body))
    imp, s_pos, s_uij, s_eau, f_zip, s_new, f_enum, s_set, s_ret = body
    if not (isinstance(imp, ast.ImportFrom) and imp.module == "diffpy.structure.symmetryutilities" and imp.level == 0
            and [(a.name, a.asname) for a in imp.names] == [("ExpandAsymmetricUnit", None)]):
        raise U("import statement of ExpandAsymmetricUnit")
    for n in ast.walk(fn):
        if isinstance(n, ast.Name) and isinstance(n.ctx, ast.Store) and n.id in ("ExpandAsymmetricUnit", "self", "block"):
            raise U("%s rebound" % n.id)

    out = []
    # corepos = [a.xyz for a in self.stru]; coreUijs = [a.U for a in self.stru]
    top = XBlk({}, False, 1)
    for s, want in ((s_pos, "P"), (s_uij, "T")):
        ok = (isinstance(s, ast.Assign) and len(s.targets) == 1 and isinstance(s.targets[0], ast.Name) and isinstance(s.value, ast.ListComp)
              and len(s.value.generators) == 1 and not s.value.generators[0].ifs and not s.value.generators[0].is_async
              and isinstance(s.value.generators[0].target, ast.Name) and norm(s.value.generators[0].iter) == "self.stru")
        if not ok:
            raise U("statement %s" % norm(s))
        var = s.value.generators[0].target.id
        b = XBlk({var: "A"}, False, 1)
        v, ty = b.expr(s.value.elt)
        if ty != want or b.lines:
            raise U("comprehension %s" % norm(s))
        top.emit("let v_%s : List %s := self.stru.map (fun v_%s => %s)" % (s.targets[0].id, want, var, v))
        top.env[s.targets[0].id] = "L" + want
    # self.eau = ExpandAsymmetricUnit(self.spacegroup, corepos, coreUijs, eps=self.eps)
    ok = (isinstance(s_eau, ast.Assign) and len(s_eau.targets) == 1 and norm(s_eau.targets[0]) == "self.eau" and isinstance(s_eau.value, ast.Call)
          and isinstance(s_eau.value.func, ast.Name) and s_eau.value.func.id == "ExpandAsymmetricUnit" and len(s_eau.value.args) == 3
          and norm(s_eau.value.args[0]) == "self.spacegroup" and all(isinstance(a, ast.Name) for a in s_eau.value.args[1:])
          and [(k.arg, norm(k.value)) for k in s_eau.value.keywords] == [("eps", "self.eps")])
    if not ok:
        raise U("statement %s" % norm(s_eau))
    a1, a2 = s_eau.value.args[1].id, s_eau.value.args[2].id
    if top.env.get(a1) != "LP" or top.env.get(a2) != "LT":
        raise U("arguments of ExpandAsymmetricUnit: %s" % norm(s_eau))
    top.emit("let eau ← mkEau v_%s v_%s" % (a1, a2))
    top.eau_ok = True

    # for ca, uisotropy in zip(self.stru, self.eau.Uisotropy): …
    ok = (isinstance(f_zip, ast.For) and not f_zip.orelse and isinstance(f_zip.target, ast.Tuple) and len(f_zip.target.elts) == 2
          and all(isinstance(x, ast.Name) for x in f_zip.target.elts) and norm(f_zip.iter) == "zip(self.stru, self.eau.Uisotropy)")
    if not ok:
        raise U("first loop %s" % norm(f_zip)[:80])
    ca, ui = (x.id for x in f_zip.target.elts)
    if ca == ui:
        raise U("first loop targets")
    zb = XBlk({ca: "A", ui: "B"}, True, 1)
    for q in f_zip.body:
        for n in zb.stmt(q, own=(ca,)):
            if n not in ("v_" + ca, "self_anisotropy"):
                raise U("first loop assigns %s" % n)
    if zb.monadic:
        raise U("first loop can raise")
    zb.dict_reads()
    out.append("/-- `_expandAsymmetricUnit`: body of `for %s, %s in zip(self.stru, self.eau.Uisotropy)`; the atom afterwards and `self.anisotropy` -/\n"
               "def expandAsymmetricUnit_decide (ops : X.AtomOps P T O R) (self_anisotropy : X.Dict) (v_%s : X.PAtom P T O R) (v_%s : Bool) :\n"
               "    X.PAtom P T O R × X.Dict :=\n%s\n  (v_%s, self_anisotropy)\n\n" % (ca, ui, ca, ui, "\n".join(zb.lines), ca))
    top.emit("let r := X.forZipMut (expandAsymmetricUnit_decide ops) self.anisotropy self.stru eau.Uisotropy")
    top.emit("let self : X.XState P T O R := { self with stru := r.1, anisotropy := r.2 }")

    # newatoms = []
    if not (isinstance(s_new, ast.Assign) and len(s_new.targets) == 1 and isinstance(s_new.targets[0], ast.Name)
            and isinstance(s_new.value, ast.List) and not s_new.value.elts):
        raise U("statement %s" % norm(s_new))
    acc = s_new.targets[0].id
    top.emit("let v_%s : List (List (X.PAtom P T O R)) := []" % acc)

    # for i, ca in enumerate(self.stru): eca = []; for j in range(<N>): …; eca.append(a); newatoms.append(eca)
    ok = (isinstance(f_enum, ast.For) and not f_enum.orelse and isinstance(f_enum.target, ast.Tuple) and len(f_enum.target.elts) == 2
          and all(isinstance(x, ast.Name) for x in f_enum.target.elts) and norm(f_enum.iter) == "enumerate(self.stru)" and len(f_enum.body) == 3)
    if not ok:
        raise U("second loop %s" % norm(f_enum)[:80])
    vi, vca = (x.id for x in f_enum.target.elts)
    s_eca, f_in, s_app = f_enum.body
    if not (isinstance(s_eca, ast.Assign) and len(s_eca.targets) == 1 and isinstance(s_eca.targets[0], ast.Name)
            and isinstance(s_eca.value, ast.List) and not s_eca.value.elts):
        raise U("statement %s" % norm(s_eca))
    eca = s_eca.targets[0].id
    if is_append(s_app, acc) != (acc, eca):
        raise U("statement %s" % norm(s_app))
    ok = (isinstance(f_in, ast.For) and not f_in.orelse and isinstance(f_in.target, ast.Name) and isinstance(f_in.iter, ast.Call)
          and isinstance(f_in.iter.func, ast.Name) and f_in.iter.func.id == "range" and len(f_in.iter.args) == 1 and not f_in.iter.keywords
          and len(f_in.body) >= 2)
    if not ok:
        raise U("inner loop %s" % norm(f_in)[:80])
    vj = f_in.target.id
    if len({vi, vca, vj, eca, acc}) != 5:
        raise U("loop variables coincide")
    last = is_append(f_in.body[-1], eca)
    if last is None:
        raise U("the inner loop does not end with %s.append" % eca)
    ib = XBlk({vi: "N", vca: "A", vj: "N"}, True, 1)
    own = set()
    for q in f_in.body[:-1]:
        # attributes may be assigned on atoms created in this body only
        if isinstance(q, ast.Assign) and isinstance(q.targets[0], ast.Name) and isinstance(q.value, ast.Call) and isinstance(q.value.func, ast.Name) and q.value.func.id == "Atom":
            own.add(q.targets[0].id)
        for n in ib.stmt(q, own=tuple(own)):
            if n in ("v_" + vi, "v_" + vca, "v_" + vj, "self_anisotropy"):
                raise U("inner loop assigns %s" % n)
    if ib.env.get(last[1]) != "A" or last[1] not in own:
        raise U("%s.append(%s)" % (eca, last[1]))
    out.append("/-- `_expandAsymmetricUnit`: body of `for %s in range(…)` up to `%s.append(%s)`: the atom appended -/\n"
               "def expandAsymmetricUnit_image (ops : X.AtomOps P T O R) (eau : X.Eau P T) (v_%s : Nat) (v_%s : X.PAtom P T O R) (v_%s : Nat) :\n"
               "    Except Exn (X.PAtom P T O R) := do\n%s\n  pure v_%s\n\n" % (vj, eca, last[1], vi, vca, vj, "\n".join(ib.lines), last[1]))
    sb = XBlk({vi: "N", vca: "A"}, True, 1)
    n, tn = sb.expr(f_in.iter.args[0])
    if tn != "N":
        raise U("range argument %s" % norm(f_in.iter))
    out.append("/-- `_expandAsymmetricUnit`: body of `for %s, %s in enumerate(self.stru)` -/\n"
               "def expandAsymmetricUnit_site (ops : X.AtomOps P T O R) (eau : X.Eau P T) (v_%s : List (List (X.PAtom P T O R))) (e : Nat × X.PAtom P T O R) :\n"
               "    Except Exn (List (List (X.PAtom P T O R))) := do\n"
               "  let v_%s := e.1\n  let v_%s := e.2\n  let v_%s : List (X.PAtom P T O R) := []\n%s\n"
               "  let v_%s ← (List.range %s).foldlM (fun v_%s v_%s => do let a ← expandAsymmetricUnit_image ops eau v_%s v_%s v_%s; pure (v_%s ++ [a])) v_%s\n"
               "  pure (v_%s ++ [v_%s])\n\n" % (vi, vca, acc, vi, vca, eca, "\n".join(sb.lines), eca, n, eca, vj, vi, vca, vj, eca, eca, acc, eca))
    top.emit("let v_%s ← (X.enumerate self.stru).foldlM (expandAsymmetricUnit_site ops eau) v_%s" % (acc, acc))
    # self.stru[:] = sum(newatoms, [])
    if norm(s_set) != "self.stru[:] = sum(%s, [])" % acc:
        raise U("statement %s" % norm(s_set))
    top.emit("let self : X.XState P T O R := { self with stru := v_%s.flatten }" % acc)
    if not (isinstance(s_ret, ast.Return) and s_ret.value is None):
        raise U("statement %s" % norm(s_ret))
    top.emit("pure self")
    out.append("/-- `P_cif._expandAsymmetricUnit(self, block)`; `mkEau corepos coreUijs` = `ExpandAsymmetricUnit(self.spacegroup, corepos, coreUijs, eps=self.eps)` -/\n"
               "def expandAsymmetricUnit (ops : X.AtomOps P T O R) (mkEau : List P → List T → Except Exn (X.Eau P T)) (self : X.XState P T O R) :\n"
               "    Except Exn (X.XState P T O R) := do\n%s\n\n" % "\n".join(top.lines))
    return "section\nvariable {P T O R : Type}\n\n" + "".join(out) + "end\n\n"


def translate(report):
    path = os.path.join(pysrc.REPO, "src", "diffpy", "structure", "parsers", "p_cif.py")
    try:
        text = open(path, encoding="utf-8").read()
        tree = ast.parse(text)
    except (OSError, SyntaxError) as e:
        raise U("cannot read p_cif.py: %s" % e)
    cls = pysrc.find_class(tree, "P_cif")
    if cls is None:
        raise U("class P_cif not found")
    rep = {"methods": {}, "untranslatable": {}}
    out = ["-- GENERATED by translate/src_cifsym.py from %s — do not edit\n" % os.path.relpath(path, pysrc.REPO),
           "import DS.Model.CifSym\nnamespace DS.Src.CifSym\nopen DS.CifSym\n\n", X_PRELUDE]
    try:
        lines, tail = translate_method(cls, tree)
        out.append("/-- `P_cif._parse_space_group_symop_operation_xyz`, statement by statement -/\n"
                   "def parseSymops {G Op A : Type} (env : Env G Op) (block : Block) (self : PState G Op A) : Except Exn (PState G Op A) := do\n")
        out.append("\n".join(lines) + "\n\n")
        out.append("/-- what follows in the method -/\ndef parseSymops_tail : List String := [%s]\n\n" % ", ".join(lstr(t) for t in tail))
        rep["methods"]["parseSymops"] = "ok"
    except pysrc.Untranslatable as e:
        out.append("def parseSymops_untranslatable : String := %s\n\n" % lstr(str(e)))
        rep["untranslatable"]["parseSymops"] = str(e)
    try:
        out.append(translate_expand(cls, tree))
        rep["methods"]["expandAsymmetricUnit"] = "ok"
    except pysrc.Untranslatable as e:
        out.append("def expandAsymmetricUnit_untranslatable : String := %s\n\n" % lstr(str(e)))
        rep["untranslatable"]["expandAsymmetricUnit"] = str(e)
    # _parseCifBlock as normalised text
    for name, lean in (("_parseCifBlock", "parseCifBlock_body"),):
        fn = pysrc.find_func(cls.body, name)
        if fn is None:
            out.append("def %s_untranslatable : String := \"method not found\"\n\n" % lean)
            rep["untranslatable"][lean] = "method not found"
        else:
            out.append("/-- normalised statements of `P_cif.%s` -/\ndef %s : List String := [\n  %s]\n\n" % (
                name, lean, ",\n  ".join(lstr(norm(s)) for s in strip_doc(fn.body))))
            rep["methods"][lean] = "text"
    # __init__ defaults of the attributes the method uses
    fn = pysrc.find_func(cls.body, "__init__")
    inits = []
    if fn is not None:
        for s in strip_doc(fn.body):
            if isinstance(s, ast.Assign) and isinstance(s.targets[0], ast.Attribute) and norm(s.targets[0]) in ("self.spacegroup", "self.cif_sgname", "self.asymmetric_unit", "self.stru", "self.eau"):
                inits.append(norm(s))
    out.append("/-- how `P_cif.__init__` initialises the attributes -/\ndef init_attrs : List String := [%s]\n\n" % ", ".join(lstr(t) for t in inits))
    out.append("end DS.Src.CifSym\n")
    report[GROUP] = rep
    return "".join(out)
