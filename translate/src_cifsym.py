"""Source translator plug-in: which symmetry the CIF reader uses —
`P_cif._parse_space_group_symop_operation_xyz` (parsers/p_cif.py)  ->  lean/DS/Gen/SrcCifSym.lean  (namespace DS.Src.CifSym).

The method is read with `ast` from the tree under examination (`pysrc.REPO`, read at call time) and emitted statement by
statement as one Lean `do` block over the vocabulary of DS/Model/CifSym.lean (`Block`, `Env`, `PState`, `SGRes`, `pyOr`, `optOr`,
`orNone`).  `DS.Props.SrcCifSym` proves that the functional model `DS.CifSym.resolve` IS this transliteration.

Conventions (= trusted base of this translator):

  self            the parser object is the record `self : PState G Op A`; `self.x = e` -> `let self := { self with x := e }`;
                  only `stru`, `asymmetric_unit`, `cif_sgname`, `spacegroup` may be touched; `list(self.stru)` is `self.stru`
                  (lists are values)
  block           `n in block` -> `block.has n`; `block.get(k, "")` -> `block.getD k` (a string, "" = false);
                  `block.get(k)` -> `block.get? k` (`Option String`); `L = block.GetLoop(n)` followed by `L[n]` -> `block.col n`
  library calls   `getSymOp(t)` -> `env.getSymOp t` (may raise); `FindSpaceGroup(l)` inside `try … except ValueError: pass`
                  -> `match env.find l` (`none` = `ValueError`, nothing assigned); `IsSpaceGroupIdentifier(s)` -> `env.isId s`;
                  `GetSpaceGroup(s)` -> `env.getSG s` (may raise); `SpaceGroup(short_name=a, crystal_system=b, symop_list=c)`
                  -> `SGRes.custom a b c`; `s.upper()` -> `env.upper s`.  The four names must be bound by the import statement
                  at the top of the method, `getSymOp` must be the module-level function of p_cif.py.
  types           S string, OS optional string, LS list of strings, LO list of operators, B bool, SG optional space group.
                  `a or b or c`: all S -> `pyOr (pyOr a b) c`; OS … S -> `optOr a (optOr b c)`; `… or None` -> `orNone (…)`.
                  truth value of a name: S -> `v != ""`, list -> `!v.isEmpty`; `X is None` (X of type SG) -> `X.isNone`;
                  `and` -> `&&`
  statements      `x = e`; `self.x = e`; `x = x[0]` (`IndexError` when empty); `if c:` without `else` (the variables assigned in
                  the body and read later are returned by the branch); the `for t in L[n]: v = getSymOp(t); acc.append(v)`
                  loop -> `foldlM`; `try: self.spacegroup = FindSpaceGroup(l) / except ValueError: pass`;
                  `emsg = <string constant>` (dropped: cannot raise); `raise StructureFormatError(<text>)`;
                  the final `self._expandAsymmetricUnit(block)` / `return` (recorded in `parseSymops_tail`)
Anything else makes the translator emit `def parseSymops_untranslatable : String`, so the tie theorem cannot be stated.

`_expandAsymmetricUnit` is recorded as normalised statement text (`expandAsymmetricUnit_body`), compared verbatim.
"""
import ast
import os

GROUP = "cifsym"
OUTFILE = "SrcCifSym.lean"

FIELDS = {"stru": "LA", "asymmetric_unit": "LA", "cif_sgname": "OS", "spacegroup": "SG"}
LIB = ("FindSpaceGroup", "GetSpaceGroup", "IsSpaceGroupIdentifier", "SpaceGroup")


def U(msg):
    return pysrc.Untranslatable(msg)


def lstr(s):
    return pysrc.lean_str(s)


def strip_doc(body):
    if body and isinstance(body[0], ast.Expr) and isinstance(body[0].value, ast.Constant) and isinstance(body[0].value.value, str):
        return body[1:]
    return list(body)


def norm(st):
    return " ".join(ast.unparse(st).split())


class Tr:
    def __init__(self):
        self.env = {}      # local name -> type
        self.loops = {}    # name -> lean expr of the loop item name
        self.lines = []
        self.ind = 1

    def emit(self, s):
        self.lines.append("  " * self.ind + s)

    # ---- expressions: returns (lean, type)
    def expr(self, e):
        if isinstance(e, ast.Constant):
            if isinstance(e.value, str):
                return lstr(e.value), "S"
            if e.value is None:
                return "none", "N"
            raise U("constant %r" % (e.value,))
        if isinstance(e, ast.Name):
            if e.id in self.env:
                return "v_" + e.id, self.env[e.id]
            raise U("unknown name %s" % e.id)
        if isinstance(e, ast.Attribute) and isinstance(e.value, ast.Name) and e.value.id == "self":
            if e.attr in FIELDS:
                return "self." + e.attr, FIELDS[e.attr]
            raise U("self.%s" % e.attr)
        if isinstance(e, (ast.Tuple, ast.List)):
            if not e.elts:
                return "[]", "L?"
            parts = [self.expr(x) for x in e.elts]
            if all(t == "S" for _, t in parts):
                return "[" + ", ".join(p for p, _ in parts) + "]", "LS"
            raise U("sequence %s" % norm(e))
        if isinstance(e, ast.ListComp):
            # [n for n in X if n in block]
            if (len(e.generators) == 1 and isinstance(e.elt, ast.Name) and isinstance(e.generators[0].target, ast.Name)
                    and e.elt.id == e.generators[0].target.id and len(e.generators[0].ifs) == 1 and not e.generators[0].is_async):
                g = e.generators[0]
                c = g.ifs[0]
                src, t = self.expr(g.iter)
                if (t == "LS" and isinstance(c, ast.Compare) and len(c.ops) == 1 and isinstance(c.ops[0], ast.In)
                        and isinstance(c.left, ast.Name) and c.left.id == g.target.id
                        and isinstance(c.comparators[0], ast.Name) and c.comparators[0].id == "block"):
                    return "(%s).filter (fun n => block.has n)" % src, "LS"
            raise U("comprehension %s" % norm(e))
        if isinstance(e, ast.BoolOp) and isinstance(e.op, ast.Or):
            parts = [self.expr(x) for x in e.values]
            tail_none = parts[-1][1] == "N"
            if tail_none:
                parts = parts[:-1]
            ts = [t for _, t in parts]
            if all(t == "S" for t in ts):
                acc = parts[0][0]
                for p, _ in parts[1:]:
                    acc = "pyOr (%s) (%s)" % (acc, p)
                out, ty = acc, "S"
            elif ts[-1] == "S" and all(t in ("OS", "S") for t in ts[:-1]):
                acc = parts[-1][0]
                for p, t in reversed(parts[:-1]):
                    acc = ("optOr (%s) (%s)" if t == "OS" else "pyOr (%s) (%s)") % (p, acc)
                out, ty = acc, "S"
            else:
                raise U("or-chain %s" % norm(e))
            if tail_none:
                return "orNone (%s)" % out, "OS"
            return out, ty
        if isinstance(e, ast.BinOp) and isinstance(e.op, ast.Add):
            a, ta = self.expr(e.left)
            b, tb = self.expr(e.right)
            if ta == tb == "S":
                return "%s ++ (%s)" % (a, b), "S"
            raise U("+ %s" % norm(e))
        if isinstance(e, ast.Call):
            f = e.func
            if isinstance(f, ast.Name) and f.id == "list" and len(e.args) == 1 and not e.keywords:
                a, t = self.expr(e.args[0])
                if t == "LA":
                    return a, "LA"
            if isinstance(f, ast.Attribute) and isinstance(f.value, ast.Name) and f.value.id == "block" and f.attr == "get" and not e.keywords:
                if len(e.args) == 2 and isinstance(e.args[1], ast.Constant) and e.args[1].value == "":
                    k, t = self.expr(e.args[0])
                    if t == "S":
                        return "block.getD %s" % k, "S"
                if len(e.args) == 1:
                    k, t = self.expr(e.args[0])
                    if t == "S":
                        return "block.get? %s" % k, "OS"
            if isinstance(f, ast.Attribute) and f.attr == "upper" and not e.args and not e.keywords:
                a, t = self.expr(f.value)
                if t == "S":
                    return "env.upper (%s)" % a, "S"
            if isinstance(f, ast.Name) and f.id == "IsSpaceGroupIdentifier" and len(e.args) == 1 and not e.keywords:
                a, t = self.expr(e.args[0])
                if t == "S":
                    return "env.isId %s" % a, "B"
            if isinstance(f, ast.Name) and f.id == "SpaceGroup" and not e.args:
                kw = {k.arg: self.expr(k.value) for k in e.keywords}
                if sorted(kw) == ["crystal_system", "short_name", "symop_list"] and kw["short_name"][1] == "S" and kw["crystal_system"][1] == "S" and kw["symop_list"][1] == "LO":
                    return "SGRes.custom (%s) (%s) (%s)" % (kw["short_name"][0], kw["crystal_system"][0], kw["symop_list"][0]), "SGV"
            raise U("call %s" % norm(e))
        raise U("expression %s" % norm(e))

    def cond(self, e):
        if isinstance(e, ast.BoolOp) and isinstance(e.op, ast.And):
            return " && ".join(self.cond(x) for x in e.values)
        if isinstance(e, ast.Compare) and len(e.ops) == 1 and isinstance(e.ops[0], ast.Is) and isinstance(e.comparators[0], ast.Constant) and e.comparators[0].value is None:
            a, t = self.expr(e.left)
            if t in ("SG", "OS"):
                return "%s.isNone" % a
            raise U("is None on %s" % t)
        a, t = self.expr(e)
        if t == "B":
            return a
        if t == "S":
            return "%s != \"\"" % a
        if t in ("LS", "LO"):
            return "!%s.isEmpty" % a
        raise U("truth value of %s : %s" % (norm(e), t))

    # ---- statements
    def assigned(self, stmts):
        """(local names, self touched) assigned in a statement list"""
        names, selfs = [], False
        for s in stmts:
            for n in ast.walk(s):
                if isinstance(n, ast.Assign):
                    for t in n.targets:
                        if isinstance(t, ast.Name) and t.id not in names:
                            names.append(t.id)
                        if isinstance(t, ast.Attribute) and isinstance(t.value, ast.Name) and t.value.id == "self":
                            selfs = True
                if isinstance(n, ast.Call) and isinstance(n.func, ast.Attribute) and n.func.attr == "append" and isinstance(n.func.value, ast.Name):
                    if n.func.value.id not in names:
                        names.append(n.func.value.id)
        return names, selfs

    def reads(self, stmts):
        out = set()
        for s in stmts:
            for n in ast.walk(s):
                if isinstance(n, ast.Name) and isinstance(n.ctx, ast.Load):
                    out.add(n.id)
        return out

    def block(self, stmts, rest_reads):
        """emit the statements; `rest_reads` = names read after this block (for `if` results)"""
        i = 0
        while i < len(stmts):
            s = stmts[i]
            later = self.reads(stmts[i + 1:]) | rest_reads
            if isinstance(s, ast.ImportFrom):
                raise U("import inside the block")
            if isinstance(s, ast.Assign) and len(s.targets) == 1:
                t = s.targets[0]
                if isinstance(t, ast.Attribute) and isinstance(t.value, ast.Name) and t.value.id == "self":
                    if t.attr not in FIELDS:
                        raise U("assignment to self.%s" % t.attr)
                    v, ty = self.expr(s.value)
                    want = FIELDS[t.attr]
                    if want == "SG":
                        if ty == "N":
                            v = "none"
                        elif ty == "SGV":
                            v = "some (%s)" % v
                        elif isinstance(s.value, ast.Call) and isinstance(s.value.func, ast.Name) and s.value.func.id == "GetSpaceGroup":
                            raise U("GetSpaceGroup handled by the statement form")
                        else:
                            raise U("self.spacegroup = %s" % norm(s.value))
                    elif want == "OS":
                        if ty == "S":
                            v = "some (%s)" % v
                        elif ty not in ("OS", "N"):
                            raise U("self.%s = %s" % (t.attr, norm(s.value)))
                    elif want != ty:
                        raise U("self.%s = %s" % (t.attr, norm(s.value)))
                    self.emit("let self := { self with %s := %s }" % (t.attr, v))
                    i += 1
                    continue
                if isinstance(t, ast.Name):
                    # emsg = "<text>"  (cannot raise, only used by the raise that follows)
                    if isinstance(s.value, ast.Constant) and isinstance(s.value.value, str) and t.id == "emsg":
                        i += 1
                        continue
                    # x = x[0]
                    if (isinstance(s.value, ast.Subscript) and isinstance(s.value.value, ast.Name) and s.value.value.id == t.id
                            and isinstance(s.value.slice, ast.Constant) and s.value.slice.value == 0 and self.env.get(t.id) == "LS"):
                        self.emit("let v_%s ← (match v_%s[0]? with | some x => pure x | none => .error Exn.indexError)" % (t.id, t.id))
                        self.env[t.id] = "S"
                        i += 1
                        continue
                    # L = block.GetLoop(n)
                    if (isinstance(s.value, ast.Call) and isinstance(s.value.func, ast.Attribute) and s.value.func.attr == "GetLoop"
                            and isinstance(s.value.func.value, ast.Name) and s.value.func.value.id == "block" and len(s.value.args) == 1 and not s.value.keywords):
                        n, ty = self.expr(s.value.args[0])
                        if ty != "S":
                            raise U("GetLoop argument")
                        self.loops[t.id] = n
                        i += 1
                        continue
                    v, ty = self.expr(s.value)
                    if ty == "L?":
                        ty = "LO"   # checked by the append that fills it
                        self.emit("let v_%s : List Op := []" % t.id)
                    elif ty in ("S", "LS"):
                        self.emit("let v_%s : %s := %s" % (t.id, {"S": "String", "LS": "List String"}[ty], v))
                    else:
                        raise U("local of type %s: %s" % (ty, norm(s)))
                    self.env[t.id] = ty
                    i += 1
                    continue
                raise U("assignment %s" % norm(s))
            if isinstance(s, ast.For):
                self.for_loop(s)
                i += 1
                continue
            if isinstance(s, ast.Try):
                self.try_find(s)
                i += 1
                continue
            if isinstance(s, ast.If):
                if s.orelse:
                    raise U("if with else")
                # if <cond>: … raise  (last statement raises)
                if isinstance(s.body[-1], ast.Raise):
                    for b in s.body[:-1]:
                        if not (isinstance(b, ast.Assign) and isinstance(b.targets[0], ast.Name) and b.targets[0].id == "emsg"
                                and isinstance(b.value, ast.Constant) and isinstance(b.value.value, str)):
                            raise U("statement before raise: %s" % norm(b))
                    self.emit("if %s then .error %s else" % (self.cond(s.test), self.raise_kind(s.body[-1])))
                    i += 1
                    continue
                names, selfs = self.assigned(s.body)
                live = [n for n in names if n in later]
                c = self.cond(s.test)
                saved_env = dict(self.env)
                if selfs and not live:
                    self.emit("let self ← (if %s then do" % c)
                    self.ind += 2
                    self.block(s.body, later)
                    self.emit("pure self")
                    self.ind -= 1
                    self.emit("else pure self)")
                    self.ind -= 1
                    self.env = saved_env
                elif live and not selfs and len(live) == 1 and live[0] in self.env:
                    n = live[0]
                    self.emit("let v_%s ← (if %s then do" % (n, c))
                    self.ind += 2
                    self.block(s.body, later)
                    self.emit("pure v_%s" % n)
                    self.ind -= 1
                    self.emit("else pure v_%s)" % n)
                    self.ind -= 1
                    ty = self.env[n]
                    self.env = saved_env
                    if self.env[n] != ty:
                        raise U("type of %s changes in a branch" % n)
                else:
                    raise U("if assigning %r (self: %s), live %r" % (names, selfs, live))
                i += 1
                continue
            if isinstance(s, ast.Expr) and isinstance(s.value, ast.Call) and norm(s) == "self._expandAsymmetricUnit(block)":
                self.tail = [norm(s)]   # the caller checks that only `return` follows
                return
            raise U("statement %s" % norm(s))
        self.tail = []

    def raise_kind(self, s):
        if isinstance(s.exc, ast.Call) and isinstance(s.exc.func, ast.Name) and s.exc.func.id == "StructureFormatError" and s.cause is None:
            for n in ast.walk(s.exc):
                if isinstance(n, ast.Call) and n is not s.exc and not (isinstance(n.func, ast.Attribute) and n.func.attr == "format"):
                    raise U("call inside the raise: %s" % norm(s))
            return "Exn.structureFormatError"
        raise U("raise %s" % norm(s))

    def for_loop(self, s):
        # for t in L[n]: v = getSymOp(t); acc.append(v)
        if s.orelse or not isinstance(s.target, ast.Name):
            raise U("for shape")
        it = s.iter
        if not (isinstance(it, ast.Subscript) and isinstance(it.value, ast.Name) and it.value.id in self.loops):
            raise U("for iterates over %s" % norm(it))
        k, ty = self.expr(it.slice)
        if ty != "S" or k != self.loops[it.value.id]:
            raise U("loop column %s of loop %s" % (k, self.loops[it.value.id]))
        if len(s.body) != 2:
            raise U("for body")
        a, b = s.body
        ok = (isinstance(a, ast.Assign) and isinstance(a.targets[0], ast.Name) and isinstance(a.value, ast.Call)
              and isinstance(a.value.func, ast.Name) and a.value.func.id == "getSymOp" and len(a.value.args) == 1 and not a.value.keywords
              and isinstance(a.value.args[0], ast.Name) and a.value.args[0].id == s.target.id
              and isinstance(b, ast.Expr) and isinstance(b.value, ast.Call) and isinstance(b.value.func, ast.Attribute)
              and b.value.func.attr == "append" and isinstance(b.value.func.value, ast.Name) and len(b.value.args) == 1
              and isinstance(b.value.args[0], ast.Name) and b.value.args[0].id == a.targets[0].id)
        if not ok:
            raise U("for body %s" % norm(s))
        acc = b.value.func.value.id
        if self.env.get(acc) != "LO":
            raise U("append to %s" % acc)
        self.emit("let v_%s ← (block.col %s).foldlM (fun acc %s => do let %s ← env.getSymOp %s; pure (acc ++ [%s])) v_%s" % (
            acc, k, s.target.id, a.targets[0].id, s.target.id, a.targets[0].id, acc))

    def try_find(self, s):
        ok = (len(s.body) == 1 and len(s.handlers) == 1 and not s.orelse and not s.finalbody
              and isinstance(s.handlers[0].type, ast.Name) and s.handlers[0].type.id == "ValueError" and s.handlers[0].name is None
              and len(s.handlers[0].body) == 1 and isinstance(s.handlers[0].body[0], ast.Pass))
        b = s.body[0] if ok else None
        ok = ok and (isinstance(b, ast.Assign) and norm(b.targets[0]) == "self.spacegroup" and isinstance(b.value, ast.Call)
                     and isinstance(b.value.func, ast.Name) and b.value.func.id == "FindSpaceGroup" and len(b.value.args) == 1 and not b.value.keywords)
        if not ok:
            raise U("try statement %s" % norm(s))
        a, ty = self.expr(b.value.args[0])
        if ty != "LO":
            raise U("FindSpaceGroup argument")
        self.emit("let self ← (match env.find %s with" % a)
        self.emit("  | some g => pure { self with spacegroup := some (SGRes.tab g) }")
        self.emit("  | none => pure self)")


def get_sg_stmt(tr, s, later):
    """`if <cond>: self.spacegroup = GetSpaceGroup(x)`"""
    if (isinstance(s, ast.If) and not s.orelse and len(s.body) == 1 and isinstance(s.body[0], ast.Assign)
            and norm(s.body[0].targets[0]) == "self.spacegroup" and isinstance(s.body[0].value, ast.Call)
            and isinstance(s.body[0].value.func, ast.Name) and s.body[0].value.func.id == "GetSpaceGroup"
            and len(s.body[0].value.args) == 1 and not s.body[0].value.keywords):
        a, ty = tr.expr(s.body[0].value.args[0])
        if ty != "S":
            raise U("GetSpaceGroup argument")
        tr.emit("let self ← (if %s then do" % tr.cond(s.test))
        tr.emit("    let g ← env.getSG %s" % a)
        tr.emit("    pure { self with spacegroup := some (SGRes.tab g) }")
        tr.emit("  else pure self)")
        return True
    return False


def translate_method(cls, tree):
    fn = pysrc.find_func(cls.body, "_parse_space_group_symop_operation_xyz")
    if fn is None:
        raise U("method not found")
    if [a.arg for a in fn.args.args] != ["self", "block"] or fn.args.vararg or fn.args.kwarg or fn.args.kwonlyargs or fn.decorator_list:
        raise U("signature")
    body = strip_doc(fn.body)
    if not (body and isinstance(body[0], ast.ImportFrom) and body[0].module == "diffpy.structure.spacegroups" and body[0].level == 0
            and sorted(a.name for a in body[0].names) == sorted(LIB) and all(a.asname is None for a in body[0].names)):
        raise U("import statement of the library functions")
    # getSymOp must be the module-level function, none of the names rebound in the method
    mod_defs = [n.name for n in tree.body if isinstance(n, ast.FunctionDef)]
    if mod_defs.count("getSymOp") != 1:
        raise U("getSymOp is not a unique module-level function")
    for n in ast.walk(fn):
        if isinstance(n, ast.Name) and isinstance(n.ctx, ast.Store) and n.id in LIB + ("getSymOp", "block", "self", "list", "StructureFormatError"):
            raise U("%s rebound" % n.id)
    tr = Tr()
    stmts = body[1:]
    # the GetSpaceGroup statement form is handled here so that `Tr.block` stays generic
    i = 0
    out_stmts = []
    tr.tail = []
    while i < len(stmts):
        s = stmts[i]
        later = tr.reads(stmts[i + 1:])
        if get_sg_stmt(tr, s, later):
            i += 1
            continue
        tr.block([s], later)
        if tr.tail:
            tr.tail = [norm(x) for x in stmts[i:]]
            if tr.tail != ["self._expandAsymmetricUnit(block)", "return"]:
                raise U("statements after the expansion call")
            break
        i += 1
    if not tr.tail:
        raise U("the method does not end with the expansion call")
    tr.emit("pure self")
    return tr.lines, tr.tail


def translate(report):
    path = os.path.join(pysrc.REPO, "src", "diffpy", "structure", "parsers", "p_cif.py")
    try:
        text = open(path, encoding="utf-8").read()
        tree = ast.parse(text)
    except (OSError, SyntaxError) as e:
        raise U("cannot read p_cif.py: %s" % e)
    cls = pysrc.find_class(tree, "P_cif")
    if cls is None:
        raise U("class P_cif not found")
    rep = {"methods": {}, "untranslatable": {}}
    out = ["-- GENERATED by translate/src_cifsym.py from %s — do not edit\n" % os.path.relpath(path, pysrc.REPO),
           "import DS.Model.CifSym\nnamespace DS.Src.CifSym\nopen DS.CifSym\n\n"]
    try:
        lines, tail = translate_method(cls, tree)
        out.append("/-- `P_cif._parse_space_group_symop_operation_xyz`, statement by statement -/\n"
                   "def parseSymops {G Op A : Type} (env : Env G Op) (block : Block) (self : PState G Op A) : Except Exn (PState G Op A) := do\n")
        out.append("\n".join(lines) + "\n\n")
        out.append("/-- what follows in the method -/\ndef parseSymops_tail : List String := [%s]\n\n" % ", ".join(lstr(t) for t in tail))
        rep["methods"]["parseSymops"] = "ok"
    except pysrc.Untranslatable as e:
        out.append("def parseSymops_untranslatable : String := %s\n\n" % lstr(str(e)))
        rep["untranslatable"]["parseSymops"] = str(e)
    # _expandAsymmetricUnit and _parseCifBlock as normalised text
    for name, lean in (("_expandAsymmetricUnit", "expandAsymmetricUnit_body"), ("_parseCifBlock", "parseCifBlock_body")):
        fn = pysrc.find_func(cls.body, name)
        if fn is None:
            out.append("def %s_untranslatable : String := \"method not found\"\n\n" % lean)
            rep["untranslatable"][lean] = "method not found"
        else:
            out.append("/-- normalised statements of `P_cif.%s` -/\ndef %s : List String := [\n  %s]\n\n" % (
                name, lean, ",\n  ".join(lstr(norm(s)) for s in strip_doc(fn.body))))
            rep["methods"][lean] = "text"
    # __init__ defaults of the attributes the method uses
    fn = pysrc.find_func(cls.body, "__init__")
    inits = []
    if fn is not None:
        for s in strip_doc(fn.body):
            if isinstance(s, ast.Assign) and isinstance(s.targets[0], ast.Attribute) and norm(s.targets[0]) in ("self.spacegroup", "self.cif_sgname", "self.asymmetric_unit", "self.stru", "self.eau"):
                inits.append(norm(s))
    out.append("/-- how `P_cif.__init__` initialises the attributes -/\ndef init_attrs : List String := [%s]\n\n" % ", ".join(lstr(t) for t in inits))
    out.append("end DS.Src.CifSym\n")
    report[GROUP] = rep
    return "".join(out)
