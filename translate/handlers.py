"""Translator for C13: read every try/except of the parsers' parse paths with `ast` and emit
lean/DS/Gen/Handlers.lean (regenerated on every run).

Per format it emits the configuration record of the Lean model (`DS.Parsers.<Fmt>Cfg`): the tuple of
exception kinds the outer handler converts to StructureFormatError, the tuples of the inner handlers,
and the syntactic facts the model depends on (initial value of `reduce`, the `xcfg_A is None` check,
the `last_atom is None` guard and the `last_atom = None` initialisation in p_pdb).

Usage: python translate/handlers.py [outdir]      (repository from VERIF_REPO, default /repo)
"""
import ast
import json
import os
import sys

VERIF = os.path.dirname(os.path.dirname(os.path.abspath(__file__)))
REPO = os.environ.get("VERIF_REPO", "/repo")

KINDS = ["SFE", "NotImpl", "ValueError", "IndexError", "TypeError", "KeyError", "StopIteration", "ZeroDivisionError",
         "LatticeError", "UnboundLocalError", "AttributeError", "OverflowError", "AssertionError", "YappsSyntaxError",
         "StarError", "Resource", "Other"]
ALIASES = {"StructureFormatError": ["SFE"], "NotImplementedError": ["NotImpl"], "MemoryError": ["Resource"],
           "NameError": ["UnboundLocalError"]}
# base classes: the kinds of the enum they cover
BASES = {
    "ArithmeticError": ["ZeroDivisionError", "OverflowError"],
    "LookupError": ["IndexError", "KeyError"],
    "Exception": [k for k in KINDS if k != "Resource"] + ["Resource"],
    "BaseException": list(KINDS),
}


def kinds_of(name):
    if name in BASES:
        return BASES[name]
    if name in ALIASES:
        return ALIASES[name]
    if name in KINDS:
        return [name]
    return ["Other"]


def handler_names(h):
    """Exception class names of one `except` clause (None type = bare except)."""
    if h.type is None:
        return ["BaseException"]
    t = h.type
    elts = t.elts if isinstance(t, ast.Tuple) else [t]
    out = []
    for e in elts:
        if isinstance(e, ast.Name):
            out.append(e.id)
        elif isinstance(e, ast.Attribute):
            out.append(e.attr)
        else:
            out.append("?")
    return out


def converts_to_sfe(h):
    """The handler body ends by raising something built from StructureFormatError."""
    has_raise = any(isinstance(n, ast.Raise) for n in ast.walk(ast.Module(body=h.body, type_ignores=[])))
    names = {n.id for st in h.body for n in ast.walk(st) if isinstance(n, ast.Name)}
    return has_raise and "StructureFormatError" in names


def swallows(h):
    return not any(isinstance(n, ast.Raise) for st in h.body for n in ast.walk(st))


def try_info(t):
    """(converted kinds, swallowed kinds, raw names) of a Try node."""
    conv, swal, raw = [], [], []
    for h in t.handlers:
        nm = handler_names(h)
        raw.append(nm)
        ks = [k for n in nm for k in kinds_of(n)]
        if converts_to_sfe(h):
            conv += ks
        elif swallows(h):
            swal += ks
    def uniq(l):
        o = []
        for x in l:
            if x not in o:
                o.append(x)
        return o
    return uniq(conv), uniq(swal), raw


def find_func(tree, cls, fn):
    for n in tree.body:
        if isinstance(n, ast.ClassDef) and n.name == cls:
            for m in n.body:
                if isinstance(m, ast.FunctionDef) and m.name == fn:
                    return m
    return None


def top_tries(fn):
    return [s for s in fn.body if isinstance(s, ast.Try)]


def nested_tries(t):
    return [n for st in t.body for n in ast.walk(st) if isinstance(n, ast.Try)]


def lean_list(ks):
    return "[" + ", ".join("." + k for k in ks) + "]"


def lean_bool(b):
    return "true" if b else "false"


def reduce_has_init(fn):
    for n in ast.walk(fn):
        if isinstance(n, ast.Call) and isinstance(n.func, ast.Name) and n.func.id == "reduce":
            return len(n.args) >= 3
    return None


def is_none_test(test, var=None):
    """`<name> is None` somewhere in the test (any local name when `var` is None: robust to renames)."""
    for n in ast.walk(test):
        if (isinstance(n, ast.Compare) and isinstance(n.left, ast.Name) and (var is None or n.left.id == var)
                and len(n.ops) == 1 and isinstance(n.ops[0], ast.Is) and isinstance(n.comparators[0], ast.Constant)
                and n.comparators[0].value is None):
            return n.left.id
    return None


def str_consts(nodes):
    return [c.value for st in nodes for c in ast.walk(st) if isinstance(c, ast.Constant) and isinstance(c.value, str)]


def raises_sfe(body):
    for st in body:
        for n in ast.walk(st):
            if isinstance(n, ast.Raise):
                names = {m.id for m in ast.walk(n) if isinstance(m, ast.Name)}
                if "StructureFormatError" in names:
                    return True
    return False


def main(outdir=None, report_path=None):
    outdir = outdir or os.path.join(VERIF, "lean", "DS", "Gen")
    pdir = os.path.join(REPO, "src", "diffpy", "structure", "parsers")
    problems = []
    tries = []          # (file, function, lineno, converted, swallowed, raw)
    rep = {"repo": REPO, "problems": problems, "tries": tries, "cfg": {}}

    def load(fn):
        with open(os.path.join(pdir, fn), encoding="utf-8") as f:
            return ast.parse(f.read(), filename=fn)

    def record(fname, func, t):
        c, s, raw = try_info(t)
        tries.append({"file": fname, "function": func.name, "line": t.lineno, "converted": c, "swallowed": s, "raw": raw})
        return c, s

    def outer(fname, cls, fn, count):
        tree = load(fname)
        f = find_func(tree, cls, fn)
        if f is None:
            problems.append("%s: %s.%s not found" % (fname, cls, fn))
            return None, []
        tt = top_tries(f)
        if len(tt) != count:
            problems.append("%s: %s.%s has %d top-level try blocks, the model expects %d" % (fname, cls, fn, len(tt), count))
        return f, tt

    cfg = rep["cfg"]
    # ---- pdffit
    f, tt = outer("p_pdffit.py", "P_pdffit", "parseLines", 1)
    H = record("p_pdffit.py", f, tt[0])[0] if tt else []
    ri = reduce_has_init(f) if f else None
    if ri is None:
        problems.append("p_pdffit.py: call of reduce not found")
    cfg["pdffit"] = {"H": H, "reduceInit": bool(ri)}
    # ---- discus
    f, tt = outer("p_discus.py", "P_discus", "parseLines", 1)
    H = record("p_discus.py", f, tt[0])[0] if tt else []
    ri = reduce_has_init(f) if f else None
    if ri is None:
        problems.append("p_discus.py: call of reduce not found")
    fc, tc = outer("p_discus.py", "P_discus", "_parse_cell", 1)
    Hcell = record("p_discus.py", fc, tc[0])[0] if tc else []
    cfg["discus"] = {"H": H, "Hcell": Hcell, "reduceInit": bool(ri)}
    # ---- xyz
    f, tt = outer("p_xyz.py", "P_xyz", "parseLines", 2)
    hs = [record("p_xyz.py", f, t)[0] for t in tt]
    title_opt = False
    if tt:
        for n in ast.walk(tt[0]):
            if (isinstance(n, ast.Assign) and any(isinstance(t, ast.Attribute) and t.attr == "title" for t in n.targets)
                    and isinstance(n.value, ast.IfExp)):
                title_opt = True
    cfg["xyz"] = {"H1": hs[0] if len(hs) > 0 else [], "H2": hs[1] if len(hs) > 1 else [], "titleOptional": title_opt}
    # ---- rawxyz
    f, tt = outer("p_rawxyz.py", "P_rawxyz", "parseLines", 1)
    cfg["rawxyz"] = {"H": record("p_rawxyz.py", f, tt[0])[0] if tt else []}
    # ---- xcfg
    f, tt = outer("p_xcfg.py", "P_xcfg", "parseLines", 1)
    H = record("p_xcfg.py", f, tt[0])[0] if tt else []
    checkA = False
    if tt:
        for n in ast.walk(tt[0]):
            # recognised by its message, not by the name of the local
            if isinstance(n, ast.If) and is_none_test(n.test) and raises_sfe(n.body) \
                    and any("A =" in c for c in str_consts(n.body)):
                checkA = True
    # does the `ecnt != xcfg_entry_count` check precede the `for i in range(p_auxnum)` fill loop?
    ecnt_line = fill_line = None
    if tt:
        for n in ast.walk(tt[0]):
            # both recognised by their string constants (robust to renamed locals)
            if isinstance(n, ast.If) and raises_sfe(n.body) and any("entry_count" in c for c in str_consts(n.body)):
                ecnt_line = n.lineno
            if isinstance(n, ast.For) and any(c == "aux%d" for c in str_consts(n.body)):
                fill_line = n.lineno
    if ecnt_line is None or fill_line is None:
        problems.append("p_xcfg.py: entry_count check or auxiliary fill loop not found")
    cfg["xcfg"] = {"H": H, "checkA": checkA, "ecntFirst": bool(ecnt_line and fill_line and ecnt_line < fill_line)}
    # ---- pdb
    f, tt = outer("p_pdb.py", "P_pdb", "parseLines", 1)
    H = record("p_pdb.py", f, tt[0])[0] if tt else []
    Hopt = None
    guard = False
    init = False
    if tt:
        inner = nested_tries(tt[0])
        if len(inner) != 4:
            problems.append("p_pdb.py: %d inner try blocks around optional columns, the model expects 4" % len(inner))
        for t in inner:
            c, s = record("p_pdb.py", f, t)
            Hopt = s if Hopt is None else [k for k in Hopt if k in s]
        # the local that holds the last atom: the one assigned from `….getLastAtom()`
        last_name = None
        for n in ast.walk(tt[0]):
            if (isinstance(n, ast.Assign) and isinstance(n.value, ast.Call) and isinstance(n.value.func, ast.Attribute)
                    and n.value.func.attr == "getLastAtom" and isinstance(n.targets[0], ast.Name)):
                last_name = n.targets[0].id
        if last_name is None:
            problems.append("p_pdb.py: assignment from getLastAtom() not found")
        for n in ast.walk(tt[0]):
            if isinstance(n, ast.If) and last_name and is_none_test(n.test, last_name) and raises_sfe(n.body):
                consts = {c.value for c in ast.walk(n.test) if isinstance(c, ast.Constant)}
                if {"SIGATM", "ANISOU", "SIGUIJ"} <= consts:
                    guard = True
        # `<last atom> = None` before the `for` loop
        for st in tt[0].body:
            if isinstance(st, ast.For):
                break
            if (isinstance(st, ast.Assign) and any(isinstance(t, ast.Name) and t.id == last_name for t in st.targets)
                    and isinstance(st.value, ast.Constant) and st.value.value is None):
                init = True
    cfg["pdb"] = {"H": H, "Hopt": Hopt or [], "guard": guard, "lastAtomInit": init}
    # ---- cif
    f, tt = outer("p_cif.py", "P_cif", "_parseCifDataSource", 1)
    H = record("p_cif.py", f, tt[0])[0] if tt else []
    fl, tl = outer("p_cif.py", "P_cif", "_parse_lattice", 1)
    Hlat = record("p_cif.py", fl, tl[0])[0] if tl else []
    cfg["cif"] = {"H": H, "Hlat": Hlat}
    # for the record only: the try around FindSpaceGroup swallows ValueError (no effect on the outcome kind)
    fs, ts = outer("p_cif.py", "P_cif", "_parse_space_group_symop_operation_xyz", 0)
    if fs is not None:
        for t in [n for n in ast.walk(fs) if isinstance(n, ast.Try)]:
            record("p_cif.py", fs, t)

    def fields(d):
        out = []
        for k, v in d.items():
            out.append("%s := %s" % (k, lean_bool(v) if isinstance(v, bool) else lean_list(v)))
        return "{ " + ", ".join(out) + " }"

    lines = [
        "import DS.Model.Parsers",
        "/-! GENERATED by translate/handlers.py from the try/except clauses of %s — do not edit. -/" % pdir,
        "namespace DS.Gen",
        "open DS.Parsers",
        "",
    ]
    tnames = {"pdffit": "PdffitCfg", "discus": "DiscusCfg", "xyz": "XyzCfg", "rawxyz": "RawxyzCfg", "xcfg": "XcfgCfg",
              "pdb": "PdbCfg", "cif": "CifCfg"}
    for fmt in ["pdffit", "discus", "xyz", "rawxyz", "xcfg", "pdb", "cif"]:
        lines.append("def cfg_%s : %s := %s" % (fmt, tnames[fmt], fields(cfg[fmt])))
    lines.append("def parsersCfg : AllCfg :=")
    lines.append("  { pdffit := cfg_pdffit, discus := cfg_discus, xyz := cfg_xyz, rawxyz := cfg_rawxyz, xcfg := cfg_xcfg,")
    lines.append("    pdb := cfg_pdb, cif := cfg_cif }")
    lines.append("")
    lines.append("/-- every try/except on the parse paths: file, function, line, kinds converted to")
    lines.append("StructureFormatError, kinds swallowed -/")
    lines.append("def allTries : List (String × String × Nat × List Kind × List Kind) := [")
    lines.append(",\n".join('  ("%s", "%s", %d, %s, %s)' % (t["file"], t["function"], t["line"], lean_list(t["converted"]),
                                                           lean_list(t["swallowed"])) for t in tries))
    lines.append("]")
    lines.append("")
    lines.append("end DS.Gen")
    text = "\n".join(lines) + "\n"
    os.makedirs(outdir, exist_ok=True)
    path = os.path.join(outdir, "Handlers.lean")
    old = None
    try:
        with open(path, encoding="utf-8") as fh:
            old = fh.read()
    except OSError:
        pass
    if old != text:       # keep the mtime when nothing changed (lake then has nothing to rebuild)
        with open(path, "w", encoding="utf-8") as fh:
            fh.write(text)
    rep["changed"] = old != text
    if report_path:
        with open(report_path, "w") as fh:
            json.dump(rep, fh, indent=1)
    return rep


if __name__ == "__main__":
    r = main(sys.argv[1] if len(sys.argv) > 1 else None)
    for p in r["problems"]:
        print("handlers.py: PROBLEM:", p)
    print("handlers.py: %d try blocks read, cfg written to Handlers.lean%s" % (len(r["tries"]), "" if r["changed"] else " (unchanged)"))
