"""Source translator plug-in: control flow of loading, saving, automatic format detection and the `transtru` command
->  lean/DS/Gen/SrcLoad.lean  (namespace DS.Src.Load).

Read with `ast` from the tree under examination (`pysrc.REPO`, read at call time):

  structure.py            Structure.read / readStr / write / writeStr
  pdffitstructure.py      PDFFitStructure.read / readStr
  __init__.py             loadStructure
  parsers/__init__.py     inputFormats / outputFormats (transliterated), getParser (guard + body as text)
  parsers/p_auto.py       P_auto._getOrderedFormats, _wrapParseMethod, parse / parseLines / parseFile
  parsers/structureparser.py   StructureParser.parse (line splitting), tostring (joining) transliterated; parseFile as text
  apps/transtru.py        main (the whole decision tree), usage / version as text

The methods are *symbolically executed* statement by statement in source order; what is emitted is a Lean term over the
state types of the hand-written models (`DS.Load.Obj`, `ReadOut`, `Option String` for a file, `DS.Cli.Outcome`), so the
order of the steps, the state an exception leaves behind, the branch structure and the constants are those of the source.
The theorems of DS/Props/SrcLoad.lean state that the models (`Load.structureRead`, `Load.read`, `Load.write`, `Load.orderFor`,
`Load.auto`, `Cli.main` ...) ARE these terms.

How Python is rendered (the translator's conventions = trusted base):

  a call that may raise     `match <oracle> with | <raises e> => <what the caller sees, with the state reached so far> | ...`
                            oracles are the parameters of the model: `gp` = what `getParser(format)` raises (if anything),
                            `parse` = outcome of `p.parseFile(filename)` / `p.parse(s)` (structure, `None`, exception),
                            `ser` = outcome of `p.tostring(self)`, `openErr` / `encodeErr` = failure of `open` / `fp.write`,
                            `lib.readFile / readStdin / write` for transtru
  self (a Structure)        a `Load.Obj`; `Structure.__init__(self)` = `init0 fresh`, `self.__dict__.update(n.__dict__)` =
                            `{o with dict := update o.dict n.dict}`, `self[:] = n` = atoms replaced by copies pointing at
                            `self.lattice`, `self.extend(n)` = the same appended, `self.title = v` = `setKey … "title"`,
                            `self.pdffit["spcgr"] = v` = item assignment on the instance's dict (TypeError when it is not a dict)
  `if x is not None`        decided statically in each arm of the `parse` oracle
  `if not self.title`       `if truthy (getattr o "title") then <else-branch> else <body>`
  `with open(f, "w") …`     the file is truncated as soon as it is opened: state `some ""`
  for + try/except + break  `forLoop body` (prelude below) over `WrapSt` = (stru, self.format, parsers_emsgs); the `except` clauses
                            are selected by `c.handler k` (class resolution = translate/registry.py's table): the clause whose body
                            appends a complaint is the `.collect` arm, the clause that passes the `.skip` arm, no clause = escapes
  for without break         `List.foldlM` in `Except` (a failed `parser_index[fmt]` lookup is a KeyError)
  transtru.main             process state = (standard output, lines on standard error, message kind); `sys.exit(n)` ends with
                            status n, an exception no handler names ends with a traceback, exceptions inside the last `try` are
                            dispatched by `Cli.onException Gen.cliConfig` (class resolution = translate/cli.py's table)
  constants                 format lists `inputFormats()` / `outputFormats()` inside transtru are `Gen.cliConfig.inFormats/outFormats`
                            (run-time registry); the constants of p_auto (`"auto"`, `("*.*", "*")`, `"|"`, the message parts) are
                            taken from the `OrderCfg` / `AutoCfg` argument AND emitted as data (`*_src`), tied to Gen.Reg in Props

Anything outside the subset -> `def <name>_untranslatable : String`; definitions that depend on it are dropped the same way.
"""
import ast
import os

GROUP = "load"
OUTFILE = "SrcLoad.lean"

# `pysrc` is injected by translate/pysrc.py (plugins()); REPO is read at call time.


def U(msg):
    return pysrc.Untranslatable(msg)  # noqa: F821


def un(node):
    return ast.unparse(node)


def lstr(s):
    return pysrc.lean_str(s)  # noqa: F821


def llist(xs):
    return "[" + ", ".join(lstr(x) for x in xs) + "]"


def ind(lines, n=2):
    return [" " * n + x for x in lines]


def arm(pat, lines):
    """one alternative of a `match`; a multi-line body is parenthesised so that nested matches cannot capture later arms"""
    if len(lines) == 1:
        return ["| %s => %s" % (pat, lines[0])]
    return ["| %s => (" % pat] + ind(lines, 4) + ["    )"]


def ite(cond, a, b):
    if len(a) == 1 and len(b) == 1:
        return ["if %s then %s else %s" % (cond, a[0], b[0])]
    return ["if %s then (" % cond] + ind(a, 4) + ["  ) else ("] + ind(b, 4) + ["  )"]


def is_doc(s):
    return isinstance(s, ast.Expr) and isinstance(s.value, ast.Constant) and isinstance(s.value.value, str)


def body_of(fn):
    return [s for s in fn.body if not is_doc(s)]


def is_none(e):
    return isinstance(e, ast.Constant) and e.value is None


def is_str(e):
    return isinstance(e, ast.Constant) and isinstance(e.value, str)


def sig_of(fn):
    a = fn.args
    return ([x.arg for x in a.args], [un(d) for d in a.defaults], a.vararg.arg if a.vararg else None,
            a.kwarg.arg if a.kwarg else None, [x.arg for x in a.kwonlyargs], [x.arg for x in a.posonlyargs])


def want_sig(fn, names, defaults=(), vararg=None, kwarg=None):
    got = sig_of(fn)
    if got != (list(names), list(defaults), vararg, kwarg, [], []):
        raise U("signature of %s is %r" % (fn.name, got))
    if fn.decorator_list:
        raise U("%s is decorated" % fn.name)


def module_bindings(tree):
    """module-level `import a.b` / `from m import x [as y]` -> {local name: dotted origin}"""
    out = {}
    for n in tree.body:
        if isinstance(n, ast.Import):
            for al in n.names:
                out[al.asname or al.name.split(".")[0]] = al.name if al.asname else al.name.split(".")[0]
        elif isinstance(n, ast.ImportFrom) and n.level == 0:
            for al in n.names:
                out[al.asname or al.name] = "%s.%s" % (n.module, al.name)
        elif isinstance(n, (ast.FunctionDef, ast.ClassDef)):
            out[n.name] = "<local>.%s" % n.name
        elif isinstance(n, ast.Assign):
            for t in n.targets:
                if isinstance(t, ast.Name):
                    out[t.id] = "<assigned>"
    return out


def read_tree(rel):
    path = os.path.join(pysrc.REPO, "src", "diffpy", "structure", *rel.split("/"))  # noqa: F821
    try:
        text = open(path, encoding="utf-8").read()
        return ast.parse(text)
    except (OSError, SyntaxError) as e:
        raise U("%s: %s" % (rel, e))


GETPARSER = "diffpy.structure.parsers.getParser"


# =================================================================================================
# structure.py / pdffitstructure.py / __init__.py : read, readStr, write, writeStr, loadStructure


class LoadExec:
    """symbolic execution of one load/save method; `st` is the Lean name of the current state"""

    KINDS = {
        # kind: (family, python parameters, expected parse call (method, argument parameter), Lean binders, Lean result type)
        "structure_read": ("read", ["self", "filename", "format"], ("parseFile", "filename"),
                           "(fresh : Nat) (p_filename : String) (gp : Option (String × String)) (parse : Outcome Parsed) (o : Obj)", "ReadOut"),
        "structure_readStr": ("read", ["self", "s", "format"], ("parse", "s"),
                              "(fresh : Nat) (gp : Option (String × String)) (parse : Outcome Parsed) (o : Obj)", "ReadOut"),
        "pdffit_read": ("read", ["self", "filename", "format"], None,
                        "(fresh : Nat) (p_filename : String) (gp : Option (String × String)) (parse : Outcome Parsed) (sg : Option String) (o : Obj)", "ReadOut"),
        "pdffit_readStr": ("read", ["self", "s", "format"], None,
                           "(fresh : Nat) (gp : Option (String × String)) (parse : Outcome Parsed) (sg : Option String) (o : Obj)", "ReadOut"),
        "structure_write": ("write", ["self", "filename", "format"], None,
                            "(gp : Option (String × String)) (ser : Except (String × String) String) (openErr encodeErr : Option (String × String)) (file : Option String)",
                            "Option (String × String) × Option String"),
        "structure_writeStr": ("writeStr", ["self", "format"], None,
                               "(gp : Option (String × String)) (ser : Except (String × String) String)", "Except (String × String) String"),
        "loadStructure": ("load", ["filename", "fmt"], ("parseFile", "filename"),
                          "{R : Type} (gp : Option (String × String)) (parse : Outcome R)", "Outcome R"),
    }

    def __init__(self, kind, fn, modenv, available):
        self.kind = kind
        self.family, self.params, self.parsecall, self.binders, self.rettype = self.KINDS[kind]
        self.fn = fn
        self.modenv = modenv
        self.available = available      # already emitted definitions this one may call
        self.n = 0
        self.ignored = []               # statements without effect on the modelled state, as text
        self.opened = []                # how the file is opened, as text

    # ---- plumbing ------------------------------------------------------------------------------
    def new(self, base):
        self.n += 1
        return "%s%d" % (base, self.n)

    def bad(self, node, why):
        raise U("%s: %s: `%s`" % (self.fn.name, why, un(node)[:100]))

    def raise_(self, e, st):
        if self.family == "read":
            return "⟨some %s, %s⟩" % (e, st)
        if self.family == "write":
            return "(some %s, %s)" % (e, st)
        if self.family == "writeStr":
            return ".error %s" % e
        return ".err (%s).1 (%s).2" % (e, e)

    def ret(self, value, env, st):
        fam = self.family
        if fam == "read":
            if isinstance(value, ast.Name) and env.get(value.id) == ("parser",):
                return ["⟨none, %s⟩" % st]
            raise U("%s: does not return the parser object" % self.fn.name)
        if fam == "write":
            if value is None or is_none(value):
                return ["(none, %s)" % st]
            raise U("%s: returns a value" % self.fn.name)
        if fam == "writeStr":
            if isinstance(value, ast.Name) and env.get(value.id, (None,))[0] == "text":
                return [".ok %s" % env[value.id][1]]
            raise U("%s: does not return the produced text" % self.fn.name)
        if isinstance(value, ast.Name) and env.get(value.id, (None,))[0] == "new":
            return [".none" if env[value.id][1] is None else ".ok %s" % env[value.id][1]]
        raise U("%s: does not return the parser's result" % self.fn.name)

    def fall_off(self, env, st):
        if self.family == "write":
            return ["(none, %s)" % st]
        raise U("%s: falls off the end without `return`" % self.fn.name)

    def run(self):
        names = self.params
        if self.kind == "loadStructure":
            want_sig(self.fn, names, ["'auto'"], None, "kw")
        elif self.kind in ("structure_write", "structure_writeStr"):
            want_sig(self.fn, names)
        else:
            want_sig(self.fn, names, ["'auto'"])
        env = {"__mods__": frozenset(v for v in self.modenv.values())}
        for k, v in self.modenv.items():
            if v == GETPARSER:
                env[k] = ("getParser",)
        for p in names:
            if p == "self":
                env[p] = ("self",)
            elif p in ("format", "fmt"):
                env[p] = ("fmt",)
            elif p == "filename":
                env[p] = ("str", "p_filename")
            else:
                env[p] = ("srctext",)
        st0 = {"read": "o", "write": "file", "writeStr": "()", "load": "()"}[self.family]
        return self.block(body_of(self.fn), env, st0)

    # ---- statements ----------------------------------------------------------------------------
    def block(self, stmts, env, st):
        if not stmts:
            return self.fall_off(env, st)
        s, rest = stmts[0], stmts[1:]
        if is_doc(s):
            return self.block(rest, env, st)
        if isinstance(s, ast.Import):
            mods = set(env["__mods__"])
            for al in s.names:
                if al.asname or al.name not in ("diffpy.structure", "diffpy.structure.parsers", "os.path", "os", "codecs"):
                    self.bad(s, "import")
                mods.add(al.name)
                if al.name == "os.path":
                    mods.add("os")
            env = dict(env, __mods__=frozenset(mods))
            return self.block(rest, env, st)
        if isinstance(s, ast.ImportFrom):
            if s.level == 0 and s.module == "diffpy.structure.parsers" and len(s.names) == 1 and s.names[0].name == "getParser":
                env = dict(env)
                env[s.names[0].asname or "getParser"] = ("getParser",)
                return self.block(rest, env, st)
            self.bad(s, "import")
        if isinstance(s, ast.Return):
            return self.ret(s.value, env, st)
        if isinstance(s, ast.Assign) and len(s.targets) == 1:
            return self.assign(s, s.targets[0], s.value, rest, env, st)
        if isinstance(s, ast.Expr) and isinstance(s.value, ast.Call):
            return self.call_stmt(s, s.value, rest, env, st)
        if isinstance(s, ast.If):
            return self.if_stmt(s, rest, env, st)
        if isinstance(s, ast.With):
            return self.with_stmt(s, rest, env, st)
        if isinstance(s, ast.Pass) and getattr(s, "_closes", None):
            env = dict(env)
            env.pop(s._closes, None)     # end of a `with` block: the file object is closed
            return self.block(rest, env, st)
        self.bad(s, "statement")

    def kindof(self, e, env):
        return env.get(e.id, (None,)) if isinstance(e, ast.Name) else (None,)

    def assign(self, s, tg, v, rest, env, st):
        me = self.params[0] if self.params[0] == "self" else None
        if isinstance(tg, ast.Name):
            name = tg.id
            # getParser = diffpy.structure.parsers.getParser
            if isinstance(v, ast.Attribute) and un(v) == GETPARSER:
                if "diffpy.structure.parsers" not in env["__mods__"]:
                    self.bad(s, "module not imported")
                return self.block(rest, dict(env, **{name: ("getParser",)}), st)
            if isinstance(v, ast.Call):
                f = v.func
                # p = getParser(format)
                if isinstance(f, ast.Name) and env.get(f.id) == ("getParser",):
                    kwok = not v.keywords
                    if self.kind == "loadStructure":
                        kwok = len(v.keywords) == 1 and v.keywords[0].arg is None and un(v.keywords[0].value) == "kw"
                    if not (len(v.args) == 1 and self.kindof(v.args[0], env) == ("fmt",) and kwok):
                        self.bad(s, "getParser arguments")
                    return (["match gp with"] + arm("some e", [self.raise_("e", st)])
                            + arm("none", self.block(rest, dict(env, **{name: ("parser",)}), st)))
                if isinstance(f, ast.Attribute) and self.kindof(f.value, env) == ("parser",):
                    # new_structure = p.parseFile(filename) / p.parse(s)
                    if f.attr in ("parseFile", "parse", "parseLines"):
                        if self.parsecall is None or f.attr != self.parsecall[0] or v.keywords or len(v.args) != 1 \
                                or not (isinstance(v.args[0], ast.Name) and v.args[0].id == self.parsecall[1]):
                            self.bad(s, "the parser is not called as %r" % (self.parsecall,))
                        nv = "n"
                        return (["match parse with"] + arm(".err k m", [self.raise_("(k, m)", st)])
                                + arm(".none", self.block(rest, dict(env, **{name: ("new", None)}), st))
                                + arm(".ok %s" % nv, self.block(rest, dict(env, **{name: ("new", nv)}), st)))
                    # s = p.tostring(self)
                    if f.attr == "tostring" and self.family in ("write", "writeStr"):
                        if v.keywords or len(v.args) != 1 or self.kindof(v.args[0], env) != ("self",):
                            self.bad(s, "tostring arguments")
                        return (["match ser with"] + arm(".error e", [self.raise_("e", st)])
                                + arm(".ok s", self.block(rest, dict(env, **{name: ("text", "s")}), st)))
                # tailname = os.path.basename(filename)
                if un(f) == "os.path.basename" and "os" in env["__mods__"] and len(v.args) == 1 and not v.keywords \
                        and self.kindof(v.args[0], env)[0] == "str":
                    ln = "v_" + name
                    return ["let %s := basenameL %s.toList" % (ln, self.kindof(v.args[0], env)[1])] + \
                        self.block(rest, dict(env, **{name: ("chars", ln)}), st)
                # p = Structure.read(self, filename, format)
                if un(f) in ("Structure.read", "Structure.readStr") and self.kind in ("pdffit_read", "pdffit_readStr"):
                    callee = "structure_" + f.attr
                    if (self.kind == "pdffit_read") != (f.attr == "read"):
                        self.bad(s, "calls the other reader")
                    if self.modenv.get("Structure") != "diffpy.structure.structure.Structure":
                        self.bad(s, "`Structure` is not diffpy.structure.structure.Structure")
                    if v.keywords or [un(a) for a in v.args] != self.params:
                        self.bad(s, "arguments")
                    if callee not in self.available:
                        raise U("%s: depends on %s, which is not translated" % (self.fn.name, callee))
                    r = self.new("r")
                    o2 = self.new("o")
                    args = "fresh p_filename gp parse" if f.attr == "read" else "fresh gp parse"
                    return (["let %s := %s %s %s" % (r, callee, args, st), "match %s.err with" % r]
                            + arm("some e", [self.raise_("e", "%s.obj" % r)])
                            + arm("none", ["let %s : Obj := %s.obj" % (o2, r)] + self.block(rest, dict(env, **{name: ("parser",)}), o2)))
                # sg = getattr(p, "spacegroup", None)
                if un(f) == "getattr" and self.kind.startswith("pdffit") and len(v.args) == 3 and not v.keywords \
                        and self.kindof(v.args[0], env) == ("parser",) and is_str(v.args[1]) and v.args[1].value == "spacegroup" \
                        and is_none(v.args[2]):
                    return self.block(rest, dict(env, **{name: ("sgopt",)}), st)
            # tailbase = os.path.splitext(tailname)[0]
            if isinstance(v, ast.Subscript) and isinstance(v.value, ast.Call) and un(v.value.func) == "os.path.splitext" \
                    and "os" in env["__mods__"] and len(v.value.args) == 1 and not v.value.keywords \
                    and self.kindof(v.value.args[0], env)[0] == "chars" and isinstance(v.slice, ast.Constant) and v.slice.value == 0 \
                    and not isinstance(v.slice.value, bool):
                ln = "v_" + name
                return ["let %s := splitextRoot %s" % (ln, self.kindof(v.value.args[0], env)[1])] + \
                    self.block(rest, dict(env, **{name: ("chars", ln)}), st)
            self.bad(s, "assignment")
        if isinstance(tg, ast.Attribute) and isinstance(tg.value, ast.Name):
            base = env.get(tg.value.id, (None,))
            # self.title = tailbase
            if base == ("self",) and tg.attr == "title" and self.family == "read" and self.kindof(v, env)[0] == "chars":
                o2 = self.new("o")
                return ["let %s : Obj := { %s with dict := setKey %s.dict \"title\" (.str (String.ofList %s)) }" % (
                    o2, st, st, self.kindof(v, env)[1])] + self.block(rest, env, o2)
            # p.filename = filename  (an attribute of the parser object: not part of the modelled state)
            if base == ("parser",) and tg.attr == "filename" and self.kindof(v, env)[0] == "str":
                order = [n for n in body_of(self.fn)]
                pos = [i for i, n in enumerate(order) if n is s]
                self.ignored.append("%s  [statement %s of the body]" % (un(s), pos[0] + 1 if pos else "nested"))
                return self.block(rest, env, st)
            self.bad(s, "attribute assignment")
        if isinstance(tg, ast.Subscript):
            # self[:] = new_structure
            if self.kindof(tg.value, env) == ("self",) and self.family == "read" and isinstance(tg.slice, ast.Slice) \
                    and tg.slice.lower is None and tg.slice.upper is None and tg.slice.step is None \
                    and self.kindof(v, env)[0] == "new" and self.kindof(v, env)[1] is not None:
                n = self.kindof(v, env)[1]
                o2 = self.new("o")
                return ["let %s : Obj := { %s with atoms := %s.atoms.map (fun a => { a with lat := latIdOf (getattr %s \"_lattice\") }) }" % (
                    o2, st, n, st)] + self.block(rest, env, o2)
            # self.pdffit["spcgr"] = sg.short_name
            if isinstance(tg.value, ast.Attribute) and self.kindof(tg.value.value, env) == ("self",) and tg.value.attr == "pdffit" \
                    and is_str(tg.slice) and tg.slice.value == "spcgr" and isinstance(v, ast.Attribute) and v.attr == "short_name" \
                    and self.kindof(v.value, env)[0] == "sgval" and self.kind.startswith("pdffit"):
                o2 = self.new("o")
                return (["match getattr %s \"pdffit\" with" % st]
                        + arm("some (.dict kv)", ["let %s : Obj := { %s with dict := setKey %s.dict \"pdffit\" (.dict (setKey kv \"spcgr\" %s)) }" % (
                            o2, st, st, self.kindof(v.value, env)[1])] + self.block(rest, env, o2))
                        + arm("_", [self.raise_("(\"TypeError\", \"object does not support item assignment\")", st)]))
            self.bad(s, "item assignment")
        self.bad(s, "assignment target")

    def call_stmt(self, s, c, rest, env, st):
        src = un(c)
        f = c.func
        if self.family == "read":
            me = "self"
            # Structure.__init__(self)
            if src == "Structure.__init__(%s)" % me:
                if self.modenv.get("Structure") not in ("<local>.Structure",):
                    self.bad(s, "`Structure` is not the class of this module")
                o2 = self.new("o")
                return ["let %s : Obj := init0 fresh %s" % (o2, st)] + self.block(rest, env, o2)
            # self.__dict__.update(new_structure.__dict__)
            if isinstance(f, ast.Attribute) and f.attr == "update" and un(f.value) == "%s.__dict__" % me and len(c.args) == 1 and not c.keywords \
                    and isinstance(c.args[0], ast.Attribute) and c.args[0].attr == "__dict__" \
                    and self.kindof(c.args[0].value, env)[0] == "new" and self.kindof(c.args[0].value, env)[1] is not None:
                n = self.kindof(c.args[0].value, env)[1]
                o2 = self.new("o")
                return ["let %s : Obj := { %s with dict := update %s.dict %s.dict }" % (o2, st, st, n)] + self.block(rest, env, o2)
            # self.extend(new_structure)
            if isinstance(f, ast.Attribute) and f.attr == "extend" and self.kindof(f.value, env) == ("self",) and len(c.args) == 1 \
                    and not c.keywords and self.kindof(c.args[0], env)[0] == "new" and self.kindof(c.args[0], env)[1] is not None:
                n = self.kindof(c.args[0], env)[1]
                o2 = self.new("o")
                return ["let %s : Obj := { %s with atoms := %s.atoms ++ %s.atoms.map (fun a => { a with lat := latIdOf (getattr %s \"_lattice\") }) }" % (
                    o2, st, st, n, st)] + self.block(rest, env, o2)
        if self.family == "write":
            # fp.write(s)
            if isinstance(f, ast.Attribute) and f.attr == "write" and self.kindof(f.value, env) == ("fp",) and len(c.args) == 1 \
                    and not c.keywords and self.kindof(c.args[0], env)[0] == "text":
                f2 = self.new("f")
                return (["match encodeErr with"] + arm("some e", [self.raise_("e", st)])
                        + arm("none", ["let %s : Option String := some %s" % (f2, self.kindof(c.args[0], env)[1])] + self.block(rest, env, f2)))
        self.bad(s, "call")

    def if_stmt(self, s, rest, env, st):
        t = s.test
        # if new_structure is not None:
        if isinstance(t, ast.Compare) and len(t.ops) == 1 and isinstance(t.ops[0], ast.IsNot) and is_none(t.comparators[0]) \
                and self.kindof(t.left, env)[0] == "new":
            taken = s.body if self.kindof(t.left, env)[1] is not None else s.orelse
            return self.block(list(taken) + rest, env, st)
        # if not self.title:
        if isinstance(t, ast.UnaryOp) and isinstance(t.op, ast.Not) and isinstance(t.operand, ast.Attribute) \
                and self.kindof(t.operand.value, env) == ("self",) and t.operand.attr == "title" and self.family == "read":
            return ite("truthy (getattr %s \"title\")" % st, self.block(list(s.orelse) + rest, env, st), self.block(list(s.body) + rest, env, st))
        # if sg:
        if self.kindof(t, env) == ("sgopt",):
            v = "v_" + t.id
            return (["match sg with"] + arm("none", self.block(list(s.orelse) + rest, env, st))
                    + arm("some %s" % v, self.block(list(s.body) + rest, dict(env, **{t.id: ("sgval", v)}), st)))
        self.bad(t, "condition")

    def with_stmt(self, s, rest, env, st):
        if self.family != "write" or len(s.items) != 1 or not isinstance(s.items[0].optional_vars, ast.Name):
            self.bad(s, "with")
        c = s.items[0].context_expr
        if not (isinstance(c, ast.Call) and un(c.func) in ("codecs.open", "open")):
            self.bad(s, "with")
        if un(c.func) == "codecs.open" and self.modenv.get("codecs") != "codecs":
            self.bad(s, "codecs is not the standard module")
        if un(c.func) == "open" and "open" in self.modenv:
            self.bad(s, "open is rebound")
        if not (len(c.args) == 2 and self.kindof(c.args[0], env) == ("str", "p_filename") and is_str(c.args[1])):
            self.bad(s, "open arguments")
        if c.args[1].value != "w":
            self.bad(s, "file mode %r (only the truncating text mode \"w\" is modelled)" % c.args[1].value)
        if any(k.arg != "encoding" or not is_str(k.value) for k in c.keywords):
            self.bad(s, "open keywords")
        self.opened.append(un(c))
        f2 = self.new("f")
        fp = s.items[0].optional_vars.id
        closing = ast.Pass()
        closing._closes = fp
        # the body runs with the file open; leaving the block (normally or not) closes it: no further effect on the content
        return (["match openErr with"] + arm("some e", [self.raise_("e", st)])
                + arm("none", ["let %s : Option String := some \"\"" % f2] + self.block(list(s.body) + [closing] + rest, dict(env, **{fp: ("fp",)}), f2)))


# =================================================================================================
# parsers/__init__.py : inputFormats / outputFormats / getParser

REG_FIELDS = {"has_input": "hasInput", "has_output": "hasOutput", "file_pattern": "pattern"}


def translate_formats(fn, modenv):
    """`x = [fmt for fmt, prop in parser_index.items() if prop["has_input"]]; x.sort(); return x`"""
    want_sig(fn, [])
    if modenv.get("parser_index") != "diffpy.structure.parsers.parser_index_mod.parser_index":
        raise U("%s: parser_index is not the registry of parser_index_mod" % fn.name)
    env = {}
    lines = []
    k = 0
    for s in body_of(fn):
        if isinstance(s, ast.Assign) and len(s.targets) == 1 and isinstance(s.targets[0], ast.Name) and isinstance(s.value, ast.ListComp):
            c = s.value
            g = c.generators[0] if len(c.generators) == 1 else None
            if not (g and not g.is_async and isinstance(g.target, ast.Tuple) and len(g.target.elts) == 2
                    and all(isinstance(e, ast.Name) for e in g.target.elts) and un(g.iter) == "parser_index.items()" and len(g.ifs) == 1):
                raise U("%s: comprehension `%s`" % (fn.name, un(c)[:80]))
            key, prop = (e.id for e in g.target.elts)
            t = g.ifs[0]
            if not (isinstance(t, ast.Subscript) and isinstance(t.value, ast.Name) and t.value.id == prop and is_str(t.slice)
                    and t.slice.value in ("has_input", "has_output")):
                raise U("%s: filter `%s`" % (fn.name, un(t)))
            if not (isinstance(c.elt, ast.Name) and c.elt.id == key):
                raise U("%s: element `%s`" % (fn.name, un(c.elt)))
            k += 1
            v = "v%d" % k
            lines.append("let %s := (reg.filter (fun e => e.%s)).map (fun e => e.name)" % (v, REG_FIELDS[t.slice.value]))
            env[s.targets[0].id] = v
        elif isinstance(s, ast.Expr) and isinstance(s.value, ast.Call) and isinstance(s.value.func, ast.Attribute) and s.value.func.attr == "sort" \
                and isinstance(s.value.func.value, ast.Name) and s.value.func.value.id in env and not s.value.args and not s.value.keywords:
            k += 1
            v = "v%d" % k
            lines.append("let %s := isort %s" % (v, env[s.value.func.value.id]))
            env[s.value.func.value.id] = v
        elif isinstance(s, ast.Return) and isinstance(s.value, ast.Name) and s.value.id in env and s is fn.body[-1]:
            lines.append(env[s.value.id])
            return lines
        else:
            raise U("%s: statement `%s`" % (fn.name, un(s)[:80]))
    raise U("%s: no return" % fn.name)


def normal_text(fn):
    """argument list and statements of a function, docstring and layout removed"""
    return "(%s) %s" % (un(fn.args), "; ".join(" ".join(un(b).split()) for b in body_of(fn)))


# =================================================================================================
# parsers/p_auto.py

WRAP_PRELUDE = '''/-- the variables `_wrapParseMethod` carries round its loop: `stru`, `self.format`, `parsers_emsgs` -/
structure WrapSt (R : Type) where
  stru : Option R
  format : String
  emsgs : List String

/-- how one pass through the body of a `for` statement ends -/
inductive WrapStep (R : Type) where
  /-- fell off the end of the body -/
  | next (s : WrapSt R)
  /-- `break` -/
  | brk (s : WrapSt R)
  /-- an exception left the body -/
  | raised (k m : String)

/-- `for x in xs: body` -/
def forLoop {R : Type} (body : String → WrapSt R → WrapStep R) : List String → WrapSt R → WrapStep R
  | [], s => .next s
  | x :: xs, s =>
    match body x s with
    | .next s' => forLoop body xs s'
    | .brk s' => .brk s'
    | .raised k m => .raised k m

'''


def translate_ordered(fn, modenv, data):
    """P_auto._getOrderedFormats -> lines of `getOrderedFormats cfg reg self_filename : Except (String × String) (List String)`"""
    want_sig(fn, ["self"])
    if modenv.get("os") != "os":
        raise U("_getOrderedFormats: `os` is not the standard module")
    if modenv.get("parser_index") != "diffpy.structure.parsers.parser_index":
        raise U("_getOrderedFormats: parser_index is not the registry of diffpy.structure.parsers")
    me = "self"
    stmts = body_of(fn)
    env = {}
    lines = []

    def bad(node, why):
        raise U("_getOrderedFormats: %s: `%s`" % (why, un(node)[:100]))

    def go(stmts, env):
        if not stmts:
            raise U("_getOrderedFormats: falls off the end")
        s, rest = stmts[0], stmts[1:]
        if isinstance(s, ast.ImportFrom) and s.level == 0 and len(s.names) == 1 and s.names[0].asname is None \
                and (s.module, s.names[0].name) in (("diffpy.structure.parsers", "inputFormats"), ("fnmatch", "fnmatch")):
            return go(rest, dict(env, **{s.names[0].name: ("fn", s.names[0].name)}))
        if isinstance(s, ast.Return):
            if isinstance(s.value, ast.Name) and env.get(s.value.id, (None,))[0] == "list":
                return [".ok %s" % env[s.value.id][1]]
            bad(s, "return")
        if isinstance(s, ast.Assign) and len(s.targets) == 1 and isinstance(s.targets[0], ast.Name):
            name, v = s.targets[0].id, s.value
            # ofmts = [fmt for fmt in inputFormats() if fmt != "auto"]
            if isinstance(v, ast.ListComp) and len(v.generators) == 1:
                g = v.generators[0]
                if (isinstance(g.target, ast.Name) and isinstance(v.elt, ast.Name) and v.elt.id == g.target.id and not g.is_async
                        and un(g.iter) == "inputFormats()" and env.get("inputFormats") == ("fn", "inputFormats") and len(g.ifs) == 1):
                    t = g.ifs[0]
                    if isinstance(t, ast.Compare) and len(t.ops) == 1 and isinstance(t.ops[0], ast.NotEq) and isinstance(t.left, ast.Name) \
                            and t.left.id == g.target.id and is_str(t.comparators[0]):
                        data["excluded_src"] = data.get("excluded_src", []) + [t.comparators[0].value]
                        ln = "v_" + name
                        return ["let %s := (inputFormats reg).filter (fun %s => !(cfg.excluded.contains %s))" % (ln, g.target.id, g.target.id)] + \
                            go(rest, dict(env, **{name: ("list", ln)}))
                bad(s, "comprehension")
            # filebase = os.path.basename(self.filename)
            if isinstance(v, ast.Call) and un(v.func) == "os.path.basename" and len(v.args) == 1 and not v.keywords \
                    and un(v.args[0]) == "%s.filename" % me and env.get("__fn__"):
                ln = "v_" + name
                return ["let %s := basename %s" % (ln, env["__fn__"])] + go(rest, dict(env, **{name: ("str", ln)}))
            bad(s, "assignment")
        if isinstance(s, ast.If):
            t = s.test
            # if not self.filename: return ofmts
            if isinstance(t, ast.UnaryOp) and isinstance(t.op, ast.Not) and un(t.operand) == "%s.filename" % me and not s.orelse \
                    and "__fn__" not in env:
                a = go(list(s.body) + rest, env)
                b = go(rest, dict(env, __fn__="fn"))
                return ["match self_filename with"] + arm("none", a) + arm("some fn", ite("fn = \"\"", a, b))
            bad(t, "condition")
        if isinstance(s, ast.For):
            # for fmt in list(ofmts): <body>   followed by   return ofmts
            if not (isinstance(s.target, ast.Name) and isinstance(s.iter, ast.Call) and un(s.iter.func) == "list" and len(s.iter.args) == 1
                    and not s.iter.keywords and isinstance(s.iter.args[0], ast.Name) and env.get(s.iter.args[0].id, (None,))[0] == "list"
                    and not s.orelse):
                bad(s, "loop")
            acc = s.iter.args[0].id
            if not (len(rest) == 1 and isinstance(rest[0], ast.Return) and isinstance(rest[0].value, ast.Name) and rest[0].value.id == acc):
                raise U("_getOrderedFormats: the loop is not followed by `return %s`" % acc)
            fmt = s.target.id
            benv = dict(env)
            benv[acc] = ("list", "acc")
            benv[fmt] = ("str", fmt)
            body = loop_body(list(s.body), benv, acc, fmt)
            return ["%s.foldlM (fun (acc : List String) (%s : String) =>" % (env[acc][1], fmt)] + ind(body, 4) + ["  ) %s" % env[acc][1]]
        bad(s, "statement")

    def loop_body(stmts, env, acc, fmt):
        """body of the reordering loop: ends by handing the accumulator to the next round (`.ok`)"""
        if not stmts:
            return [".ok %s" % env[acc][1]]
        s, rest = stmts[0], stmts[1:]
        if isinstance(s, ast.Continue):
            return [".ok %s" % env[acc][1]]
        if isinstance(s, ast.Assign) and len(s.targets) == 1 and isinstance(s.targets[0], ast.Name):
            name, v = s.targets[0].id, s.value
            # pattern = parser_index[fmt]["file_pattern"]
            if isinstance(v, ast.Subscript) and is_str(v.slice) and v.slice.value == "file_pattern" and isinstance(v.value, ast.Subscript) \
                    and un(v.value.value) == "parser_index" and isinstance(v.value.slice, ast.Name) and v.value.slice.id == fmt:
                ln = "v_" + name
                return (["match reg.find? (fun e => e.name == %s) with" % fmt] + arm("none", [".error (\"KeyError\", %s)" % fmt])
                        + arm("some e", ["let %s := e.pattern" % ln] + loop_body(rest, dict(env, **{name: ("str", ln)}), acc, fmt)))
            # anymatch = [1 for p in pattern.split("|") if fnmatch(filebase, p)]
            if isinstance(v, ast.ListComp) and len(v.generators) == 1:
                g = v.generators[0]
                it = g.iter
                if (isinstance(g.target, ast.Name) and not g.is_async and isinstance(it, ast.Call) and isinstance(it.func, ast.Attribute)
                        and it.func.attr == "split" and isinstance(it.func.value, ast.Name) and env.get(it.func.value.id, (None,))[0] == "str"
                        and len(it.args) == 1 and not it.keywords and is_str(it.args[0]) and len(g.ifs) == 1
                        and isinstance(v.elt, ast.Constant) and v.elt.value == 1 and v.elt.value is not True):
                    c = g.ifs[0]
                    if isinstance(c, ast.Call) and un(c.func) == "fnmatch" and env.get("fnmatch") == ("fn", "fnmatch") and len(c.args) == 2 \
                            and not c.keywords and all(isinstance(a, ast.Name) for a in c.args):
                        p = g.target.id
                        inner = dict(env)
                        inner[p] = ("chars", p)

                        def as_chars(a):
                            k = inner.get(a.id, (None,))
                            if k[0] == "chars":
                                return k[1]
                            if k[0] == "str":
                                return "%s.toList" % k[1]
                            bad(a, "fnmatch argument")

                        data["separator_src"] = data.get("separator_src", []) + [it.args[0].value]
                        ln = "v_" + name
                        # fnmatch(name, pattern) = globL pattern name
                        return ["let %s := ((splitChar cfg.sep %s.toList).filter (fun %s => globL %s %s)).map (fun _ => (1 : Nat))" % (
                            ln, env[it.func.value.id][1], p, as_chars(c.args[1]), as_chars(c.args[0]))] + \
                            loop_body(rest, dict(env, **{name: ("list", ln)}), acc, fmt)
                bad(s, "comprehension")
            bad(s, "assignment")
        if isinstance(s, ast.If):
            t = s.test
            # if pattern in ("*.*", "*"): continue
            if isinstance(t, ast.Compare) and len(t.ops) == 1 and isinstance(t.ops[0], ast.In) and isinstance(t.left, ast.Name) \
                    and env.get(t.left.id, (None,))[0] == "str" and isinstance(t.comparators[0], (ast.Tuple, ast.List)) \
                    and all(is_str(e) for e in t.comparators[0].elts):
                data["skipPatterns_src"] = data.get("skipPatterns_src", []) + [[e.value for e in t.comparators[0].elts]]
                return ite("cfg.skipPatterns.contains %s" % env[t.left.id][1], loop_body(list(s.body) + rest, env, acc, fmt),
                           loop_body(list(s.orelse) + rest, env, acc, fmt))
            # if anymatch:
            if isinstance(t, ast.Name) and env.get(t.id, (None,))[0] == "list":
                return ite("!%s.isEmpty" % env[t.id][1], loop_body(list(s.body) + rest, env, acc, fmt),
                           loop_body(list(s.orelse) + rest, env, acc, fmt))
            bad(t, "condition")
        if isinstance(s, ast.Expr) and isinstance(s.value, ast.Call) and isinstance(s.value.func, ast.Attribute) \
                and isinstance(s.value.func.value, ast.Name) and s.value.func.value.id == acc and not s.value.keywords:
            c = s.value
            k = "%s'" % env[acc][1] if not env[acc][1].endswith("'") else env[acc][1] + "'"
            # ofmts.remove(fmt)  (the element is in the list: `erase` of an absent element would be a ValueError in Python)
            if c.func.attr == "remove" and len(c.args) == 1 and isinstance(c.args[0], ast.Name) and c.args[0].id == fmt:
                return ["let %s := %s.erase %s" % (k, env[acc][1], fmt)] + loop_body(rest, dict(env, **{acc: ("list", k)}), acc, fmt)
            # ofmts.insert(0, fmt)
            if c.func.attr == "insert" and len(c.args) == 2 and isinstance(c.args[0], ast.Constant) and c.args[0].value == 0 \
                    and c.args[0].value is not False and isinstance(c.args[1], ast.Name) and c.args[1].id == fmt:
                return ["let %s := %s :: %s" % (k, fmt, env[acc][1])] + loop_body(rest, dict(env, **{acc: ("list", k)}), acc, fmt)
            # ofmts.append(fmt)
            if c.func.attr == "append" and len(c.args) == 1 and isinstance(c.args[0], ast.Name) and c.args[0].id == fmt:
                return ["let %s := %s ++ [%s]" % (k, env[acc][1], fmt)] + loop_body(rest, dict(env, **{acc: ("list", k)}), acc, fmt)
        bad(s, "loop statement")

    return go(stmts, env)


def translate_wrap(fn, modenv, data):
    """P_auto._wrapParseMethod -> (lines of wrapBody, lines of wrapParseMethod)"""
    want_sig(fn, ["self", "method"], [], "args", "kwargs")
    if modenv.get("StructureFormatError") != "diffpy.structure.structureerrors.StructureFormatError":
        raise U("_wrapParseMethod: StructureFormatError is not the library's class")
    me = "self"
    state = {"stru": None, "emsgs": None, "ofmts": None}
    assumed = []

    def bad(node, why):
        raise U("_wrapParseMethod: %s: `%s`" % (why, un(node)[:100]))

    # ---- the loop body ---------------------------------------------------------------------------
    cnt = [0]

    def newst():
        cnt[0] += 1
        return "st%d" % cnt[0]

    def wbody(stmts, env, st, k_end, handlers):
        """-> lines of type WrapStep; `k_end(env, st)` continues after the last statement"""
        if not stmts:
            return k_end(env, st)
        s, rest = stmts[0], stmts[1:]
        if isinstance(s, ast.Break):
            return [".brk %s" % st]
        if isinstance(s, ast.Continue):
            return [".next %s" % st]
        if isinstance(s, ast.Pass):
            return wbody(rest, env, st, k_end, handlers)
        if isinstance(s, ast.Try):
            if s.orelse or s.finalbody or handlers is not None:
                bad(s, "try with else/finally or nested")
            hs = []
            for h in s.handlers:
                if h.type is None:
                    bad(s, "bare except")
                names = [un(e) for e in h.type.elts] if isinstance(h.type, ast.Tuple) else [un(h.type)]
                hs.append((names, h.name, list(h.body)))
            after = lambda env2, st2: wbody(rest, env2, st2, k_end, handlers)   # noqa: E731
            return wbody(list(s.body), env, st, after, (hs, after))
        if isinstance(s, ast.Assign) and len(s.targets) == 1:
            tg, v = s.targets[0], s.value
            if isinstance(tg, ast.Name) and isinstance(v, ast.Call):
                # p = getParser(fmt, **self.pkw)
                if isinstance(v.func, ast.Name) and env.get(v.func.id) == ("getParser",) and len(v.args) == 1 \
                        and isinstance(v.args[0], ast.Name) and env.get(v.args[0].id) == ("loopvar",) \
                        and [(k.arg, un(k.value)) for k in v.keywords] in ([], [(None, "%s.pkw" % me)]):
                    if handlers is not None:
                        bad(s, "getParser inside the try statement")
                    assumed.append("%s does not raise: every candidate is a key of parser_index" % un(v))
                    return wbody(rest, dict(env, **{tg.id: ("parser",)}), st, k_end, handlers)
                # pmethod = getattr(p, method)
                if un(v.func) == "getattr" and len(v.args) == 2 and not v.keywords and isinstance(v.args[0], ast.Name) \
                        and env.get(v.args[0].id) == ("parser",) and isinstance(v.args[1], ast.Name) and v.args[1].id == "method":
                    return wbody(rest, dict(env, **{tg.id: ("pmethod",)}), st, k_end, handlers)
                # stru = pmethod(*args, **kwargs)
                if isinstance(v.func, ast.Name) and env.get(v.func.id) == ("pmethod",) and tg.id == state["stru"] \
                        and [un(a) for a in v.args] == ["*args"] and [(k.arg, un(k.value)) for k in v.keywords] == [(None, "kwargs")]:
                    fmt = env["__fmt__"]
                    s_ok, s_none = newst(), newst()
                    if handlers is None:
                        exc = [".raised k m"]
                    else:
                        exc = dispatch(handlers, env, st)
                    return (["match parse %s with" % fmt]
                            + arm(".ok r", ["let %s : WrapSt R := { %s with stru := some r }" % (s_ok, st)] + wbody(rest, env, s_ok, k_end, handlers))
                            + arm(".none", ["let %s : WrapSt R := { %s with stru := none }" % (s_none, st)] + wbody(rest, env, s_none, k_end, handlers))
                            + arm(".err k m", exc))
            # self.format = fmt
            if isinstance(tg, ast.Attribute) and un(tg) == "%s.format" % me and isinstance(v, ast.Name) and env.get(v.id) == ("loopvar",):
                s2 = newst()
                return ["let %s : WrapSt R := { %s with format := %s }" % (s2, st, env["__fmt__"])] + wbody(rest, env, s2, k_end, handlers)
            bad(s, "assignment in the loop")
        bad(s, "statement in the loop")

    def dispatch(handlers, env, st):
        """the except clauses: which one runs is decided by the class of the exception (`c.handler k`)"""
        hs, after = handlers
        arms = {}
        clauses = []
        for names, asname, body in hs:
            kind, lines = clause(names, asname, body, env, st, after)
            if kind in arms:
                raise U("_wrapParseMethod: two except clauses of kind %s" % kind)
            arms[kind] = lines
            clauses.append((names, kind))
        data["wrap_clauses"] = clauses
        out = ["match c.handler k with"]
        for kind in ("collect", "skip"):
            # a kind no clause implements: such an exception is not caught here
            out += arm(".%s" % kind, arms.get(kind, [".raised k m"]))
        out += arm(".escape", [".raised k m"])
        return out

    def clause(names, asname, body, env, st, after):
        body = [b for b in body if not is_doc(b)]
        if all(isinstance(b, ast.Pass) for b in body):
            return "skip", after(env, st)
        if len(body) == 1 and isinstance(body[0], ast.Expr) and isinstance(body[0].value, ast.Call):
            c = body[0].value
            # parsers_emsgs.append("%s: %s" % (fmt, err))
            if isinstance(c.func, ast.Attribute) and c.func.attr == "append" and isinstance(c.func.value, ast.Name) \
                    and c.func.value.id == state["emsgs"] and len(c.args) == 1 and not c.keywords:
                a = c.args[0]
                if isinstance(a, ast.BinOp) and isinstance(a.op, ast.Mod) and is_str(a.left) and isinstance(a.right, ast.Tuple) \
                        and len(a.right.elts) == 2 and all(isinstance(e, ast.Name) for e in a.right.elts):
                    def val(e):
                        if env.get(e.id) == ("loopvar",):
                            return env["__fmt__"]
                        if asname is not None and e.id == asname:
                            return "m"           # str(err)
                        raise U("_wrapParseMethod: complaint argument `%s`" % e.id)
                    if a.left.value.count("%s") != 2 or a.left.value.replace("%s", "").count("%"):
                        raise U("_wrapParseMethod: complaint format %r" % a.left.value)
                    data["complaint_src"] = data.get("complaint_src", []) + [a.left.value]
                    s2 = newst()
                    return "collect", ["let %s : WrapSt R := { %s with emsgs := %s.emsgs ++ [c.complaint %s %s] }" % (
                        s2, st, st, val(a.right.elts[0]), val(a.right.elts[1]))] + after(env, s2)
        raise U("_wrapParseMethod: except %s: body `%s`" % ("/".join(names), "; ".join(un(b) for b in body)[:80]))

    # ---- the function body -------------------------------------------------------------------------
    body_lines = []

    def top(stmts, env):
        if not stmts:
            raise U("_wrapParseMethod: falls off the end")
        s, rest = stmts[0], stmts[1:]
        if isinstance(s, ast.ImportFrom) and s.level == 0 and s.module == "diffpy.structure.parsers" and len(s.names) == 1 \
                and s.names[0].name == "getParser" and s.names[0].asname is None:
            return top(rest, dict(env, getParser=("getParser",)))
        if isinstance(s, ast.Assign) and len(s.targets) == 1 and isinstance(s.targets[0], ast.Name) and "__loop__" not in env:
            name, v = s.targets[0].id, s.value
            if un(v) == "%s._getOrderedFormats()" % me and state["ofmts"] is None:
                state["ofmts"] = name
                return (["match getOrderedFormats cfg reg self_filename with"] + arm(".error e", [".err e.1 e.2"])
                        + arm(".ok v_ofmts", top(rest, env)))
            if is_none(v) and state["stru"] is None:
                state["stru"] = name
                return top(rest, env)
            if isinstance(v, ast.List) and not v.elts and state["emsgs"] is None:
                state["emsgs"] = name
                return top(rest, env)
            bad(s, "assignment before the loop")
        if isinstance(s, ast.For) and "__loop__" not in env:
            if not (isinstance(s.target, ast.Name) and isinstance(s.iter, ast.Name) and s.iter.id == state["ofmts"] and not s.orelse
                    and state["stru"] and state["emsgs"]):
                bad(s, "loop")
            fmt = s.target.id
            benv = dict(env)
            benv[fmt] = ("loopvar",)
            benv["__fmt__"] = fmt
            body_lines.extend(wbody(list(s.body), benv, "st", lambda e, st: [".next %s" % st], None))
            data["loopvar"] = fmt
            after = post(rest, env, "st")      # the statements after the loop run whether it ended by exhaustion or by `break`
            return (["match forLoop (wrapBody c parse) v_ofmts ⟨none, format0, []⟩ with"] + arm(".raised k m", [".err k m"])
                    + arm(".next st", after) + arm(".brk st", after))
        bad(s, "statement")

    def post(stmts, env, st, r=None):
        if not stmts:
            raise U("_wrapParseMethod: falls off the end")
        s, rest = stmts[0], stmts[1:]
        # if stru is None: ...
        if isinstance(s, ast.If) and isinstance(s.test, ast.Compare) and len(s.test.ops) == 1 and isinstance(s.test.ops[0], ast.Is) \
                and is_none(s.test.comparators[0]) and isinstance(s.test.left, ast.Name) and s.test.left.id == state["stru"] and r is None:
            return (["match %s.stru with" % st] + arm("none", post(list(s.body) + rest, env, st, "none"))
                    + arm("some r", post(list(s.orelse) + rest, env, st, "r")))
        # emsg = "\n".join([...] + parsers_emsgs)
        if isinstance(s, ast.Assign) and len(s.targets) == 1 and isinstance(s.targets[0], ast.Name) and isinstance(s.value, ast.Call):
            c = s.value
            if isinstance(c.func, ast.Attribute) and c.func.attr == "join" and is_str(c.func.value) and len(c.args) == 1 and not c.keywords:
                a = c.args[0]
                if isinstance(a, ast.BinOp) and isinstance(a.op, ast.Add) and isinstance(a.left, ast.List) and all(is_str(e) for e in a.left.elts) \
                        and isinstance(a.right, ast.Name) and a.right.id == state["emsgs"]:
                    data["joiner_src"] = data.get("joiner_src", []) + [c.func.value.value]
                    data["header_src"] = data.get("header_src", []) + [[e.value for e in a.left.elts]]
                    ln = "v_" + s.targets[0].id
                    return ["let %s := c.joiner.intercalate (c.header ++ %s.emsgs)" % (ln, st)] + \
                        post(rest, dict(env, **{s.targets[0].id: ("msg", ln)}), st, r)
            bad(s, "assignment after the loop")
        # raise StructureFormatError(emsg)
        if isinstance(s, ast.Raise) and isinstance(s.exc, ast.Call) and isinstance(s.exc.func, ast.Name) and len(s.exc.args) == 1 \
                and not s.exc.keywords and isinstance(s.exc.args[0], ast.Name) and env.get(s.exc.args[0].id, (None,))[0] == "msg" and s.cause is None:
            data["raised_src"] = data.get("raised_src", []) + [s.exc.func.id]
            return [".err c.raised %s" % env[s.exc.args[0].id][1]]
        # self.__dict__.update(p.__dict__)  -- the parser object takes over the attributes of the successful candidate: outside the model
        if isinstance(s, ast.Expr) and isinstance(s.value, ast.Call) and un(s.value.func) == "%s.__dict__.update" % me:
            data["wrap_after"] = data.get("wrap_after", []) + [un(s)]
            return post(rest, env, st, r)
        # return stru
        if isinstance(s, ast.Return) and isinstance(s.value, ast.Name) and s.value.id == state["stru"]:
            if r is None:
                raise U("_wrapParseMethod: returns before `%s` has been tested" % state["stru"])
            if r == "none":
                raise U("_wrapParseMethod: returns None")
            return [".ok %s.format %s" % (st, r)]
        bad(s, "statement after the loop")

    main_lines = top(body_of(fn), {})
    data["wrap_assumed"] = assumed
    return body_lines, main_lines


def translate_entry(fn, name, store_filename):
    """P_auto.parse / parseLines / parseFile: `[self.filename = filename;] return self._wrapParseMethod("<name>", <arg>)`"""
    argn = sig_of(fn)[0]
    if len(argn) != 2 or argn[0] != "self" or sig_of(fn)[1:] != ([], None, None, [], []):
        raise U("%s: signature" % name)
    b = body_of(fn)
    fnexpr = "self_filename"
    lines = []
    if len(b) == 2 and isinstance(b[0], ast.Assign) and un(b[0].targets[0]) == "self.filename" and len(b[0].targets) == 1 \
            and isinstance(b[0].value, ast.Name) and b[0].value.id == argn[1] and store_filename:
        lines.append("let self_filename' : Option String := some p_filename")
        fnexpr = "self_filename'"
        b = b[1:]
    if not (len(b) == 1 and isinstance(b[0], ast.Return) and isinstance(b[0].value, ast.Call)
            and un(b[0].value.func) == "self._wrapParseMethod" and not b[0].value.keywords and len(b[0].value.args) == 2
            and is_str(b[0].value.args[0]) and b[0].value.args[0].value == name
            and isinstance(b[0].value.args[1], ast.Name) and b[0].value.args[1].id == argn[1]):
        raise U("%s: body `%s`" % (name, "; ".join(un(x) for x in b)[:100]))
    return lines + ["wrapParseMethod cfg reg c parse %s format0" % fnexpr]


# =================================================================================================
# parsers/structureparser.py


def translate_sp_parse(fn):
    """`lines = s.rstrip("\\r\\n").split("\\n"); stru = self.parseLines(lines); return stru` -> the lines handed to parseLines"""
    want_sig(fn, ["self", "s"])
    b = body_of(fn)
    if not (len(b) == 3 and isinstance(b[0], ast.Assign) and isinstance(b[0].targets[0], ast.Name) and len(b[0].targets) == 1):
        raise U("StructureParser.parse: statement skeleton")
    v = b[0].value
    ln = b[0].targets[0].id
    ok = (isinstance(v, ast.Call) and isinstance(v.func, ast.Attribute) and v.func.attr == "split" and [un(a) for a in v.args] == ["'\\n'"]
          and not v.keywords and isinstance(v.func.value, ast.Call) and isinstance(v.func.value.func, ast.Attribute)
          and v.func.value.func.attr == "rstrip" and un(v.func.value.func.value) == "s" and not v.func.value.keywords
          and len(v.func.value.args) == 1 and is_str(v.func.value.args[0]) and sorted(v.func.value.args[0].value) == ["\n", "\r"])
    if not ok:
        raise U("StructureParser.parse: `%s`" % un(b[0])[:100])
    if not (isinstance(b[1], ast.Assign) and un(b[1].value) == "self.parseLines(%s)" % ln and isinstance(b[1].targets[0], ast.Name)
            and isinstance(b[2], ast.Return) and un(b[2].value) == b[1].targets[0].id):
        raise U("StructureParser.parse: `%s`" % "; ".join(un(x) for x in b[1:])[:100])
    return ["Dec.splitLines (Dec.rstripNL s)"]


def translate_sp_tostring(fn):
    """`lines = self.toLines(stru); s = "\\n".join(lines) + "\\n"; return s`"""
    want_sig(fn, ["self", "stru"])
    b = body_of(fn)
    if not (len(b) == 3 and isinstance(b[0], ast.Assign) and len(b[0].targets) == 1 and isinstance(b[0].targets[0], ast.Name)
            and un(b[0].value) == "self.toLines(stru)"):
        raise U("StructureParser.tostring: statement skeleton")
    ln = b[0].targets[0].id
    v = b[1].value if isinstance(b[1], ast.Assign) and len(b[1].targets) == 1 and isinstance(b[1].targets[0], ast.Name) else None
    if not (isinstance(v, ast.BinOp) and isinstance(v.op, ast.Add) and un(v.left) == "'\\n'.join(%s)" % ln and is_str(v.right)
            and v.right.value == "\n" and isinstance(b[2], ast.Return) and un(b[2].value) == b[1].targets[0].id):
        raise U("StructureParser.tostring: `%s`" % "; ".join(un(x) for x in b[1:])[:100])
    return ["Dec.joinLines lines ++ ['\\n']"]


# =================================================================================================
# apps/transtru.py : main


class CliExec:
    """symbolic execution of `transtru.main`.  Process state `ps = (stdout, lines on stderr, message kind)`."""

    TRACEBACK = "{ stdout := .empty, stderrLines := 0, status := 1, traceback := true, msg := .none }"

    def __init__(self, fn, modenv):
        self.fn = fn
        self.modenv = modenv
        self.data = {}
        self.optloop = None      # lines of `main_optLoop`
        self.n = 0

    def bad(self, node, why):
        raise U("main: %s: `%s`" % (why, un(node)[:100]))

    def outcome(self, ps, status):
        return "{ stdout := %s, stderrLines := %d, status := %d, traceback := false, msg := %s }" % (ps[0], ps[1], status, ps[2])

    # ---- exceptions --------------------------------------------------------------------------------
    def raise_static(self, cls, env, ps, tries):
        """an exception of the (syntactically known) class `cls` is raised where `tries` are the enclosing try statements"""
        for t in reversed(tries):
            if t["table"]:
                return ["onException Gen.cliConfig %s" % lstr(cls)]
            for names, asname, body in t["handlers"]:
                if cls in names:
                    henv = dict(env)
                    if asname:
                        henv[asname] = ("exc", cls)
                    return self.block(body, henv, ps, t["after"], t["outer"])
        return [self.TRACEBACK]

    def raise_dyn(self, kvar, tries):
        """an exception whose class is the run-time value `kvar`"""
        for t in reversed(tries):
            if t["table"]:
                return ["onException Gen.cliConfig %s" % kvar]
            raise U("main: a library call inside a try statement whose handlers are not tabulated by translate/cli.py")
        return [self.TRACEBACK]

    # ---- expressions -------------------------------------------------------------------------------
    def args_index(self, e, env):
        """`args[i]` -> i, for the argument list name"""
        if isinstance(e, ast.Subscript) and isinstance(e.value, ast.Name) and env.get(e.value.id, (None,))[0] == "args" \
                and isinstance(e.slice, ast.Constant) and isinstance(e.slice.value, int) and not isinstance(e.slice.value, bool) \
                and e.slice.value >= 0:
            return e.value.id, e.slice.value
        return None

    def with_arg(self, name, i, env, ps, tries, k):
        """evaluate `args[i]`; `k(env, leanvar)` continues; raises IndexError when the list is too short"""
        kind, var, known = env[name]      # known = list of element variables already matched, var = the unmatched tail
        if i < len(known):
            return k(env, known[i])
        a = "a%d" % len(known)
        r = "r%d" % len(known)
        env2 = dict(env)
        env2[name] = ("args", r, known + [a])
        return (["match %s with" % var] + arm("[]", self.raise_static("IndexError", env, ps, tries))
                + arm("%s :: %s" % (a, r), self.with_arg(name, i, env2, ps, tries, k)))

    def msg_of(self, e, env):
        """which message a `print(..., file=sys.stderr)` shows, by what it is built from"""
        if isinstance(e, ast.Name) and env.get(e.id, (None,))[0] == "exc" and env[e.id][1] == "getopt.GetoptError":
            return ".getopt"
        if is_str(e) and "%" not in e.value and "\n" not in e.value:
            return ".noFile"
        if isinstance(e, ast.BinOp) and isinstance(e.op, ast.Mod) and is_str(e.left) and "\n" not in e.left.value:
            r = e.right
            if isinstance(r, ast.Name) and env.get(r.id, (None,))[0] == "infmt" and e.left.value.count("%s") == 1:
                return ".badIn"
            if isinstance(r, ast.Name) and env.get(r.id, (None,))[0] == "outfmt" and e.left.value.count("%s") == 1:
                return ".badOut"
            if self.args_index(r, env) and self.args_index(r, env)[1] == 0 and e.left.value.count("%s") == 1:
                return ".noSep"
            if isinstance(r, ast.Tuple) and len(r.elts) == 2 and e.left.value.count("%s") == 2 and isinstance(r.elts[0], ast.Name) \
                    and env.get(r.elts[0].id, (None,))[0] == "file":
                b = r.elts[1]
                if isinstance(b, ast.Name) and env.get(b.id, (None,))[0] == "exc":
                    return ".excStr"
                if isinstance(b, ast.Attribute) and b.attr == "strerror" and isinstance(b.value, ast.Name) and env.get(b.value.id, (None,))[0] == "exc":
                    return ".ioStrerror"
        self.bad(e, "message")

    # ---- statements --------------------------------------------------------------------------------
    def block(self, stmts, env, ps, k_end, tries):
        """-> lines of type Outcome"""
        if not stmts:
            return k_end(env, ps)
        s, rest = stmts[0], stmts[1:]
        cont = lambda env2, ps2: self.block(rest, env2, ps2, k_end, tries)   # noqa: E731
        if is_doc(s):
            return cont(env, ps)
        if isinstance(s, ast.Import) and [a.name for a in s.names] == ["getopt"] and s.names[0].asname is None:
            return cont(dict(env, getopt=("mod", "getopt")), ps)
        if isinstance(s, ast.ImportFrom) and s.level == 0 and s.module == "diffpy.structure.parsers" \
                and all(a.asname is None and a.name in ("inputFormats", "outputFormats") for a in s.names):
            e2 = dict(env)
            for a in s.names:
                e2[a.name] = ("fn", a.name)
            return cont(e2, ps)
        if isinstance(s, ast.Return) and s.value is None:
            return [self.outcome(ps, 0)]
        if isinstance(s, ast.Try):
            if s.orelse or s.finalbody:
                self.bad(s, "try with else/finally")
            hs = []
            for h in s.handlers:
                if h.type is None:
                    self.bad(s, "bare except")
                names = [un(e) for e in h.type.elts] if isinstance(h.type, ast.Tuple) else [un(h.type)]
                hs.append((names, h.name, list(h.body)))
            t = {"handlers": hs, "after": cont, "outer": tries, "table": s is self.conv_try}
            if t["table"]:
                self.data["conv_clauses"] = [(names, self.clause_summary(names, asname, body, env)) for names, asname, body in hs]
            return self.block(list(s.body), env, ps, cont, tries + [t])
        if isinstance(s, ast.Assign) and len(s.targets) == 1:
            return self.assign(s, s.targets[0], s.value, env, ps, cont, tries)
        if isinstance(s, ast.Expr) and isinstance(s.value, ast.Call):
            return self.call_stmt(s, s.value, env, ps, cont, tries)
        if isinstance(s, ast.If):
            return self.if_stmt(s, rest, env, ps, k_end, tries)
        if isinstance(s, ast.For):
            return self.for_stmt(s, env, ps, cont, tries)
        self.bad(s, "statement")

    def clause_summary(self, names, asname, body, env):
        """(status, message kind) of a handler of the conversion `try`: exactly one message on stderr, then `sys.exit(n)`"""
        henv = dict(env)
        henv.setdefault("__file__", None)
        if asname:
            henv[asname] = ("exc", names[0])
        # the handlers refer to the file name variable assigned inside the try body
        for st_ in ast.walk(self.conv_try):
            if isinstance(st_, ast.Assign) and len(st_.targets) == 1 and isinstance(st_.targets[0], ast.Name) and self.args_index(st_.value, {"args": ("args",)}):
                henv[st_.targets[0].id] = ("file", "?")
        marker = "STATUS"
        out = self.block(body, henv, (".empty", 0, ".none"), lambda e, p: ["FALLS-THROUGH"], [])
        if len(out) != 1 or not out[0].startswith("{ stdout := .empty, stderrLines := 1, status := "):
            raise U("main: handler of %s is not `print(<one line>, file=sys.stderr); sys.exit(n)`: %s" % ("/".join(names), out[0][:60]))
        status = int(out[0].split("status := ")[1].split(",")[0])
        msg = out[0].split("msg := ")[1].split(" ")[0]
        return status, msg

    def assign(self, s, tg, v, env, ps, cont, tries):
        # opts, args = getopt.getopt(sys.argv[1:], "hV", ["help", "version"])
        if isinstance(tg, ast.Tuple) and len(tg.elts) == 2 and all(isinstance(e, ast.Name) for e in tg.elts) and isinstance(v, ast.Call):
            a, b = (e.id for e in tg.elts)
            if un(v.func) == "getopt.getopt" and env.get("getopt") == ("mod", "getopt"):
                if not (len(v.args) == 3 and not v.keywords and un(v.args[0]) == "sys.argv[1:]" and is_str(v.args[1])
                        and isinstance(v.args[2], ast.List) and all(is_str(e) for e in v.args[2].elts)):
                    self.bad(s, "getopt arguments")
                if ":" in v.args[1].value or any(e.value.endswith("=") for e in v.args[2].elts):
                    self.bad(s, "options with arguments are not modelled")
                if self.modenv.get("sys") != "sys":
                    self.bad(s, "`sys` is not the standard module")
                e2 = dict(env)
                e2[a] = ("opts", "v_" + a)
                e2[b] = ("args", "v_" + b, [])
                return (["match getopt %s.toList %s argv with" % (lstr(v.args[1].value), llist([e.value for e in v.args[2].elts]))]
                        + arm("none", self.raise_static("getopt.GetoptError", env, ps, tries))
                        + arm("some (v_%s, v_%s)" % (a, b), cont(e2, ps)))
            # infmt, outfmt = args[0].split("..", 1)
            if isinstance(v.func, ast.Attribute) and v.func.attr == "split" and self.args_index(v.func.value, env) and not v.keywords \
                    and len(v.args) == 2 and is_str(v.args[0]) and isinstance(v.args[1], ast.Constant) and v.args[1].value == 1 \
                    and v.args[1].value is not True:
                name, i = self.args_index(v.func.value, env)

                def k(env2, var):
                    e3 = dict(env2)
                    e3[a] = ("infmt", "v_" + a)
                    e3[b] = ("outfmt", "v_" + b)
                    return (["match splitSpec %s.toList %s with" % (lstr(v.args[0].value), var)]
                            + arm("none", self.raise_static("ValueError", env2, ps, tries))
                            + arm("some (v_%s, v_%s)" % (a, b), cont(e3, ps)))
                return self.with_arg(name, i, env, ps, tries, k)
        if isinstance(tg, ast.Name):
            # strufile = args[1]
            if self.args_index(v, env):
                name, i = self.args_index(v, env)
                return self.with_arg(name, i, env, ps, tries, lambda env2, var: cont(dict(env2, **{tg.id: ("file", var)}), ps))
            # stru = Structure()
            if un(v) == "Structure()":
                if self.modenv.get("Structure") != "diffpy.structure.Structure":
                    self.bad(s, "`Structure` is not diffpy.structure.Structure")
                return cont(dict(env, **{tg.id: ("stru", None)}), ps)
        self.bad(s, "assignment")

    def call_stmt(self, s, c, env, ps, cont, tries):
        f = un(c.func)
        # print(X, file=sys.stderr)
        if f == "print" and "print" not in self.modenv:
            if len(c.args) == 1 and [(k.arg, un(k.value)) for k in c.keywords] == [("file", "sys.stderr")]:
                return cont(env, (ps[0], ps[1] + 1, self.msg_of(c.args[0], env)))
            self.bad(s, "print")
        if f == "sys.exit" and self.modenv.get("sys") == "sys" and not c.keywords and len(c.args) <= 1:
            if not c.args:
                return [self.outcome(ps, 0)]
            a = c.args[0]
            if isinstance(a, ast.Constant) and isinstance(a.value, int) and not isinstance(a.value, bool) and a.value >= 0:
                return [self.outcome(ps, a.value)]
            self.bad(s, "exit status")
        if f in ("usage", "version") and self.modenv.get(f) == "<local>." + f and not c.keywords:
            if ps[0] != ".empty":
                self.bad(s, "second text on standard output")
            if f == "version" and not c.args:
                return cont(env, (".version", ps[1], ps[2]))
            if f == "usage" and not c.args:
                return cont(env, (".usageFull", ps[1], ps[2]))
            if f == "usage" and len(c.args) == 1 and is_str(c.args[0]) and c.args[0].value == "brief":
                return cont(env, (".usageBrief", ps[1], ps[2]))
            self.bad(s, "usage argument")
        if isinstance(c.func, ast.Attribute) and isinstance(c.func.value, ast.Name) and env.get(c.func.value.id, (None,))[0] == "stru" \
                and not c.keywords:
            sv = c.func.value.id
            # stru.readStr(sys.stdin.read(), infmt)
            if c.func.attr == "readStr" and len(c.args) == 2 and un(c.args[0]) == "sys.stdin.read()" and isinstance(c.args[1], ast.Name) \
                    and env.get(c.args[1].id, (None,))[0] == "infmt":
                return (["match lib.readStdin %s with" % env[c.args[1].id][1]] + arm(".error k", self.raise_dyn("k", tries))
                        + arm(".ok s", cont(dict(env, **{sv: ("stru", "s")}), ps)))
            # stru.read(strufile, infmt)
            if c.func.attr == "read" and len(c.args) == 2 and isinstance(c.args[1], ast.Name) and env.get(c.args[1].id, (None,))[0] == "infmt":
                def k(env2, var):
                    return (["match lib.readFile %s %s with" % (var, env2[c.args[1].id][1])] + arm(".error k", self.raise_dyn("k", tries))
                            + arm(".ok s", cont(dict(env2, **{sv: ("stru", "s")}), ps)))
                if isinstance(c.args[0], ast.Name) and env.get(c.args[0].id, (None,))[0] == "file":
                    return k(env, env[c.args[0].id][1])
                if self.args_index(c.args[0], env):
                    name, i = self.args_index(c.args[0], env)
                    return self.with_arg(name, i, env, ps, tries, k)
        # sys.stdout.write(stru.writeStr(outfmt))
        if f == "sys.stdout.write" and len(c.args) == 1 and not c.keywords and isinstance(c.args[0], ast.Call):
            w = c.args[0]
            if isinstance(w.func, ast.Attribute) and w.func.attr == "writeStr" and isinstance(w.func.value, ast.Name) \
                    and env.get(w.func.value.id, (None,))[0] == "stru" and len(w.args) == 1 and not w.keywords \
                    and isinstance(w.args[0], ast.Name) and env.get(w.args[0].id, (None,))[0] == "outfmt":
                sval = env[w.func.value.id][1]
                if sval is None:
                    self.bad(s, "writes a structure that has not been read")
                if ps[0] != ".empty":
                    self.bad(s, "second text on standard output")
                return (["match lib.write %s %s with" % (sval, env[w.args[0].id][1])] + arm(".error k", self.raise_dyn("k", tries))
                        + arm(".ok t", cont(env, (".text t", ps[1], ps[2]))))
        self.bad(s, "call")

    def if_stmt(self, s, rest, env, ps, k_end, tries):
        t = s.test
        then = lambda e: self.block(list(s.body) + rest, e, ps, k_end, tries)     # noqa: E731
        other = lambda e: self.block(list(s.orelse) + rest, e, ps, k_end, tries)  # noqa: E731
        # if len(args) < 1:
        if isinstance(t, ast.Compare) and len(t.ops) == 1 and isinstance(t.ops[0], ast.Lt) and isinstance(t.comparators[0], ast.Constant) \
                and t.comparators[0].value == 1 and t.comparators[0].value is not True and isinstance(t.left, ast.Call) and un(t.left.func) == "len" \
                and len(t.left.args) == 1 and isinstance(t.left.args[0], ast.Name) and env.get(t.left.args[0].id, (None,))[0] == "args" \
                and env[t.left.args[0].id][2] == []:
            name = t.left.args[0].id
            var = env[name][1]
            e2 = dict(env)
            e2[name] = ("args", "r0", ["a0"])
            return ["match %s with" % var] + arm("[]", then(env)) + arm("a0 :: r0", other(e2))
        # if infmt not in inputFormats():
        if isinstance(t, ast.Compare) and len(t.ops) == 1 and isinstance(t.ops[0], ast.NotIn) and isinstance(t.left, ast.Name) \
                and isinstance(t.comparators[0], ast.Call) and not t.comparators[0].args and not t.comparators[0].keywords \
                and isinstance(t.comparators[0].func, ast.Name):
            fn = t.comparators[0].func.id
            kind = env.get(t.left.id, (None,))[0]
            if env.get(fn) == ("fn", fn) and kind in ("infmt", "outfmt"):
                lst = {"inputFormats": "Gen.cliConfig.inFormats", "outputFormats": "Gen.cliConfig.outFormats"}[fn]
                return ite("¬ %s.contains %s" % (lst, env[t.left.id][1]), then(env), other(env))
        # if args[1] == "-":  /  if strufile == "-":
        if isinstance(t, ast.Compare) and len(t.ops) == 1 and isinstance(t.ops[0], ast.Eq) and is_str(t.comparators[0]):
            lit = lstr(t.comparators[0].value)
            if isinstance(t.left, ast.Name) and env.get(t.left.id, (None,))[0] == "file":
                return ite("%s = %s" % (env[t.left.id][1], lit), then(env), other(env))
            if self.args_index(t.left, env):
                name, i = self.args_index(t.left, env)
                return self.with_arg(name, i, env, ps, tries, lambda e2, var: ite("%s = %s" % (var, lit), then(e2), other(e2)))
        self.bad(t, "condition")

    def for_stmt(self, s, env, ps, cont, tries):
        """`for o, a in opts: if o in (...): <print usage>; sys.exit() elif ...` -> its own recursive definition"""
        if not (isinstance(s.target, ast.Tuple) and len(s.target.elts) == 2 and all(isinstance(e, ast.Name) for e in s.target.elts)
                and isinstance(s.iter, ast.Name) and env.get(s.iter.id, (None,))[0] == "opts" and not s.orelse and self.optloop is None):
            self.bad(s, "loop")
        if ps != (".empty", 0, ".none") or tries:
            self.bad(s, "loop after output / inside try")
        o, a = (e.id for e in s.target.elts)
        for n in ast.walk(ast.Module(body=s.body, type_ignores=[])):
            if isinstance(n, ast.Name) and n.id == a:
                self.bad(s, "the option argument is used")

        def body(stmts, benv, bps):
            if not stmts:
                if bps != ps:
                    self.bad(s, "the loop body prints without leaving")
                return ["main_optLoop rest"]
            st_, rest = stmts[0], stmts[1:]
            if isinstance(st_, ast.If):
                t = st_.test
                if isinstance(t, ast.Compare) and len(t.ops) == 1 and isinstance(t.ops[0], ast.In) and isinstance(t.left, ast.Name) and t.left.id == o \
                        and isinstance(t.comparators[0], (ast.Tuple, ast.List)) and all(is_str(e) for e in t.comparators[0].elts):
                    return ite("%s.contains o" % llist([e.value for e in t.comparators[0].elts]),
                               body(list(st_.body) + rest, benv, bps), body(list(st_.orelse) + rest, benv, bps))
                self.bad(t, "option test")
            if isinstance(st_, ast.Expr) and isinstance(st_.value, ast.Call):
                r = self.call_stmt(st_, st_.value, benv, bps, lambda e2, p2: ("CONT", e2, p2), [])
                if isinstance(r, tuple):
                    return body(rest, r[1], r[2])
                return ["some %s" % r[0]]
            self.bad(st_, "statement in the option loop")

        lines = body(list(s.body), env, ps)
        self.optloop = ["| [] => none", "| o :: rest =>"] + ind(lines, 4)
        return ["match main_optLoop %s with" % env[s.iter.id][1]] + arm("some out", ["out"]) + arm("none", cont(env, ps))

    def run(self):
        want_sig(self.fn, [])
        tries = [n for n in self.fn.body if isinstance(n, ast.Try)]
        # the try statement whose handlers translate/cli.py tabulates (`Gen.cliConfig.handlers`) is the last one
        self.conv_try = tries[-1] if tries else None
        lines = self.block(body_of(self.fn), {}, (".empty", 0, ".none"), lambda e, p: [self.outcome(p, 0)], [])
        return lines


# =================================================================================================


def emit_def(name, binders, rettype, lines, doc):
    return "/-- %s -/\ndef %s %s : %s :=\n%s\n\n" % (doc, name, binders, rettype, "\n".join(ind(lines)))


def translate(report):
    info = {"methods": {}, "untranslatable": {}}
    out_load, out_auto, out_cli = [], [], []
    available = set()

    def attempt(name, fn_, sink):
        try:
            sink.append(fn_())
            info["methods"][name] = True
            available.add(name)
        except pysrc.Untranslatable as e:  # noqa: F821
            info["untranslatable"][name] = str(e)
            sink.append("def %s_untranslatable : String := %s\n\n" % (name, lstr(str(e))))

    def need(*names):
        miss = [n for n in names if n not in available]
        if miss:
            raise U("depends on %s" % ", ".join(miss))

    def method_of(rel, cls, name):
        tree = read_tree(rel)
        body = tree.body if cls is None else pysrc.find_class(tree, cls).body  # noqa: F821
        fn = pysrc.find_func(body, name)  # noqa: F821
        if fn is None:
            raise U("%s%s not found in %s" % (cls + "." if cls else "", name, rel))
        return fn, module_bindings(tree)

    # ---- Structure / PDFFitStructure / loadStructure ----------------------------------------------
    def load_kind(kind, rel, cls, name, doc):
        def go():
            if kind.startswith("pdffit"):
                need("structure_" + name)
            fn, modenv = method_of(rel, cls, name)
            ex = LoadExec(kind, fn, modenv, available)
            lines = ex.run()
            text = emit_def(kind, ex.binders, ex.rettype, lines, doc)
            if kind == "structure_write":
                text += "/-- statements of `write` that touch only the parser object -/\ndef structure_write_ignored : List String := %s\n\n" % llist(ex.ignored)
                text += "/-- how `write` opens the file -/\ndef structure_write_open : List String := %s\n\n" % llist(ex.opened)
            return text
        attempt(kind, go, out_load)

    load_kind("structure_read", "structure.py", "Structure", "read", "`Structure.read(self, filename, format)`")
    load_kind("structure_readStr", "structure.py", "Structure", "readStr", "`Structure.readStr(self, s, format)`")
    load_kind("pdffit_read", "pdffitstructure.py", "PDFFitStructure", "read", "`PDFFitStructure.read`")
    load_kind("pdffit_readStr", "pdffitstructure.py", "PDFFitStructure", "readStr", "`PDFFitStructure.readStr`")
    load_kind("structure_write", "structure.py", "Structure", "write", "`Structure.write(self, filename, format)` acting on the file of that name")
    load_kind("structure_writeStr", "structure.py", "Structure", "writeStr", "`Structure.writeStr(self, format)`")
    load_kind("loadStructure", "__init__.py", None, "loadStructure", "`loadStructure(filename, fmt, **kw)`")

    # ---- parsers/__init__.py -------------------------------------------------------------------------
    for nm in ("inputFormats", "outputFormats"):
        def go(nm=nm):
            fn, modenv = method_of("parsers/__init__.py", None, nm)
            return emit_def(nm, "(reg : Registry)", "List String", translate_formats(fn, modenv), "`parsers.%s()` over the registry `reg`" % nm)
        attempt(nm, go, out_load)

    def go_getparser():
        fn, modenv = method_of("parsers/__init__.py", None, "getParser")
        want_sig(fn, ["format"], [], None, "kw")
        b = body_of(fn)
        g = b[0] if b else None
        if not (isinstance(g, ast.If) and un(g.test) == "format not in parser_index" and not g.orelse
                and isinstance(g.body[-1], ast.Raise) and isinstance(g.body[-1].exc, ast.Call)):
            raise U("getParser: first statement is not the unknown-format guard")
        guard = "%s -> %s" % (un(g.test), un(g.body[-1].exc.func))
        rest = "; ".join(" ".join(un(x).split()) for x in b[1:])
        return ("/-- the rejection of `parsers.getParser`, first statement of the function -/\ndef getParser_guard : String := %s\n\n"
                "/-- the rest of `parsers.getParser` (imports the format's module and calls its `getParser(**kw)`) -/\n"
                "def getParser_rest : String := %s\n\n" % (lstr(guard), lstr(rest)))
    attempt("getParser", go_getparser, out_load)

    # ---- StructureParser -----------------------------------------------------------------------------
    def go_sp_parse():
        fn, _ = method_of("parsers/structureparser.py", "StructureParser", "parse")
        return emit_def("sp_parse_lines", "(s : Dec.Str)", "List Dec.Str", translate_sp_parse(fn), "`StructureParser.parse`: the lines handed to `parseLines`")
    attempt("sp_parse_lines", go_sp_parse, out_load)

    def go_sp_tostring():
        fn, _ = method_of("parsers/structureparser.py", "StructureParser", "tostring")
        return emit_def("sp_tostring_text", "(lines : List Dec.Str)", "Dec.Str", translate_sp_tostring(fn), "`StructureParser.tostring`: the text made of the lines of `toLines`")
    attempt("sp_tostring_text", go_sp_tostring, out_load)

    def go_sp_parsefile():
        fn, modenv = method_of("parsers/structureparser.py", "StructureParser", "parseFile")
        return "/-- normalised source of `StructureParser.parseFile` -/\ndef sp_parseFile_body : String := %s\n\n" % lstr(normal_text(fn))
    attempt("sp_parseFile", go_sp_parsefile, out_load)

    # ---- P_auto ----------------------------------------------------------------------------------------
    data = {}

    def go_ordered():
        need("inputFormats")
        fn, modenv = method_of("parsers/p_auto.py", "P_auto", "_getOrderedFormats")
        lines = translate_ordered(fn, modenv, data)
        return emit_def("getOrderedFormats", "(cfg : OrderCfg) (reg : Registry) (self_filename : Option String)",
                        "Except (String × String) (List String)", lines,
                        "`P_auto._getOrderedFormats` (`self_filename` = the `filename` attribute; `inputFormats()` = `Load.inputFormats reg`)")
    attempt("getOrderedFormats", go_ordered, out_auto)

    def go_wrap():
        need("getOrderedFormats")
        fn, modenv = method_of("parsers/p_auto.py", "P_auto", "_wrapParseMethod")
        body_lines, main_lines = translate_wrap(fn, modenv, data)
        t = emit_def("wrapBody", "{R : Type} (c : AutoCfg) (parse : String → Outcome R) (%s : String) (st : WrapSt R)" % data["loopvar"],
                     "WrapStep R", body_lines, "body of the loop `for fmt in ofmts` of `P_auto._wrapParseMethod`")
        t += emit_def("wrapParseMethod", "{R : Type} (cfg : OrderCfg) (reg : Registry) (c : AutoCfg) (parse : String → Outcome R) "
                      "(self_filename : Option String) (format0 : String)", "AutoResult R", main_lines,
                      "`P_auto._wrapParseMethod`: `parse f` = what the requested method of candidate `f` does; `format0` = `self.format` before the call; "
                      "the result carries `self.format` after the call")
        return t
    attempt("wrapParseMethod", go_wrap, out_auto)

    for nm, store in (("parse", False), ("parseLines", False), ("parseFile", True)):
        def go(nm=nm, store=store):
            need("wrapParseMethod")
            fn, _ = method_of("parsers/p_auto.py", "P_auto", nm)
            lines = translate_entry(fn, nm, store)
            extra = " (p_filename : String)" if store else ""
            return emit_def("auto_" + nm, "{R : Type} (cfg : OrderCfg) (reg : Registry) (c : AutoCfg) (parse : String → Outcome R) "
                            "(self_filename : Option String)%s (format0 : String)" % extra, "AutoResult R", lines, "`P_auto.%s`" % nm)
        attempt("auto_" + nm, go, out_auto)

    def one(key, default):
        v = data.get(key, [])
        return v[0] if len(v) == 1 else default

    consts = []
    consts.append("/-- constants of `_getOrderedFormats` / `_wrapParseMethod` as written in the source (one occurrence each) -/\n")
    consts.append("def excluded_src : List String := %s\n" % llist(data.get("excluded_src", [])))
    consts.append("def skipPatterns_src : List (List String) := [%s]\n" % ", ".join(llist(x) for x in data.get("skipPatterns_src", [])))
    consts.append("def separator_src : List String := %s\n" % llist(data.get("separator_src", [])))
    consts.append("def complaint_src : List String := %s\n" % llist(data.get("complaint_src", [])))
    consts.append("def joiner_src : List String := %s\n" % llist(data.get("joiner_src", [])))
    consts.append("def header_src : List (List String) := [%s]\n" % ", ".join(llist(x) for x in data.get("header_src", [])))
    consts.append("def raised_src : List String := %s\n" % llist(data.get("raised_src", [])))
    consts.append("/-- except clauses of the per-candidate `try`: (classes, what the body does) in source order -/\n")
    consts.append("def wrap_clauses : List (List String × String) := [%s]\n" % ", ".join(
        "(%s, %s)" % (llist(n), lstr(k)) for n, k in data.get("wrap_clauses", [])))
    consts.append("/-- statements after the loop that only copy the successful parser's attributes to the `auto` parser object -/\n")
    consts.append("def wrap_after : List String := %s\n" % llist(data.get("wrap_after", [])))
    consts.append("/-- calls treated as not raising -/\ndef wrap_assumed : List String := %s\n\n" % llist(data.get("wrap_assumed", [])))
    out_auto.append("".join(consts))

    # ---- transtru ----------------------------------------------------------------------------------------
    cli_data = {}

    def go_main():
        fn, modenv = method_of("apps/transtru.py", None, "main")
        ex = CliExec(fn, modenv)
        lines = ex.run()
        cli_data.update(ex.data)
        t = ""
        if ex.optloop is not None:
            t += "/-- the loop `for o, a in opts` of `main`: `some` = the process ends there -/\ndef main_optLoop : List String → Option Outcome\n%s\n\n" % (
                "\n".join(ind(ex.optloop)))
        t += emit_def("main", "{S : Type} (lib : Lib S) (argv : List String)", "Outcome", lines,
                      "`transtru.main()` with `sys.argv[1:] = argv`; the library is `lib` (Structure.read / readStr / writeStr)")
        return t
    attempt("main", go_main, out_cli)
    out_cli.append("/-- handlers of the conversion `try` in source order: (classes, exit status, message) -/\n"
                   "def main_conv_clauses : List (List String × Nat × Msg) := [%s]\n\n" % ", ".join(
                       "(%s, %d, %s)" % (llist(n), st_, m) for n, (st_, m) in cli_data.get("conv_clauses", [])))
    for nm in ("usage", "version"):
        def go(nm=nm):
            fn, _ = method_of("apps/transtru.py", None, nm)
            return "/-- normalised source of `transtru.%s` -/\ndef %s_body : String := %s\n\n" % (nm, nm, lstr(normal_text(fn)))
        attempt(nm, go, out_cli)

    report[GROUP] = info
    hdr = ("-- GENERATED by translate/src_load.py from structure.py, pdffitstructure.py, __init__.py, parsers/__init__.py, parsers/p_auto.py,\n"
           "-- parsers/structureparser.py, apps/transtru.py of the tree under examination — do not edit\n"
           "import DS.Model.Load\nimport DS.Model.Cli\nimport DS.Model.Dec\nimport DS.Gen.Formats\n"
           "namespace DS.Src.Load\nset_option linter.unusedVariables false\n\n")
    return (hdr + "section Files\nopen DS DS.Load\n\n" + "".join(out_load) + "end Files\n\n"
            + "section Auto\nopen DS DS.Load\n\n" + WRAP_PRELUDE + "".join(out_auto) + "end Auto\n\n"
            + "section Command\nopen DS DS.Cli\n\n" + "".join(out_cli) + "end Command\n\nend DS.Src.Load\n")
