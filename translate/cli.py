"""Translator for C20: the facts of `diffpy/structure/apps/transtru.py` the Lean model is parametric in.

* run time: `inputFormats()`, `outputFormats()` of the tree under examination;
* `ast` of `main`: getopt option strings, option names → action, exit status of every branch, the
  format separator, and the handlers of the final try statement (classes, status, message kind);
* run time class hierarchy: for every exception class of a fixed universe, the first handler whose
  class tuple contains a base class of it (`issubclass`), i.e. what CPython's handler matching does.

Emits lean/DS/Gen/Formats.lean (`DS.Gen.cliConfig : DS.Cli.Config`) and a JSON report.
A shape of `main` that this translator does not recognise is reported as `unrecognised` (the check
then fails the build obligation instead of guessing).
"""
import ast
import builtins
import json
import os
import sys

VERIF = os.path.dirname(os.path.dirname(os.path.abspath(__file__)))

UNIVERSE_BUILTIN = [
    "IndexError", "KeyError", "LookupError", "OSError", "FileNotFoundError", "PermissionError", "IsADirectoryError",
    "NotADirectoryError", "ValueError", "UnicodeDecodeError", "UnicodeError", "TypeError", "ZeroDivisionError",
    "ArithmeticError", "OverflowError", "StopIteration", "AttributeError", "NameError", "UnboundLocalError",
    "SyntaxError", "RuntimeError", "NotImplementedError", "RecursionError", "AssertionError", "MemoryError",
    "ImportError", "ModuleNotFoundError", "EOFError", "BufferError", "Exception",
]


def lean_str(s):
    out = ['"']
    for ch in s:
        if ch == '"':
            out.append('\\"')
        elif ch == "\\":
            out.append("\\\\")
        elif ch == "\n":
            out.append("\\n")
        elif ch == "\t":
            out.append("\\t")
        elif 32 <= ord(ch) < 127:
            out.append(ch)
        else:
            out.append("\\u{%x}" % ord(ch))
    out.append('"')
    return "".join(out)


def lean_list(xs, f=lean_str):
    return "[" + ", ".join(f(x) for x in xs) + "]"


class Unrecognised(Exception):
    pass


def exit_status(body):
    """status of the `sys.exit(...)` found in a statement list (None when there is none)"""
    for st in body:
        for n in ast.walk(st):
            if isinstance(n, ast.Call) and isinstance(n.func, ast.Attribute) and n.func.attr == "exit" \
                    and isinstance(n.func.value, ast.Name) and n.func.value.id == "sys":
                if not n.args:
                    return 0
                a = n.args[0]
                if isinstance(a, ast.Constant) and (a.value is None or isinstance(a.value, int)):
                    return int(a.value or 0)
                raise Unrecognised("sys.exit argument %s" % ast.unparse(a))
    return None


def prints_to_stderr(body):
    n = 0
    for st in body:
        for c in ast.walk(st):
            if isinstance(c, ast.Call) and isinstance(c.func, ast.Name) and c.func.id == "print":
                if any(k.arg == "file" and ast.unparse(k.value) == "sys.stderr" for k in c.keywords):
                    n += 1
                else:
                    raise Unrecognised("handler prints to standard output: %s" % ast.unparse(c))
    return n


def handler_names(h):
    if h.type is None:
        return ["BaseException"]
    if isinstance(h.type, ast.Tuple):
        return [ast.unparse(e) for e in h.type.elts]
    return [ast.unparse(h.type)]


def analyse(path):
    src = open(path, encoding="utf-8").read()
    tree = ast.parse(src, path)
    mains = [n for n in tree.body if isinstance(n, ast.FunctionDef) and n.name == "main"]
    if len(mains) != 1:
        raise Unrecognised("no unique main()")
    main = mains[0]
    facts = {}
    tries = [n for n in main.body if isinstance(n, ast.Try)]
    if len(tries) != 3:
        raise Unrecognised("main() has %d top-level try statements, expected 3" % len(tries))
    t_getopt, t_spec, t_conv = tries
    # 1. getopt
    calls = [c for c in ast.walk(t_getopt) if isinstance(c, ast.Call) and ast.unparse(c.func) == "getopt.getopt"]
    if len(calls) != 1 or len(calls[0].args) != 3:
        raise Unrecognised("getopt call")
    c = calls[0]
    if ast.unparse(c.args[0]) != "sys.argv[1:]":
        raise Unrecognised("getopt argument list %s" % ast.unparse(c.args[0]))
    facts["shortOpts"] = ast.literal_eval(c.args[1])
    facts["longOpts"] = ast.literal_eval(c.args[2])
    if ":" in facts["shortOpts"] or any(o.endswith("=") for o in facts["longOpts"]):
        raise Unrecognised("options with arguments are not modelled")
    if len(t_getopt.handlers) != 1 or handler_names(t_getopt.handlers[0]) != ["getopt.GetoptError"]:
        raise Unrecognised("getopt handler")
    facts["stGetopt"] = exit_status(t_getopt.handlers[0].body)
    if prints_to_stderr(t_getopt.handlers[0].body) != 1:
        raise Unrecognised("getopt handler does not print exactly one message")
    # 2. option loop
    loops = [n for n in main.body if isinstance(n, ast.For)]
    if len(loops) != 1 or ast.unparse(loops[0].iter) != "opts":
        raise Unrecognised("option loop")
    node = loops[0].body[0] if len(loops[0].body) == 1 else None
    acts = {}
    while isinstance(node, ast.If):
        t = node.test
        if not (isinstance(t, ast.Compare) and len(t.ops) == 1 and isinstance(t.ops[0], ast.In) and ast.unparse(t.left) == "o"):
            raise Unrecognised("option test %s" % ast.unparse(t))
        names = list(ast.literal_eval(t.comparators[0]))
        called = [ast.unparse(x.value.func) for x in node.body if isinstance(x, ast.Expr) and isinstance(x.value, ast.Call)]
        which = "help" if "usage" in called else "version" if "version" in called else None
        st = exit_status(node.body)
        if which is None or st is None:
            raise Unrecognised("option action %r" % called)
        acts[which] = (names, st)
        node = node.orelse[0] if len(node.orelse) == 1 else None
    if set(acts) != {"help", "version"}:
        raise Unrecognised("option actions %r" % sorted(acts))
    facts["helpNames"], facts["stHelp"] = acts["help"]
    facts["versionNames"], facts["stVersion"] = acts["version"]
    # 3. no arguments
    ifs = [n for n in main.body if isinstance(n, ast.If)]
    if len(ifs) != 1 or ast.unparse(ifs[0].test) != "len(args) < 1":
        raise Unrecognised("no-argument test")
    if 'usage("brief")' not in ast.unparse(ifs[0]).replace("'", '"'):
        raise Unrecognised("no-argument action")
    facts["stNoArgs"] = exit_status(ifs[0].body)
    # 4. format specification
    splits = [c for c in ast.walk(t_spec) if isinstance(c, ast.Call) and isinstance(c.func, ast.Attribute) and c.func.attr == "split"]
    if len(splits) != 1 or ast.unparse(splits[0].func.value) != "args[0]" or len(splits[0].args) != 2 \
            or ast.literal_eval(splits[0].args[1]) != 1:
        raise Unrecognised("split of the format specification")
    facts["sep"] = ast.literal_eval(splits[0].args[0])
    asg = t_spec.body[0]
    if not (isinstance(asg, ast.Assign) and isinstance(asg.targets[0], ast.Tuple) and len(asg.targets[0].elts) == 2
            and all(isinstance(e, ast.Name) for e in asg.targets[0].elts) and asg.value is splits[0]):
        raise Unrecognised("unpacking of the format specification")
    in_name, out_name = (e.id for e in asg.targets[0].elts)
    tests = [n for n in t_spec.body if isinstance(n, ast.If)]
    want = ["%s not in inputFormats()" % in_name, "%s not in outputFormats()" % out_name]
    if [ast.unparse(n.test) for n in tests] != want:
        raise Unrecognised("format membership tests %r" % [ast.unparse(n.test) for n in tests])
    facts["stBadIn"] = exit_status(tests[0].body)
    facts["stBadOut"] = exit_status(tests[1].body)
    if prints_to_stderr(tests[0].body) != 1 or prints_to_stderr(tests[1].body) != 1:
        raise Unrecognised("format test messages")
    if len(t_spec.handlers) != 1 or handler_names(t_spec.handlers[0]) != ["ValueError"]:
        raise Unrecognised("format specification handler")
    facts["stNoSep"] = exit_status(t_spec.handlers[0].body)
    if prints_to_stderr(t_spec.handlers[0].body) != 1:
        raise Unrecognised("format specification handler message")
    # 5. conversion
    body = [ast.unparse(s) for s in t_conv.body]
    facts["convert_body"] = body
    # shape (local names are free): F = args[1]; S = Structure(); if <F|args[1]> == '-': S.readStr(sys.stdin.read(), IN)
    # else: S.read(F, IN); sys.stdout.write(S.writeStr(OUT))
    st = list(t_conv.body)
    if not (len(st) == 4 and isinstance(st[0], ast.Assign) and ast.unparse(st[0].value) == "args[1]" and isinstance(st[0].targets[0], ast.Name)):
        raise Unrecognised("conversion: first statement is not `<name> = args[1]`: %r" % body[:1])
    fvar = st[0].targets[0].id
    if not (isinstance(st[1], ast.Assign) and ast.unparse(st[1].value) == "Structure()" and isinstance(st[1].targets[0], ast.Name)):
        raise Unrecognised("conversion: second statement is not `<name> = Structure()`")
    svar = st[1].targets[0].id
    cond = st[2]
    ok_if = (isinstance(cond, ast.If) and ast.unparse(cond.test) in ("args[1] == '-'", "%s == '-'" % fvar)
             and [ast.unparse(x) for x in cond.body] == ["%s.readStr(sys.stdin.read(), %s)" % (svar, in_name)]
             and [ast.unparse(x) for x in cond.orelse] in (["%s.read(%s, %s)" % (svar, fvar, in_name)], ["%s.read(args[1], %s)" % (svar, in_name)]))
    if not ok_if:
        raise Unrecognised("conversion: read step differs from the modelled one: %r" % body[2])
    if ast.unparse(st[3]) != "sys.stdout.write(%s.writeStr(%s))" % (svar, out_name):
        raise Unrecognised("conversion: write step differs from the modelled one: %r" % body[3])
    hs = []
    for h in t_conv.handlers:
        txt = ast.unparse(ast.Module(body=h.body, type_ignores=[]))
        prints = [c for c in ast.walk(ast.Module(body=h.body, type_ignores=[])) if isinstance(c, ast.Call) and ast.unparse(c.func) == "print"]
        arg = prints[0].args[0] if len(prints) == 1 and len(prints[0].args) == 1 else None
        msg = None
        if isinstance(arg, ast.Constant) and isinstance(arg.value, str) and "\n" not in arg.value:
            msg = "noFile"
        elif isinstance(arg, ast.BinOp) and isinstance(arg.op, ast.Mod) and isinstance(arg.left, ast.Constant) and "\n" not in str(arg.left.value) \
                and h.name is not None:
            r = ast.unparse(arg.right)
            if r == "(%s, %s.strerror)" % (fvar, h.name):
                msg = "ioStrerror"
            elif r == "(%s, %s)" % (fvar, h.name):
                msg = "excStr"
        st = exit_status(h.body)
        if msg is None or st is None or prints_to_stderr(h.body) != 1:
            raise Unrecognised("conversion handler %s" % txt)
        hs.append({"classes": handler_names(h), "status": st, "msg": msg})
    facts["handlers"] = hs
    if t_conv.orelse or t_conv.finalbody:
        raise Unrecognised("else/finally on the conversion try")
    for n in list(main.body):
        if isinstance(n, (ast.While, ast.With, ast.FunctionDef)):
            raise Unrecognised("unexpected statement in main: %s" % type(n).__name__)
    return facts


def resolve(facts, repo):
    """Run-time part: format lists and handler resolution through the class hierarchy."""
    src = os.path.join(repo, "src")
    if src not in sys.path:
        sys.path.insert(0, src)
    import diffpy.structure.apps.transtru as tt
    import diffpy.structure.structureerrors as se
    from diffpy.structure.parsers import inputFormats, outputFormats

    assert os.path.realpath(tt.__file__).startswith(os.path.realpath(src)), tt.__file__
    facts["inFormats"] = list(inputFormats())
    facts["outFormats"] = list(outputFormats())
    uni = {n: getattr(builtins, n) for n in UNIVERSE_BUILTIN}
    for n in dir(se):
        o = getattr(se, n)
        if isinstance(o, type) and issubclass(o, BaseException):
            uni[n] = o
    try:
        from CifFile.yapps3_compiled_rt import YappsSyntaxError
        uni["YappsSyntaxError"] = YappsSyntaxError
    except Exception:
        pass
    try:
        from CifFile.StarFile import StarError
        uni["StarError"] = StarError
    except Exception:
        pass

    def cls_of(name):
        if hasattr(tt, name.split(".")[0]):
            o = tt
            for part in name.split("."):
                o = getattr(o, part)
            return o
        return getattr(builtins, name)

    table = {}
    for n, c in sorted(uni.items()):
        table[n] = None
        for h in facts["handlers"]:
            if any(issubclass(c, cls_of(x)) for x in h["classes"]):
                table[n] = {"status": h["status"], "msg": h["msg"]}
                break
    facts["handler_table"] = table
    facts["mro"] = {n: [b.__name__ for b in c.__mro__] for n, c in uni.items()}
    return facts


def emit(facts, gen_dir):
    def h(v):
        return "none" if v is None else "some ⟨%d, .%s⟩" % (v["status"], v["msg"])

    if facts.get("unrecognised"):
        # a configuration about which nothing can be proved: every status 99
        body = ("def cliConfig : Config := { inFormats := [], outFormats := [], shortOpts := [], longOpts := [], helpNames := [], "
                "versionNames := [], stGetopt := 99, stHelp := 99, stVersion := 99, stNoArgs := 99, stBadIn := 99, stBadOut := 99, "
                "stNoSep := 99, sep := [], handlers := [] }\n/-- %s -/\ndef cliRecognised : Bool := false" % facts["unrecognised"].replace("-/", "- /"))
    else:
        body = "\n".join([
            "def cliConfig : Config :=",
            "  { inFormats := %s" % lean_list(facts["inFormats"]),
            "    outFormats := %s" % lean_list(facts["outFormats"]),
            "    shortOpts := %s.toList" % lean_str(facts["shortOpts"]),
            "    longOpts := %s" % lean_list(facts["longOpts"]),
            "    helpNames := %s" % lean_list(facts["helpNames"]),
            "    versionNames := %s" % lean_list(facts["versionNames"]),
            "    stGetopt := %d" % facts["stGetopt"],
            "    stHelp := %d" % facts["stHelp"],
            "    stVersion := %d" % facts["stVersion"],
            "    stNoArgs := %d" % facts["stNoArgs"],
            "    stBadIn := %d" % facts["stBadIn"],
            "    stBadOut := %d" % facts["stBadOut"],
            "    stNoSep := %d" % facts["stNoSep"],
            "    sep := %s.toList" % lean_str(facts["sep"]),
            "    handlers := [",
            ",\n".join("      (%s, %s)" % (lean_str(n), h(v)) for n, v in sorted(facts["handler_table"].items())),
            "    ] }",
            "def cliRecognised : Bool := true",
        ])
    text = ("import DS.Model.Cli\n/-! GENERATED by translate/cli.py from apps/transtru.py and the format registry — do not edit. -/\n"
            "namespace DS.Gen\nopen DS.Cli\n" + body + "\nend DS.Gen\n")
    os.makedirs(gen_dir, exist_ok=True)
    path = os.path.join(gen_dir, "Formats.lean")
    try:
        old = open(path, encoding="utf-8").read()
    except OSError:
        old = None
    if old != text:
        with open(path, "w", encoding="utf-8") as f:
            f.write(text)
    with open(os.path.join(gen_dir, "cli_report.json"), "w") as f:
        json.dump(facts, f, indent=1, default=str)


def main(gen_dir=None, repo=None):
    repo = repo or os.environ.get("VERIF_REPO", "/repo")
    gen_dir = gen_dir or os.path.join(VERIF, "lean", "DS", "Gen")
    try:
        facts = analyse(os.path.join(repo, "src", "diffpy", "structure", "apps", "transtru.py"))
        facts = resolve(facts, repo)
    except Unrecognised as e:
        facts = {"unrecognised": str(e)}
    emit(facts, gen_dir)
    return facts


if __name__ == "__main__":
    f = main()
    if f.get("unrecognised"):
        print("transtru.main not recognised:", f["unrecognised"])
    else:
        print("transtru: %d input / %d output formats, handlers %r" % (len(f["inFormats"]), len(f["outFormats"]), f["handlers"]))
