"""Source tie of the container methods of `Structure` (property C08).

Plug-in of translate/pysrc.py (the module global `pysrc` is injected).  Reads the *current*
`src/diffpy/structure/structure.py` with `ast` and records, for every public container method,

* the parameters after `self` with their defaults as written, and the default of `copy=` in particular;
* `links`     - every statement (or `setattr` call) that stores into a `.lattice` / `._lattice` attribute or a
                `["lattice"]` item, in source order, as written;
* `listCalls` - the `list` primitives the method delegates to through `super(Structure, self).<m>(<args>)`,
                in source order: (primitive name, argument text);
* `calls`     - the full call skeleton in source order: the `super()` calls (`list.<m>(…)`), the calls of other
                container methods on `self` / a local structure, the copy constructors (`Atom(…)`, `Lattice(…)`,
                `Structure(…)`, `copymod.copy(…)`, `copymod.deepcopy(…)`), slice stores (`STORE self[:] = …`), item
                loads on `self` (`LOAD self[…]`) and augmented assignments;
* `body`      - all statements after the docstring, normalised by `ast.unparse`, one line per list entry.

`DS/Props/SrcContainer.lean` compares these data with the parameters of the World model (`DS.Model.World.planG`:
copy-flag defaults, which `Edit` an operation uses, that incoming atoms are linked to the target's lattice) and
with the expected statement lists (`rfl`).  The matching is strict: anything outside the supported shape (decorators,
keyword-only parameters, a method that is missing, a `lattice` store in an unexpected syntactic position …)
yields `def <name>_untranslatable : String`, so the tie theorem cannot be stated -> broken tie.
"""
import ast
import os

GROUP = "container"
OUTFILE = "SrcContainer.lean"

# methods of the task list that the class is expected to define …
METHODS = ["append", "insert", "extend", "__getitem__", "__setitem__", "__add__", "__iadd__", "__sub__", "__isub__",
           "__mul__", "__imul__", "copy", "__copy__", "__setstate__", "_set_lattice", "addNewAtom", "tolist",
           "__emptySharedStructure", "__init__"]
# … and names whose *absence* is part of the model (inherited `list` behaviour / default pickling protocol)
EXPECT_ABSENT = ["__delitem__", "__getstate__", "__reduce__", "__reduce_ex__", "__deepcopy__", "__getnewargs__",
                 "__getnewargs_ex__", "__new__", "__iter__", "__len__", "__contains__", "__eq__", "__hash__",
                 "pop", "remove", "reverse", "sort", "clear", "index", "count", "__reversed__"]
CONTAINER_CALLS = {"append", "insert", "extend", "__setitem__", "__getitem__", "copy", "tolist", "__copy__",
                   "__emptySharedStructure", "_Structure__emptySharedStructure", "update", "read"}
CTOR_NAMES = {"Atom", "Lattice", "Structure"}


def lname(name):
    """Lean identifier of a method: `append` -> m_append, `__copy__` -> d_copy, `__emptySharedStructure` -> p_…,
    `_set_lattice` -> u_set_lattice"""
    if name.startswith("__") and name.endswith("__") and len(name) > 4:
        return "d_" + name[2:-2]
    if name.startswith("__"):
        return "p_" + name[2:]
    if name.startswith("_"):
        return "u_" + name[1:]
    return "m_" + name


def is_super_call(node):
    """`super(Structure, self).<m>(…)` -> m"""
    if not (isinstance(node, ast.Call) and isinstance(node.func, ast.Attribute)):
        return None
    rcv = node.func.value
    if isinstance(rcv, ast.Call) and isinstance(rcv.func, ast.Name) and rcv.func.id == "super":
        args = [ast.unparse(a) for a in rcv.args]
        if args not in (["Structure", "self"], []) or rcv.keywords:
            raise pysrc.Untranslatable("super() with arguments %r" % args)
        return node.func.attr
    return None


def call_args(node):
    parts = [ast.unparse(a) for a in node.args] + ["%s=%s" % (k.arg, ast.unparse(k.value)) if k.arg else "**" + ast.unparse(k.value)
                                                    for k in node.keywords]
    return ", ".join(parts)


def method_facts(fn):
    if fn.decorator_list:
        raise pysrc.Untranslatable("decorated: %s" % ", ".join(ast.unparse(d) for d in fn.decorator_list))
    a = fn.args
    if a.kwonlyargs or a.posonlyargs:
        raise pysrc.Untranslatable("keyword-only / positional-only parameters")
    names = [x.arg for x in a.args]
    if not names or names[0] != "self":
        raise pysrc.Untranslatable("first parameter is not self")
    defaults = [None] * (len(names) - len(a.defaults)) + list(a.defaults)
    params = [(n, "" if d is None else ast.unparse(d)) for n, d in zip(names[1:], defaults[1:])]
    if a.vararg:
        params.append(("*" + a.vararg.arg, ""))
    if a.kwarg:
        params.append(("**" + a.kwarg.arg, ""))
    copy_default = dict(params).get("copy", "")
    body = list(fn.body)
    if body and isinstance(body[0], ast.Expr) and isinstance(body[0].value, ast.Constant) and isinstance(body[0].value.value, str):
        body = body[1:]
    lines = []
    for st in body:
        lines += [ln for ln in ast.unparse(st).split("\n") if ln.strip()]
    # walk in source order
    nodes = []
    for st in body:
        nodes += list(ast.walk(st))
    nodes.sort(key=lambda n: (getattr(n, "lineno", 0), getattr(n, "col_offset", 0)))
    links, list_calls, calls = [], [], []
    stmts = [n for n in nodes if isinstance(n, ast.stmt)]
    for st in stmts:
        tg = []
        if isinstance(st, ast.Assign):
            tg = st.targets
        elif isinstance(st, (ast.AugAssign, ast.AnnAssign)):
            tg = [st.target]
        for t in tg:
            for sub in ast.walk(t):
                if isinstance(sub, ast.Attribute) and sub.attr in ("lattice", "_lattice"):
                    if not isinstance(st, ast.Assign) or len(st.targets) != 1 or sub is not t:
                        raise pysrc.Untranslatable("lattice store in `%s`" % ast.unparse(st))
                    links.append(((st.lineno, st.col_offset), ast.unparse(st)))
                elif isinstance(sub, ast.Subscript) and isinstance(sub.slice, ast.Constant) and sub.slice.value == "lattice":
                    if not isinstance(st, ast.Assign) or len(st.targets) != 1 or sub is not t:
                        raise pysrc.Untranslatable("lattice item store in `%s`" % ast.unparse(st))
                    links.append(((st.lineno, st.col_offset), ast.unparse(st)))
    for n in nodes:
        if isinstance(n, ast.Call) and isinstance(n.func, ast.Name) and n.func.id in ("setattr", "delattr"):
            if len(n.args) >= 2 and isinstance(n.args[1], ast.Constant) and n.args[1].value in ("lattice", "_lattice"):
                links.append(((n.lineno, n.col_offset), ast.unparse(n)))
            elif len(n.args) < 2 or not isinstance(n.args[1], ast.Constant):
                raise pysrc.Untranslatable("setattr with a computed name: `%s`" % ast.unparse(n))
        if isinstance(n, ast.Delete):
            raise pysrc.Untranslatable("del statement `%s`" % ast.unparse(n))
    links = [t for _, t in sorted(links)]
    for n in nodes:
        if isinstance(n, ast.Call):
            m = is_super_call(n)
            if m is not None:
                list_calls.append((m, call_args(n)))
                calls.append("list.%s(%s)" % (m, call_args(n)))
            elif isinstance(n.func, ast.Attribute) and n.func.attr in CONTAINER_CALLS:
                calls.append(ast.unparse(n))
            elif isinstance(n.func, ast.Name) and n.func.id in CTOR_NAMES:
                calls.append(ast.unparse(n))
            elif isinstance(n.func, ast.Attribute) and isinstance(n.func.value, ast.Name) and n.func.value.id in ("copymod", "copy") \
                    and n.func.attr in ("copy", "deepcopy"):
                calls.append(ast.unparse(n))
            elif isinstance(n.func, ast.Attribute) and isinstance(n.func.value, ast.Name) and n.func.value.id == "list":
                calls.append(ast.unparse(n))
        elif isinstance(n, ast.Assign) and any(isinstance(t, ast.Subscript) and isinstance(t.value, ast.Name) for t in n.targets):
            calls.append("STORE " + ast.unparse(n))
        elif isinstance(n, ast.AugAssign):
            calls.append("AUG " + ast.unparse(n))
        elif isinstance(n, ast.Subscript) and isinstance(n.ctx, ast.Load) and isinstance(n.value, ast.Name) and n.value.id == "self":
            calls.append("LOAD " + ast.unparse(n))
    return {"params": params, "copyDefault": copy_default, "links": links, "listCalls": list_calls, "calls": calls, "body": lines}


def lean_list(xs):
    return "[" + ", ".join(xs) + "]"


def translate(report):
    path = os.path.join(pysrc.REPO, "src", "diffpy", "structure", "structure.py")
    try:
        text = open(path, encoding="utf-8").read()
        tree = ast.parse(text)
    except (OSError, SyntaxError, ValueError) as e:   # unreadable source = broken tie, never a crash of the run
        raise pysrc.Untranslatable("structure.py cannot be read: %s: %s" % (type(e).__name__, e))
    S = pysrc.lean_str
    info = {"methods": {}, "untranslatable": {}}
    out = []
    cls = pysrc.find_class(tree, "Structure")
    if cls is None:
        raise pysrc.Untranslatable("class Structure not found")
    bases = [ast.unparse(b) for b in cls.bases]
    funcs = {}
    dup = set()
    for b in cls.body:
        if isinstance(b, (ast.FunctionDef, ast.AsyncFunctionDef)):
            if b.name in funcs:
                dup.add(b.name)
            funcs[b.name] = b
    rows = []
    for name in METHODS:
        try:
            fn = funcs.get(name)
            if fn is None:
                raise pysrc.Untranslatable("method %s is not defined in class Structure" % name)
            if name in dup:
                raise pysrc.Untranslatable("method %s is defined twice" % name)
            if isinstance(fn, ast.AsyncFunctionDef):
                raise pysrc.Untranslatable("async method")
            try:
                f = method_facts(fn)
            except pysrc.Untranslatable:
                raise
            except Exception as e:  # noqa: BLE001  (an AST shape the extractor does not know: not silently approximated)
                raise pysrc.Untranslatable("%s: %s" % (type(e).__name__, e))
            out.append("def %s : Method :=\n  { name := %s,\n    params := %s,\n    copyDefault := %s,\n    links := %s,\n"
                       "    listCalls := %s,\n    calls := %s,\n    body := %s }\n\n" % (
                           lname(name), S(name),
                           lean_list("(%s, %s)" % (S(p), S(d)) for p, d in f["params"]), S(f["copyDefault"]),
                           lean_list(S(x) for x in f["links"]),
                           lean_list("(%s, %s)" % (S(m), S(a)) for m, a in f["listCalls"]),
                           lean_list(S(x) for x in f["calls"]),
                           "[" + ",\n      ".join(S(x) for x in f["body"]) + "]"))
            rows.append("⟨%s, %s, %s, %s⟩" % (S(name), S(f["copyDefault"]), lean_list(S(m) for m, _ in f["listCalls"]),
                                               "true" if f["links"] else "false"))
            info["methods"][name] = True
        except pysrc.Untranslatable as e:
            info["untranslatable"][name] = str(e)
            out.append("def %s_untranslatable : String := %s\n\n" % (lname(name), S(str(e))))
    # what the class does NOT define (inherited list behaviour, default pickling)
    bound = set(funcs)
    for b in cls.body:
        if isinstance(b, ast.Assign):
            for t in b.targets:
                bound |= {x.id for x in ast.walk(t) if isinstance(x, ast.Name)}
        elif isinstance(b, (ast.AnnAssign, ast.AugAssign)) and isinstance(b.target, ast.Name):
            bound.add(b.target.id)
        elif isinstance(b, ast.ClassDef):
            bound.add(b.name)
    absent = [n for n in EXPECT_ABSENT if n not in bound]
    # class-level assignments that matter: `_lattice = None`, `__rmul__ = __mul__`, `lattice = property(...)`
    assigns = []
    for b in cls.body:
        if isinstance(b, ast.Assign) and len(b.targets) == 1 and isinstance(b.targets[0], ast.Name):
            t = b.targets[0].id
            if t in ("_lattice", "lattice") or (t.startswith("__") and t.endswith("__")):
                v = b.value
                if isinstance(v, ast.Call) and isinstance(v.func, ast.Name) and v.func.id == "property":
                    kw = [k.arg for k in v.keywords]
                    if kw not in ([], ["doc"]) or any(not isinstance(k.value, ast.Constant) for k in v.keywords):
                        assigns.append("%s = %s" % (t, ast.unparse(v)))
                    else:
                        assigns.append("%s = property(%s)" % (t, ", ".join(ast.unparse(x) for x in v.args)))
                else:
                    assigns.append("%s = %s" % (t, ast.unparse(v)))
    out.append("/-- base classes of `Structure` -/\ndef bases : List String := %s\n\n" % lean_list(S(b) for b in bases))
    out.append("/-- names of this list that `Structure` does not define (inherited from `list` / `object`) -/\n"
               "def absent : List String := %s\n\n" % lean_list(S(x) for x in absent))
    out.append("/-- class-level assignments to `_lattice`, `lattice` and dunder names -/\ndef classAssigns : List String := %s\n\n"
               % lean_list(S(x) for x in assigns))
    out.append("/-- (method, default of `copy=`, list primitives called through `super()`, stores a lattice reference) -/\n"
               "def table : List Row := [\n  %s]\n\n" % ",\n  ".join(rows))
    report[GROUP] = info
    hdr = ("-- GENERATED by translate/src_container.py from src/diffpy/structure/structure.py — do not edit\n"
           "namespace DS.Src.Container\n\n"
           "structure Method where\n  name : String\n  params : List (String × String)\n  copyDefault : String\n"
           "  links : List String\n  listCalls : List (String × String)\n  calls : List String\n  body : List String\n"
           "  deriving DecidableEq, Repr\n\n"
           "structure Row where\n  method : String\n  copyDefault : String\n  primitives : List String\n  storesLattice : Bool\n"
           "  deriving DecidableEq, Repr\n\n")
    return hdr + "".join(out) + "end DS.Src.Container\n"
