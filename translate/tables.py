#!/venv/bin/python
"""Translator: /repo space-group tables -> Lean data + certificates (DS/Gen/D*.lean, T*.lean).

Run with the repository under VERIF_REPO (default /repo) importable.  Untrusted helper
computations (generators, Cayley rows, parents, inverses) are only certificates: the Lean
kernel re-checks them (`checkSG`).  The translator itself (float -> integer conversion,
reading of metadata) is part of the trusted base; it is cross-checked against an `ast`
reading of the table source files (see `ast_crosscheck`).
"""
import ast
import json
import os
import sys
from fractions import Fraction

REPO = os.environ.get("VERIF_REPO", "/repo")
sys.path.insert(0, os.path.join(REPO, "src"))

NSHARDS = 64


def load_tables():
    import importlib

    sgs = importlib.import_module("diffpy.structure.spacegroups")
    return sgs


def op_to_ints(op):
    """Return (12 ints) or raise ValueError naming the offending entry."""
    import numpy

    R = numpy.asarray(op.R, dtype=float)
    t = numpy.asarray(op.t, dtype=float)
    if R.shape != (3, 3) or t.shape != (3,):
        raise ValueError("shape R=%r t=%r" % (R.shape, t.shape))
    out = []
    for i in range(3):
        for j in range(3):
            v = float(R[i, j])
            if v != round(v):
                raise ValueError("non-integer rotation entry R[%d,%d]=%r" % (i, j, v))
            out.append(int(round(v)))
    for i in range(3):
        v = float(t[i])
        k = round(v * 24)
        # the nearest double of k/24 must be v itself (tables use k/24 literals)
        if abs(v * 24 - k) > 1e-9:
            raise ValueError("translation t[%d]=%r is not a multiple of 1/24" % (i, v))
        out.append(int(k))
    return tuple(out)


def comp(a, b):
    r = [0] * 9
    for i in range(3):
        for j in range(3):
            r[3 * i + j] = sum(a[3 * i + k] * b[3 * k + j] for k in range(3))
    t = [(sum(a[3 * i + k] * b[9 + k] for k in range(3)) + a[9 + i]) % 24 for i in range(3)]
    return tuple(r + t)


ONE = (1, 0, 0, 0, 1, 0, 0, 0, 1, 0, 0, 0)


def det(a):
    return (
        a[0] * (a[4] * a[8] - a[5] * a[7])
        - a[1] * (a[3] * a[8] - a[5] * a[6])
        + a[2] * (a[3] * a[7] - a[4] * a[6])
    )


def key(a):
    k = 0
    for v in reversed(a[9:]):
        k = k * 24 + v
    for v in reversed(a[:9]):
        k = k * 3 + (v + 1)
    return k


def make_cert(ops):
    """Untrusted certificate; best effort even when `ops` is not a group."""
    n = len(ops)
    index = {}
    for i, o in enumerate(ops):
        index.setdefault(o, i)
    gens = []
    rank = [None] * n
    par = [(0, 0)] * n
    # BFS closure under right multiplication by gens, adding generators as needed
    for i0, o in enumerate(ops):
        if o == ONE and rank[i0] is None:
            rank[i0] = 0
    reached = [i for i in range(n) if rank[i] is not None]

    def bfs(frontier):
        while frontier:
            nxt = []
            for i in frontier:
                for j, g in enumerate(gens):
                    c = comp(ops[i], g)
                    k = index.get(c)
                    if k is not None and rank[k] is None:
                        rank[k] = rank[i] + 1
                        par[k] = (i, j)
                        nxt.append(k)
            frontier = nxt

    for i in range(n):
        if rank[i] is None:
            gens.append(ops[i])
            bfs([k for k in range(n) if rank[k] is not None])
            # duplicates of an op never get a rank via index; give them their twin's data
            if rank[i] is None:
                rank[i] = 0
    cay = []
    for o in ops:
        cay.append([index.get(comp(o, g), 0) for g in gens])
    inv = []
    for o in ops:
        k = 0
        for j, p in enumerate(ops):
            if comp(o, p) == ONE:
                k = j
                break
        inv.append(k)
    return dict(gens=gens, cay=cay, par=par, rank=[r or 0 for r in rank], inv=inv)


# ---- Python mirror of the Lean checks (predicts which theorem to emit) -----------------

CLASS_TABLE = [
    ("1", [1, 0, 0, 0, 0, 0, 0, 0, 0, 0], "TRICLINIC", 1, 1),
    ("-1", [1, 0, 0, 0, 0, 1, 0, 0, 0, 0], "TRICLINIC", 2, 2),
    ("2", [1, 1, 0, 0, 0, 0, 0, 0, 0, 0], "MONOCLINIC", 3, 5),
    ("m", [1, 0, 0, 0, 0, 0, 1, 0, 0, 0], "MONOCLINIC", 6, 9),
    ("2/m", [1, 1, 0, 0, 0, 1, 1, 0, 0, 0], "MONOCLINIC", 10, 15),
    ("222", [1, 3, 0, 0, 0, 0, 0, 0, 0, 0], "ORTHORHOMBIC", 16, 24),
    ("mm2", [1, 1, 0, 0, 0, 0, 2, 0, 0, 0], "ORTHORHOMBIC", 25, 46),
    ("mmm", [1, 3, 0, 0, 0, 1, 3, 0, 0, 0], "ORTHORHOMBIC", 47, 74),
    ("4", [1, 1, 0, 2, 0, 0, 0, 0, 0, 0], "TETRAGONAL", 75, 80),
    ("-4", [1, 1, 0, 0, 0, 0, 0, 0, 2, 0], "TETRAGONAL", 81, 82),
    ("4/m", [1, 1, 0, 2, 0, 1, 1, 0, 2, 0], "TETRAGONAL", 83, 88),
    ("422", [1, 5, 0, 2, 0, 0, 0, 0, 0, 0], "TETRAGONAL", 89, 98),
    ("4mm", [1, 1, 0, 2, 0, 0, 4, 0, 0, 0], "TETRAGONAL", 99, 110),
    ("-42m", [1, 3, 0, 0, 0, 0, 2, 0, 2, 0], "TETRAGONAL", 111, 122),
    ("4/mmm", [1, 5, 0, 2, 0, 1, 5, 0, 2, 0], "TETRAGONAL", 123, 142),
    ("3", [1, 0, 2, 0, 0, 0, 0, 0, 0, 0], "TRIGONAL", 143, 146),
    ("-3", [1, 0, 2, 0, 0, 1, 0, 2, 0, 0], "TRIGONAL", 147, 148),
    ("32", [1, 3, 2, 0, 0, 0, 0, 0, 0, 0], "TRIGONAL", 149, 155),
    ("3m", [1, 0, 2, 0, 0, 0, 3, 0, 0, 0], "TRIGONAL", 156, 161),
    ("-3m", [1, 3, 2, 0, 0, 1, 3, 2, 0, 0], "TRIGONAL", 162, 167),
    ("6", [1, 1, 2, 0, 2, 0, 0, 0, 0, 0], "HEXAGONAL", 168, 173),
    ("-6", [1, 0, 2, 0, 0, 0, 1, 0, 0, 2], "HEXAGONAL", 174, 174),
    ("6/m", [1, 1, 2, 0, 2, 1, 1, 2, 0, 2], "HEXAGONAL", 175, 176),
    ("622", [1, 7, 2, 0, 2, 0, 0, 0, 0, 0], "HEXAGONAL", 177, 182),
    ("6mm", [1, 1, 2, 0, 2, 0, 6, 0, 0, 0], "HEXAGONAL", 183, 186),
    ("-6m2", [1, 3, 2, 0, 0, 0, 4, 0, 0, 2], "HEXAGONAL", 187, 190),
    ("6/mmm", [1, 7, 2, 0, 2, 1, 7, 2, 0, 2], "HEXAGONAL", 191, 194),
    ("23", [1, 3, 8, 0, 0, 0, 0, 0, 0, 0], "CUBIC", 195, 199),
    ("m-3", [1, 3, 8, 0, 0, 1, 3, 8, 0, 0], "CUBIC", 200, 206),
    ("432", [1, 9, 8, 6, 0, 0, 0, 0, 0, 0], "CUBIC", 207, 214),
    ("-43m", [1, 3, 8, 0, 0, 0, 6, 0, 6, 0], "CUBIC", 215, 220),
    ("m-3m", [1, 9, 8, 6, 0, 1, 9, 8, 6, 0], "CUBIC", 221, 230),
]

CENTRING = {
    "P": [[(0, 0, 0)]],
    "A": [[(0, 0, 0), (0, 12, 12)]],
    "B": [[(0, 0, 0), (12, 0, 12)]],
    "C": [[(0, 0, 0), (12, 12, 0)]],
    "I": [[(0, 0, 0), (12, 12, 12)]],
    "F": [[(0, 0, 0), (0, 12, 12), (12, 0, 12), (12, 12, 0)]],
    "R": [[(0, 0, 0)], [(0, 0, 0), (16, 8, 8), (8, 16, 16)]],
    "H": [[(0, 0, 0), (16, 8, 8), (8, 16, 16)]],
}

TYPES = [(1, 3), (1, -1), (1, 0), (1, 1), (1, 2), (-1, -3), (-1, 1), (-1, 0), (-1, -1), (-1, -2)]


def is_trans(a):
    return a[:9] == ONE[:9]


def census(ops):
    return [sum(1 for a in ops if det(a) == d and a[0] + a[4] + a[8] == tr) for d, tr in TYPES]


def mirror_checks(sg, ops, cert):
    """Return dict component -> (bool, detail)."""
    n = len(ops)
    res = {}
    # group
    why = None
    if not ops or ops[0] != ONE:
        why = "identity is not the first operation"
    if why is None:
        for i, a in enumerate(ops):
            if not (all(-1 <= v <= 1 for v in a[:9]) and all(0 <= v < 24 for v in a[9:])):
                why = "op %d out of range" % i
                break
    if why is None:
        ks = [key(a) for a in ops]
        if len(set(ks)) != n:
            seen = {}
            for i, k in enumerate(ks):
                if k in seen:
                    why = "op %d duplicates op %d" % (i, seen[k])
                    break
                seen[k] = i
    if why is None:
        for i, a in enumerate(ops):
            if det(a) not in (1, -1):
                why = "op %d has det %d" % (i, det(a))
                break
    if why is None:
        gens = cert["gens"]
        for i, a in enumerate(ops):
            for j, g in enumerate(gens):
                k = cert["cay"][i][j]
                if not (k < n and ops[k] == comp(a, g)):
                    why = "op %d composed with generator %d is not in the table" % (i, j)
                    break
            if why:
                break
    if why is None:
        for i, a in enumerate(ops):
            p, j = cert["par"][i]
            if a == ONE:
                continue
            if not (p < n and j < len(cert["gens"]) and a == comp(ops[p], cert["gens"][j]) and cert["rank"][p] < cert["rank"][i]):
                why = "op %d not generated" % i
                break
    if why is None:
        for i, a in enumerate(ops):
            k = cert["inv"][i]
            if not (k < n and comp(a, ops[k]) == ONE):
                why = "op %d has no inverse in the table" % i
                break
    res["group"] = (why is None, why)
    # counts
    nc = sum(1 for a in ops if is_trans(a))
    why = None
    if n != sg.num_sym_equiv:
        why = "len(symop_list)=%d but num_sym_equiv=%r" % (n, sg.num_sym_equiv)
    elif not (isinstance(sg.num_primitive_sym_equiv, int) and nc * sg.num_primitive_sym_equiv == sg.num_sym_equiv):
        why = "num_primitive_sym_equiv=%r but %d ops / %d centring translations" % (sg.num_primitive_sym_equiv, n, nc)
    res["counts"] = (why is None, why)
    # centring
    why = None
    c1 = sg.short_name[:1]
    c2 = sg.pdb_name[:1]
    cv = sorted(a[9:] for a in ops if is_trans(a))
    if c1 != c2:
        why = "short_name letter %r differs from pdb_name letter %r" % (c1, c2)
    elif c1 not in CENTRING:
        why = "unknown centring letter %r" % c1
    elif not any(sorted(e) == cv and len(e) == len(cv) for e in CENTRING[c1]):
        why = "centring letter %r but pure translations (24ths) %r" % (c1, cv)
    res["centring"] = (why is None, why)
    # class
    why = None
    itn = sg.number % 1000
    row = [r for r in CLASS_TABLE if r[3] <= itn <= r[4]]
    if not row:
        why = "number %% 1000 = %d outside 1..230" % itn
    else:
        row = row[0]
        if row[2] != sg.crystal_system:
            why = "crystal_system %r but number %d belongs to %s" % (sg.crystal_system, itn, row[2])
        elif census(ops) != [c * nc for c in row[1]]:
            why = "rotation-type census %r does not match class %s of number %d" % (census(ops), row[0], itn)
    res["class"] = (why is None, why)
    return res


# ---- ast cross-check -------------------------------------------------------------------

def ast_crosscheck(sgs_mod):
    """Compare runtime SpaceGroup objects with the literal constructor calls in the sources.

    Returns list of discrepancy strings (empty when consistent)."""
    out = []
    base = os.path.join(REPO, "src", "diffpy", "structure")
    lits = {}
    for fn in ("mmlibspacegroups.py", "sgtbxspacegroups.py"):
        tree = ast.parse(open(os.path.join(base, fn)).read())
        for node in tree.body:
            if isinstance(node, ast.Assign) and isinstance(node.value, ast.Call):
                f = node.value.func
                if isinstance(f, ast.Name) and f.id == "SpaceGroup":
                    kw = {k.arg: k.value for k in node.value.keywords}
                    name = node.targets[0].id
                    d = {}
                    for k in ("number", "num_sym_equiv", "num_primitive_sym_equiv", "short_name", "point_group_name", "crystal_system", "pdb_name"):
                        if k in kw and isinstance(kw[k], ast.Constant):
                            d[k] = kw[k].value
                    sl = kw.get("symop_list")
                    ops = []
                    if isinstance(sl, ast.List):
                        for e in sl.elts:
                            if isinstance(e, ast.Call) and len(e.args) == 2 and all(isinstance(a, ast.Name) for a in e.args):
                                ops.append((e.args[0].id, e.args[1].id))
                            else:
                                ops.append(None)
                    d["ops"] = ops
                    lits[name] = d
    import diffpy.structure.spacegroupmod as sgm
    import numpy

    byname = {}
    for k, v in vars(sgs_mod).items():
        if k.startswith("sg") and isinstance(v, sgm.SpaceGroup):
            byname[k] = v
    listed = {id(g) for g in sgs_mod.SpaceGroupList}
    for name, d in lits.items():
        g = byname.get(name)
        if g is None:
            continue
        if id(g) not in listed:
            continue
        for k in ("number", "num_sym_equiv", "num_primitive_sym_equiv", "short_name", "point_group_name", "crystal_system", "pdb_name"):
            if k in d and getattr(g, k) != d[k]:
                out.append("%s.%s runtime %r != literal %r" % (name, k, getattr(g, k), d[k]))
        if len(d["ops"]) != len(g.symop_list):
            out.append("%s: %d literal ops vs %d runtime ops" % (name, len(d["ops"]), len(g.symop_list)))
            continue
        for i, (lit, op) in enumerate(zip(d["ops"], g.symop_list)):
            if lit is None:
                continue
            Rn, Tn = lit
            R = getattr(sgm, Rn, None)
            T = getattr(sgm, Tn, None)
            if R is None or T is None or not (numpy.array_equal(R, op.R) and numpy.array_equal(T, op.t)):
                out.append("%s op %d: runtime differs from literal SymOp(%s, %s)" % (name, i, Rn, Tn))
    nlit = sum(1 for name in lits if name in byname and id(byname[name]) in listed)
    if nlit != len(sgs_mod.SpaceGroupList):
        out.append("%d literal definitions are listed, SpaceGroupList has %d entries" % (nlit, len(sgs_mod.SpaceGroupList)))
    return out


# ---- Lean emission -----------------------------------------------------------------------

def lean_str(s):
    return '"' + s.replace("\\", "\\\\").replace('"', '\\"') + '"'


def lean_op(a):
    return "⟨" + ",".join(str(v) for v in a) + "⟩"


SYS = {
    "TRICLINIC": ".triclinic",
    "MONOCLINIC": ".monoclinic",
    "ORTHORHOMBIC": ".orthorhombic",
    "TETRAGONAL": ".tetragonal",
    "TRIGONAL": ".trigonal",
    "HEXAGONAL": ".hexagonal",
    "CUBIC": ".cubic",
}


def emit_sg(nm, sg, ops, cert):
    L = []
    L.append("def %s : SG :=" % nm)
    L.append("  { number := %d, nsym := %d, nprim := %d, short := %s, pdb := %s, pgname := %s, system := %s," % (
        sg.number, sg.num_sym_equiv, sg.num_primitive_sym_equiv, lean_str(sg.short_name), lean_str(sg.pdb_name),
        lean_str(sg.point_group_name), SYS.get(sg.crystal_system, ".triclinic")))
    L.append("    ops := [" + ",\n      ".join(lean_op(a) for a in ops) + "] }")
    L.append("def %sc : Cert :=" % nm)
    L.append("  { gens := [" + ", ".join(lean_op(g) for g in cert["gens"]) + "],")
    L.append("    cay := [" + ", ".join("[" + ",".join(map(str, r)) + "]" for r in cert["cay"]) + "],")
    L.append("    par := [" + ", ".join("(%d,%d)" % p for p in cert["par"]) + "],")
    L.append("    rank := [" + ",".join(map(str, cert["rank"])) + "],")
    L.append("    inv := [" + ",".join(map(str, cert["inv"])) + "] }")
    return "\n".join(L)


def write_if_changed(path, text):
    try:
        if open(path).read() == text:
            return False
    except OSError:
        pass
    os.makedirs(os.path.dirname(path), exist_ok=True)
    with open(path, "w") as f:
        f.write(text)
    return True


def main(outdir, report_path):
    sgs = load_tables()
    report = {"untranslatable": [], "ast": [], "settings": [], "bad": [], "nlisted": len(sgs.SpaceGroupList)}
    report["ast"] = ast_crosscheck(sgs)
    items = []
    seen_names = set()
    for pos, sg in enumerate(sgs.SpaceGroupList):
        nm = "sg%d" % sg.number if isinstance(sg.number, int) else "sgx%d" % pos
        if nm in seen_names:
            nm = "%s_dup%d" % (nm, pos)
        seen_names.add(nm)
        try:
            ops = [op_to_ints(o) for o in sg.symop_list]
            if sg.crystal_system not in SYS:
                raise ValueError("unknown crystal_system %r" % (sg.crystal_system,))
            for k in ("number", "num_sym_equiv", "num_primitive_sym_equiv"):
                v = getattr(sg, k)
                if not isinstance(v, int) or v < 0:
                    raise ValueError("%s=%r is not a natural number" % (k, v))
        except ValueError as e:
            report["untranslatable"].append({"pos": pos, "number": sg.number, "why": str(e)})
            continue
        cert = make_cert(ops)
        res = mirror_checks(sg, ops, cert)
        items.append((nm, pos, sg, ops, cert, res))
    # bin packing by estimated kernel cost
    def cost(it):
        n = len(it[3])
        return n * (len(it[4]["gens"]) + 2) + n * n // 40 + 5
    shards = [[] for _ in range(NSHARDS)]
    loads = [0] * NSHARDS
    # deterministic: sort by (-cost, number)
    for it in sorted(items, key=lambda it: (-cost(it), it[1])):
        k = loads.index(min(loads))
        shards[k].append(it)
        loads[k] += cost(it)
    changed = 0
    good_names = []
    for k, sh in enumerate(shards):
        sh.sort(key=lambda it: it[1])
        D = ["import DS.Model.Sym", "/-! GENERATED by translate/tables.py from the space-group tables of the repository. Do not edit. -/",
             "namespace DS.Gen", "open DS", ""]
        T = ["import DS.Gen.D%d" % k, "/-! GENERATED by translate/tables.py. Kernel obligations for shard %d. -/" % k,
             "namespace DS.Gen", "open DS", ""]
        oknames = []
        for nm, pos, sg, ops, cert, res in sh:
            D.append(emit_sg(nm, sg, ops, cert))
            D.append("")
            comps = [("group", "checkGroup %s.ops %sc" % (nm, nm)), ("counts", "checkCounts %s" % nm),
                     ("centring", "checkCentring %s" % nm), ("class", "checkClass %s" % nm)]
            allok = all(res[c][0] for c, _ in comps)
            if allok:
                T.append("theorem %s_ok : checkSG %s %sc = true := by decide +kernel" % (nm, nm, nm))
                oknames.append(nm)
            else:
                for c, expr in comps:
                    T.append("theorem %s_%s : %s = %s := by decide +kernel" % (nm, c, expr, "true" if res[c][0] else "false"))
                report["bad"].append({"name": nm, "number": sg.number, "pos": pos,
                                      "failed": {c: res[c][1] for c, _ in comps if not res[c][0]}})
            report["settings"].append({"name": nm, "number": sg.number, "pos": pos, "nops": len(ops), "ngens": len(cert["gens"]), "shard": k})
        D.append("end DS.Gen")
        T.append("")
        T.append("def shard%d : List (SG × Cert) := [%s]" % (k, ", ".join("(%s, %sc)" % (n, n) for n in oknames)))
        T.append("theorem shard%d_ok : ∀ p ∈ shard%d, checkSG p.1 p.2 = true := by" % (k, k))
        T.append("  intro p hp")
        if oknames:
            T.append("  simp only [shard%d, List.mem_cons, List.mem_nil_iff, or_false] at hp" % k)
            T.append("  rcases hp with %s" % " | ".join(["rfl"] * len(oknames)))
            for n in oknames:
                T.append("  · exact %s_ok" % n)
        else:
            T.append("  simp [shard%d] at hp" % k)
        T.append("end DS.Gen")
        changed += write_if_changed(os.path.join(outdir, "D%d.lean" % k), "\n".join(D) + "\n")
        changed += write_if_changed(os.path.join(outdir, "T%d.lean" % k), "\n".join(T) + "\n")
        good_names.extend(oknames)
    # data index, in SpaceGroupList order (used by the driver and by C11)
    order = sorted(items, key=lambda it: it[1])
    DI = ["import DS.Gen.D%d" % k for k in range(NSHARDS)]
    DI += ["/-! GENERATED by translate/tables.py. -/", "namespace DS.Gen", "open DS", "",
           "/-- all translated settings in `SpaceGroupList` order -/",
           "def allSG : List SG := [" + ", ".join(it[0] for it in order) + "]",
           "end DS.Gen"]
    changed += write_if_changed(os.path.join(outdir, "DIndex.lean"), "\n".join(DI) + "\n")
    # index
    def nest(names):
        if len(names) == 1:
            return names[0]
        return "%s ++ (%s)" % (names[0], nest(names[1:]))

    def nestproof(names):
        if len(names) == 1:
            return "%s_ok" % names[0]
        return "forall_mem_append' %s_ok (%s)" % (names[0], nestproof(names[1:]))

    shn = ["shard%d" % k for k in range(NSHARDS)]
    I = ["import DS.Gen.T%d" % k for k in range(NSHARDS)]
    I += ["/-! GENERATED by translate/tables.py. -/", "namespace DS.Gen", "open DS", "",
          "theorem forall_mem_append' {α : Type} {P : α → Prop} {l₁ l₂ : List α}",
          "    (h₁ : ∀ x ∈ l₁, P x) (h₂ : ∀ x ∈ l₂, P x) : ∀ x ∈ l₁ ++ l₂, P x :=",
          "  fun x hx => (List.mem_append.1 hx).elim (h₁ x) (h₂ x)",
          "",
          "/-- every tabulated setting whose four checks were accepted by the kernel, with its certificate -/",
          "def allC : List (SG × Cert) := " + nest(shn),
          "/-- number of entries of `SpaceGroupList` in the repository -/",
          "def nListed : Nat := %d" % len(sgs.SpaceGroupList),
          "/-- settings that could not be translated or failed a check (0 on a healthy tree) -/",
          "def nBad : Nat := %d" % (len(report["bad"]) + len(report["untranslatable"])),
          "theorem allC_ok : ∀ p ∈ allC, checkSG p.1 p.2 = true :=",
          "  " + nestproof(shn),
          "theorem allC_length : allC.length = %d := by decide +kernel" % len(good_names),
          ]
    # witness: a small non-trivial group (cheap for `decide +kernel` in non-vacuity examples)
    gs = set(good_names)
    cands = []
    for j, sh in enumerate(shards):
        for it in sh:
            if it[0] in gs:
                cands.append((abs(len(it[3]) - 8), it[1], j, it[0]))
    cands.sort()
    if cands:
        _, _, j, nm = cands[0]
        # allC = shard0 ++ (shard1 ++ (... ++ shardN))
        inner = "(by unfold shard%d; simp)" % j
        if j < NSHARDS - 1:
            prf = "List.mem_append_left _ " + inner
        else:
            prf = inner
        for _ in range(j):
            prf = "List.mem_append_right _ (%s)" % prf
        I += ["/-- non-vacuity witness: a concrete member of `allC` -/",
              "def witness : SG × Cert := (%s, %sc)" % (nm, nm),
              "theorem witness_mem : witness ∈ allC := by",
              "  unfold allC witness",
              "  exact " + prf]
    I.append("end DS.Gen")
    changed += write_if_changed(os.path.join(outdir, "Index.lean"), "\n".join(I) + "\n")
    report["changed_files"] = changed
    report["ok"] = len(good_names)
    with open(report_path, "w") as f:
        json.dump(report, f, indent=1)
    return report


if __name__ == "__main__":
    outdir = sys.argv[1] if len(sys.argv) > 1 else os.path.join(os.path.dirname(os.path.abspath(__file__)), "..", "lean", "DS", "Gen")
    rp = sys.argv[2] if len(sys.argv) > 2 else os.path.join(outdir, "tables_report.json")
    r = main(outdir, rp)
    print("tables: %d listed, %d ok, %d bad, %d untranslatable, %d ast discrepancies, %d files changed" % (
        r["nlisted"], r["ok"], len(r["bad"]), len(r["untranslatable"]), len(r["ast"]), r["changed_files"]))
