"""Source-tie plug-in (group "lookup"): the space-group lookup functions of `spacegroups.py`, transliterated from the
CURRENT source with `ast` into `lean/DS/Gen/SrcLookup.lean` (namespace `DS.Src.Lookup`).  Serves C11 and C19.

What is emitted (a definition each, or `def <name>_untranslatable : String` when the source leaves the subset):

  GetSpaceGroup            statement by statement: exact-key attempt, the non-string rejection, every assignment of a
                           string expression (`.strip()`, `.replace(c, s)`, `[:n]`, `[n:]`, `.upper()`, `.lower()`, `+`),
                           every `if K in T: return T[K]` attempt in source order, the final `raise ValueError`
  IsSpaceGroupIdentifier   `try: GetSpaceGroup(sgid); rv = C1 / except ValueError: rv = C2 / return rv`
  _buildSGLookupTable      the `setdefault` calls of the settings loop in source order, the alias list, the body of the
                           alias loop (`table[...]` may raise KeyError = `none`), the private dictionary handed to `update`
  _hashSymOpList           `sorted(str(o) for o in symops)`, `hash(tuple(...))`
  _getSGHashLookupTable    loop body (`table[h] = sg` / `table.setdefault(h, sg)` are different primitives)
  FindSpaceGroup           membership test, `shuffle` flag, `zip_longest(..., fillvalue="")` same-order test, copy + new list
  SpaceGroup.iter_symops, SpaceGroup.check_group_name, SymOp.__str__ (format rows as data)
  idReader/idBuilder/hashReader/hashBuilder   ordered event lists of the statements that touch the two module-level
                           dictionaries (emptiness test, build call, private stores, the publication step, `in`/subscript
                           pairs), for the `publish` protocol of DS/Model/Sched.lean (C19)

Python values are represented as in DS/Model/Lookup.lean: a SpaceGroup object by its position in `SpaceGroupList`,
an identifier by `Lookup.Key`, `str(op)` by `Op.key`, `hash` of a tuple by the tuple (the code asserts that there are no
collisions).  The translator is strict: statement skeleton, operand order, constants, slices, comparison operators and
method names are read from the source, never assumed; anything it does not recognise is reported, not approximated.
"""
import ast
import os

GROUP = "lookup"
OUTFILE = "SrcLookup.lean"

ID_TABLE = "_sg_lookup_table"
HASH_TABLE = "_sg_hash_lookup_table"
ID_BUILD = "_buildSGLookupTable"
HASH_ACCESS = "_getSGHashLookupTable"
SGLIST = "SpaceGroupList"

SG_FIELDS = {"number": ("number", "int"), "short_name": ("short", "str"), "pdb_name": ("pdb", "str"),
             "point_group_name": ("pgname", "str"), "symop_list": ("ops", "ops")}


def U(why, node=None):
    if node is not None:
        try:
            why = "%s: `%s`" % (why, " ".join(ast.unparse(node).split())[:110])
        except Exception:  # noqa: BLE001
            pass
    raise pysrc.Untranslatable(why)  # noqa: F821  (injected by pysrc.plugins)


def one(node):
    """source of a node on one line (for the comments of the generated file)"""
    return " ".join(ast.unparse(node).split())


def one_private(node, priv):
    """`one`, with the name of the private dictionary replaced by `PRIVATE` (a renamed local is the same statement)"""
    import copy
    n = copy.deepcopy(node)
    for x in ast.walk(n):
        if isinstance(x, ast.Name) and x.id == priv:
            x.id = "PRIVATE"
    return one(n)


def nodoc(fn):
    b = fn.body
    if b and isinstance(b[0], ast.Expr) and isinstance(b[0].value, ast.Constant) and isinstance(b[0].value.value, str):
        b = b[1:]
    return b


def same(a, b):
    return ast.dump(a) == ast.dump(b)


def is_name(e, name=None):
    return isinstance(e, ast.Name) and (name is None or e.id == name)


def the_func(tree, name, scope=None):
    """the one definition of `name` (module level, or in the class body `scope`); a second definition or a
    rebinding of the name anywhere in the module would make the transliterated body the wrong one"""
    body = tree.body if scope is None else scope.body
    defs = [n for n in ast.walk(tree if scope is None else scope)
            if isinstance(n, (ast.FunctionDef, ast.AsyncFunctionDef, ast.ClassDef)) and n.name == name]
    if len(defs) != 1 or defs[0] not in body or not isinstance(defs[0], ast.FunctionDef):
        U("%s: not exactly one plain definition%s" % (name, "" if scope is None else " in class " + scope.name))
    for n in ast.walk(tree):
        if isinstance(n, ast.Name) and n.id == name and isinstance(n.ctx, (ast.Store, ast.Del)):
            U("%s is rebound in the module" % name, n)
        if scope is not None and isinstance(n, ast.Attribute) and n.attr == name and isinstance(n.ctx, (ast.Store, ast.Del)):
            U("attribute %s is assigned in the module" % name, n)
        if isinstance(n, (ast.Import, ast.ImportFrom)) and any((a.asname or a.name) == name for a in n.names):
            U("%s is imported over" % name, n)
    return defs[0]


def the_class(tree, name):
    defs = [n for n in ast.walk(tree) if isinstance(n, (ast.FunctionDef, ast.AsyncFunctionDef, ast.ClassDef)) and n.name == name]
    if len(defs) != 1 or defs[0] not in tree.body or not isinstance(defs[0], ast.ClassDef) or defs[0].decorator_list or defs[0].keywords:
        U("class %s: not exactly one plain definition" % name)
    return defs[0]


def plain_args(fn, names, defaults=()):
    a = fn.args
    if a.vararg or a.kwarg or a.kwonlyargs or a.posonlyargs or [x.arg for x in a.args] != list(names):
        U("%s: parameters are not %r" % (fn.name, list(names)))
    if [ast.dump(d) for d in a.defaults] != [ast.dump(ast.Constant(value=d)) for d in defaults]:
        U("%s: parameter defaults are not %r" % (fn.name, list(defaults)))
    if fn.decorator_list:
        U("%s: decorated" % fn.name)


def lean_str(s):
    return pysrc.lean_str(s)  # noqa: F821


def lean_char(c):
    if len(c) == 1 and 32 <= ord(c) < 127 and c not in "'\\":
        return "'%s'" % c
    return "(Char.ofNat %d)" % ord(c)


def small_nat(e):
    if isinstance(e, ast.Constant) and type(e.value) is int and 0 <= e.value < 10 ** 6:
        return e.value
    return None


# --------------------------------------------------------------------------------------------------
# expressions.  env: python name -> (lean term, type); types: str int key sg ops msg
# --------------------------------------------------------------------------------------------------

def sexpr(e, env):
    if isinstance(e, ast.Name):
        if e.id not in env or env[e.id][1] == "msg":
            U("unknown name", e)
        return env[e.id]
    if isinstance(e, ast.Constant) and type(e.value) is str:
        return lean_str(e.value), "str"
    if isinstance(e, ast.BinOp) and isinstance(e.op, ast.Add):
        l, lt = sexpr(e.left, env)
        r, rt = sexpr(e.right, env)
        if lt != "str" or rt != "str":
            U("`+` of non-strings", e)
        return "(%s ++ %s)" % (l, r), "str"
    if isinstance(e, ast.Subscript):
        v, vt = sexpr(e.value, env)
        s = e.slice
        if vt != "str" or not isinstance(s, ast.Slice) or s.step is not None:
            U("subscript", e)
        if s.lower is None and s.upper is not None and small_nat(s.upper) is not None:
            return "(sliceTo %s %d)" % (v, small_nat(s.upper)), "str"
        if s.upper is None and s.lower is not None and small_nat(s.lower) is not None:
            return "(sliceFrom %s %d)" % (v, small_nat(s.lower)), "str"
        U("slice bounds", e)
    if isinstance(e, ast.Attribute) and is_name(e.value) and env.get(e.value.id, ("", ""))[1] == "sg":
        if e.attr not in SG_FIELDS:
            U("attribute of a setting", e)
        f, t = SG_FIELDS[e.attr]
        return "%s.%s" % (env[e.value.id][0], f), t
    if isinstance(e, ast.Call) and not e.keywords:
        f = e.func
        if isinstance(f, ast.Attribute):
            v, vt = sexpr(f.value, env)
            if vt != "str":
                U("method of a non-string", e)
            if f.attr == "strip" and not e.args:
                return "(Lookup.strip %s)" % v, "str"
            if f.attr in ("upper", "lower") and not e.args:
                return "(%s %s)" % (f.attr, v), "str"
            if f.attr == "replace" and len(e.args) == 2 and all(isinstance(a, ast.Constant) and type(a.value) is str for a in e.args):
                old, new = e.args[0].value, e.args[1].value
                if len(old) != 1:
                    U("replace of a pattern that is not one character", e)
                return "(replaceChar %s %s %s)" % (v, lean_char(old), lean_str(new)), "str"
            U("string method", e)
        if is_name(f, "str") and len(e.args) == 1:
            v, vt = sexpr(e.args[0], env)
            if vt == "int":
                return "(toString %s)" % v, "str"
            if vt == "str":
                return v, "str"
            U("str() of this value", e)
    U("expression", e)


def keyexpr(e, env):
    v, t = sexpr(e, env)
    if t == "key":
        return v
    if t == "str":
        return "(.str %s)" % v
    if t == "int":
        return "(.num %s)" % v
    U("not usable as a dictionary key", e)


def is_valueerror(exc):
    return isinstance(exc, ast.Call) and is_name(exc.func, "ValueError") and len(exc.args) <= 1 and not exc.keywords


# --------------------------------------------------------------------------------------------------
# GetSpaceGroup
# --------------------------------------------------------------------------------------------------

def tr_get(tree):
    fn = the_func(tree, "GetSpaceGroup")
    if fn is None:
        U("GetSpaceGroup not found")
    plain_args(fn, ["sgid"])
    body = nodoc(fn)
    if not body:
        U("GetSpaceGroup: empty body")
    g = body[0]
    if not (isinstance(g, ast.If) and isinstance(g.test, ast.UnaryOp) and isinstance(g.test.op, ast.Not) and is_name(g.test.operand, ID_TABLE)
            and not g.orelse and len(g.body) == 1 and isinstance(g.body[0], ast.Expr) and isinstance(g.body[0].value, ast.Call)
            and is_name(g.body[0].value.func, ID_BUILD) and not g.body[0].value.args and not g.body[0].value.keywords):
        U("GetSpaceGroup does not start with `if not %s: %s()`" % (ID_TABLE, ID_BUILD), g)
    lines = []

    def block(stmts, env, ind):
        pad = "  " * ind
        if not stmts:
            U("GetSpaceGroup: control reaches the end of the function without return/raise")
        s, rest = stmts[0], stmts[1:]
        if isinstance(s, ast.If) and not s.orelse and isinstance(s.test, ast.Compare) and len(s.test.ops) == 1 \
                and isinstance(s.test.ops[0], ast.In) and is_name(s.test.comparators[0], ID_TABLE):
            k = s.test.left
            if not (len(s.body) == 1 and isinstance(s.body[0], ast.Return) and isinstance(s.body[0].value, ast.Subscript)
                    and is_name(s.body[0].value.value, ID_TABLE) and same(s.body[0].value.slice, k)):
                U("attempt does not return the entry under the key it tested", s)
            lines.append("%smatch Lookup.lookup %s %s with   -- %s" % (pad, ID_TABLE, keyexpr(k, env), one(s)))
            lines.append("%s| some r => some r" % pad)
            lines.append("%s| none =>" % pad)
            return block(rest, env, ind)
        if isinstance(s, ast.If) and not s.orelse and isinstance(s.test, ast.UnaryOp) and isinstance(s.test.op, ast.Not) \
                and isinstance(s.test.operand, ast.Call) and is_name(s.test.operand.func, "isinstance"):
            c = s.test.operand
            if not (len(c.args) == 2 and not c.keywords and is_name(c.args[0]) and is_name(c.args[1], "str")
                    and env.get(c.args[0].id, ("", ""))[1] == "key"):
                U("type test", s.test)
            if not (len(s.body) == 1 and isinstance(s.body[0], ast.Raise) and is_valueerror(s.body[0].exc) and s.body[0].cause is None):
                U("the non-string branch does not raise ValueError", s)
            v = c.args[0].id
            lines.append("%smatch %s with   -- %s" % (pad, env[v][0], one(s)))
            lines.append("%s| .num _ => none" % pad)
            lines.append("%s| .str %s =>" % (pad, env[v][0]))
            env = dict(env)
            env[v] = (env[v][0], "str")
            return block(rest, env, ind)
        if isinstance(s, ast.Assign) and len(s.targets) == 1 and is_name(s.targets[0]):
            x = s.targets[0].id
            if x in (ID_TABLE, HASH_TABLE):
                U("assignment to the table", s)
            if isinstance(s.value, ast.BinOp) and isinstance(s.value.op, ast.Mod) and isinstance(s.value.left, ast.Constant) \
                    and type(s.value.left.value) is str and is_name(s.value.right) and s.value.right.id in env:
                fmt = s.value.left.value
                if fmt.count("%") != 1 or fmt[fmt.index("%") + 1:fmt.index("%") + 2] not in ("r", "s"):
                    U("message format with a conversion other than one %r / %s (may raise TypeError)", s)
                env = dict(env)
                env[x] = ("", "msg")  # an error message: usable only as the argument of ValueError
                return block(rest, env, ind)
            v, t = sexpr(s.value, env)
            if t != "str":
                U("assignment of a non-string", s)
            if not x.isidentifier() or x in ("r", "none", "some", "match", "with", "let"):
                U("local name", s)
            lines.append("%slet %s := %s   -- %s" % (pad, x, v, one(s)))
            env = dict(env)
            env[x] = (x, "str")
            return block(rest, env, ind)
        if isinstance(s, ast.Raise) and s.cause is None and is_valueerror(s.exc):
            if s.exc.args and not (is_name(s.exc.args[0]) and env.get(s.exc.args[0].id, ("", ""))[1] == "msg") \
                    and not isinstance(s.exc.args[0], ast.Constant):
                U("argument of ValueError", s)
            lines.append("%snone   -- %s" % (pad, one(s)))
            return
        U("GetSpaceGroup: statement", s)

    block(body[1:], {"sgid": ("sgid", "key")}, 1)
    return ("/-- `GetSpaceGroup(sgid)` after `if not %s: %s()`: `%s` is the global dictionary, `none` is the `ValueError` -/\n"
            "def GetSpaceGroup (%s : Lookup.Table) (sgid : Lookup.Key) : Option Nat :=\n%s\n\n" % (
                ID_TABLE, ID_BUILD, ID_TABLE, ID_TABLE, "\n".join(lines)))


def tr_isid(tree):
    fn = the_func(tree, "IsSpaceGroupIdentifier")
    if fn is None:
        U("IsSpaceGroupIdentifier not found")
    plain_args(fn, ["sgid"])
    body = nodoc(fn)

    def boolconst(st, name=None):
        if isinstance(st, ast.Assign) and len(st.targets) == 1 and is_name(st.targets[0], name) and isinstance(st.value, ast.Constant) \
                and type(st.value.value) is bool:
            return st.targets[0].id, st.value.value
        U("IsSpaceGroupIdentifier: expected `rv = True/False`", st)

    if not (len(body) == 2 and isinstance(body[0], ast.Try) and isinstance(body[1], ast.Return)):
        U("IsSpaceGroupIdentifier: statement skeleton %r" % [type(b).__name__ for b in body])
    t = body[0]
    if t.orelse or t.finalbody or len(t.handlers) != 1:
        U("IsSpaceGroupIdentifier: try statement with else/finally or several handlers")
    h = t.handlers[0]
    if not (is_name(h.type, "ValueError") and h.name is None and len(h.body) == 1):
        U("IsSpaceGroupIdentifier: handler is not `except ValueError:` with one statement", h)
    if not (len(t.body) == 2 and isinstance(t.body[0], ast.Expr) and isinstance(t.body[0].value, ast.Call) and is_name(t.body[0].value.func, "GetSpaceGroup")
            and len(t.body[0].value.args) == 1 and is_name(t.body[0].value.args[0], "sgid") and not t.body[0].value.keywords):
        U("IsSpaceGroupIdentifier: try body", t)
    rv, ok = boolconst(t.body[1])
    _, bad = boolconst(h.body[0], rv)
    if not is_name(body[1].value, rv):
        U("IsSpaceGroupIdentifier: does not return %s" % rv, body[1])
    return ("/-- `IsSpaceGroupIdentifier(sgid)`: the only handler is `except ValueError` -/\n"
            "def IsSpaceGroupIdentifier (%s : Lookup.Table) (sgid : Lookup.Key) : Bool :=\n"
            "  match GetSpaceGroup %s sgid with\n  | some _ => %s   -- %s\n  | none => %s   -- except ValueError: %s\n\n" % (
                ID_TABLE, ID_TABLE, str(ok).lower(), one(t.body[1]), str(bad).lower(), one(h.body[0])))


# --------------------------------------------------------------------------------------------------
# _buildSGLookupTable
# --------------------------------------------------------------------------------------------------

def empty_dict(e):
    return (isinstance(e, ast.Dict) and not e.keys) or (isinstance(e, ast.Call) and is_name(e.func, "dict") and not e.args and not e.keywords)


def method_call(st, recv, meth):
    """`recv.meth(args)` as an expression statement -> args"""
    if isinstance(st, ast.Expr) and isinstance(st.value, ast.Call) and isinstance(st.value.func, ast.Attribute) and st.value.func.attr == meth \
            and is_name(st.value.func.value, recv) and not st.value.keywords:
        return st.value.args
    return None


def tr_build(tree, facts):
    fn = the_func(tree, ID_BUILD)
    if fn is None:
        U("%s not found" % ID_BUILD)
    plain_args(fn, [])
    body = [b for b in nodoc(fn)]
    if body and isinstance(body[-1], ast.Return) and body[-1].value is None:
        body = body[:-1]
    kinds = [type(b).__name__ for b in body]
    if kinds != ["Assign", "For", "Assign", "For", "Assert", "Expr"]:
        U("%s: statement skeleton %r" % (ID_BUILD, kinds))
    b_new, b_for1, b_al, b_for2, b_assert, b_pub = body
    if not (len(b_new.targets) == 1 and is_name(b_new.targets[0]) and empty_dict(b_new.value)):
        U("%s: first statement is not `<name> = {}`" % ID_BUILD, b_new)
    P = b_new.targets[0].id
    if P in (ID_TABLE, HASH_TABLE, SGLIST):
        U("%s: builds in the global dictionary" % ID_BUILD, b_new)
    # settings loop
    if not (is_name(b_for1.iter, SGLIST) and is_name(b_for1.target) and not b_for1.orelse and b_for1.body):
        U("%s: settings loop" % ID_BUILD, b_for1)
    sg = b_for1.target.id
    env = {sg: (sg, "sg")}
    L = ["/-- body of `for %s in %s` (`i` is the position of `%s`, standing for the object) -/" % (sg, SGLIST, sg),
         "def build_settings_body (%s : Lookup.Table) (%s : SG) (i : Nat) : Lookup.Table :=" % (P, sg)]
    for st in b_for1.body:
        a = method_call(st, P, "setdefault")
        if a is None or len(a) != 2 or not is_name(a[1], sg):
            U("%s: statement of the settings loop is not `%s.setdefault(<key>, %s)`" % (ID_BUILD, P, sg), st)
        L.append("  let %s := Lookup.setdefault %s %s i   -- %s" % (P, P, keyexpr(a[0], env), one(st)))
    L.append("  %s\n" % P)
    L += ["def build_settings : Lookup.Table → List SG → Nat → Lookup.Table",
          "  | %s, [], _ => %s" % (P, P),
          "  | %s, %s :: rest, i => build_settings (build_settings_body %s %s i) rest (i + 1)\n" % (P, sg, P, sg)]
    # alias list
    if not (len(b_al.targets) == 1 and is_name(b_al.targets[0]) and isinstance(b_al.value, ast.List)):
        U("%s: alias list" % ID_BUILD, b_al)
    AL = b_al.targets[0].id
    pairs = []
    for e in b_al.value.elts:
        if not (isinstance(e, ast.Tuple) and len(e.elts) == 2 and all(isinstance(c, ast.Constant) and type(c.value) is str for c in e.elts)):
            U("%s: alias entry is not a pair of string literals" % ID_BUILD, e)
        pairs.append((e.elts[0].value, e.elts[1].value))
    L.append("/-- `%s` -/\ndef alias_hmname : List (String × String) :=\n  [%s]\n" % (AL, ", ".join("(%s, %s)" % (lean_str(a), lean_str(h)) for a, h in pairs)))
    # alias loop
    t = b_for2.target
    if not (is_name(b_for2.iter, AL) and isinstance(t, ast.Tuple) and len(t.elts) == 2 and all(is_name(x) for x in t.elts)
            and t.elts[0].id != t.elts[1].id and not b_for2.orelse and b_for2.body):
        U("%s: alias loop" % ID_BUILD, b_for2)
    a_, hm_ = t.elts[0].id, t.elts[1].id
    env = {a_: (a_, "str"), hm_: (hm_, "str")}
    L += ["/-- body of `for %s, %s in %s`; `none` is the KeyError of `%s[...]` -/" % (a_, hm_, AL, P),
          "def build_alias_body (%s : Lookup.Table) (%s %s : String) : Option Lookup.Table :=" % (P, a_, hm_)]
    for st in b_for2.body[:-1]:
        if not (isinstance(st, ast.Assign) and len(st.targets) == 1 and is_name(st.targets[0])):
            U("%s: statement of the alias loop" % ID_BUILD, st)
        x = st.targets[0].id
        v, vt = sexpr(st.value, env)
        if vt != "str" or x in (P, "v", "none", "some") or not x.isidentifier():
            U("%s: assignment in the alias loop" % ID_BUILD, st)
        L.append("  let %s := %s   -- %s" % (x, v, one(st)))
        env[x] = (x, "str")
    st = b_for2.body[-1]
    a = method_call(st, P, "setdefault")
    if a is None or len(a) != 2 or not (isinstance(a[1], ast.Subscript) and is_name(a[1].value, P)):
        U("%s: last statement of the alias loop is not `%s.setdefault(<key>, %s[<key>])`" % (ID_BUILD, P, P), st)
    L += ["  match Lookup.lookup %s %s with   -- %s" % (P, keyexpr(a[1].slice, env), one(a[1])),
          "  | none => none",
          "  | some v => some (Lookup.setdefault %s %s v)   -- %s\n" % (P, keyexpr(a[0], env), one(st)),
          "def build_aliases : Lookup.Table → List (String × String) → Option Lookup.Table",
          "  | %s, [] => some %s" % (P, P),
          "  | %s, (%s, %s) :: rest =>" % (P, a_, hm_),
          "    match build_alias_body %s %s %s with" % (P, a_, hm_),
          "    | none => none",
          "    | some %s => build_aliases %s rest\n" % (P, P)]
    # publication
    a = method_call(b_pub, ID_TABLE, "update")
    if a is None or len(a) != 1 or not is_name(a[0], P):
        U("%s: last statement is not `%s.update(%s)`" % (ID_BUILD, ID_TABLE, P), b_pub)
    facts["id.assert"] = one_private(b_assert, P)
    facts["id.publish"] = one_private(b_pub, P)
    L += ["/-- `%s()`: the private dictionary `%s` at the moment it is handed to `%s.update` (the only statement" % (ID_BUILD, P, ID_TABLE),
          "that touches the global dictionary); `none` is a KeyError raised before anything is published -/",
          "def _buildSGLookupTable (%s : List SG) : Option Lookup.Table :=" % SGLIST,
          "  let %s : Lookup.Table := []   -- %s" % (P, one(b_new)),
          "  let %s := build_settings %s %s 0" % (P, P, SGLIST),
          "  build_aliases %s alias_hmname\n\n" % P]
    return "\n".join(L)


# --------------------------------------------------------------------------------------------------
# fingerprints
# --------------------------------------------------------------------------------------------------

def tr_hash(tree):
    fn = the_func(tree, "_hashSymOpList")
    if fn is None:
        U("_hashSymOpList not found")
    plain_args(fn, ["symops"])
    body = nodoc(fn)
    env = {"symops": ("symops", "ops")}

    def ex(e):
        """-> (lean, type) with types ops | strs (list of printable forms) | tuple | hash"""
        if is_name(e):
            if e.id not in env:
                U("_hashSymOpList: unknown name", e)
            return env[e.id]
        if isinstance(e, ast.Call) and is_name(e.func) and len(e.args) == 1 and not e.keywords:
            f, a = e.func.id, e.args[0]
            if f in ("sorted", "list") and isinstance(a, (ast.GeneratorExp, ast.ListComp)):
                v, t = gen(a)
            else:
                v, t = ex(a)
            if f == "sorted" and t == "strs":
                return "(pySorted %s)" % v, "strs"
            if f == "list" and t == "strs":
                return v, "strs"
            if f == "tuple" and t == "strs":
                return "(pyTuple %s)" % v, "tuple"
            if f == "hash" and t == "tuple":
                return "(pyHash %s)" % v, "hash"
        if isinstance(e, (ast.GeneratorExp, ast.ListComp)):
            return gen(e)
        U("_hashSymOpList: expression", e)

    def gen(g):
        if len(g.generators) != 1:
            U("_hashSymOpList: comprehension", g)
        c = g.generators[0]
        if c.ifs or c.is_async or not is_name(c.target) or not is_name(c.iter) or env.get(c.iter.id, ("", ""))[1] != "ops":
            U("_hashSymOpList: comprehension", g)
        o = c.target.id
        if not (isinstance(g.elt, ast.Call) and is_name(g.elt.func, "str") and len(g.elt.args) == 1 and is_name(g.elt.args[0], o) and not g.elt.keywords):
            U("_hashSymOpList: element of the comprehension is not str(%s)" % o, g.elt)
        return "(%s.map fun %s => pyStr %s)" % (env[c.iter.id][0], o, o), "strs"

    L = ["/-- `_hashSymOpList(symops)` -/", "def _hashSymOpList (symops : List Op) : List Nat :="]
    for st in body[:-1]:
        if not (isinstance(st, ast.Assign) and len(st.targets) == 1 and is_name(st.targets[0]) and st.targets[0].id.isidentifier()):
            U("_hashSymOpList: statement", st)
        v, t = ex(st.value)
        L.append("  let %s := %s   -- %s" % (st.targets[0].id, v, one(st)))
        env[st.targets[0].id] = (st.targets[0].id, t)
    if not body or not isinstance(body[-1], ast.Return) or body[-1].value is None:
        U("_hashSymOpList: no return value")
    v, t = ex(body[-1].value)
    if t != "hash":
        U("_hashSymOpList: the value returned is not hash(tuple(...))", body[-1])
    L.append("  %s   -- %s\n\n" % (v, one(body[-1])))
    return "\n".join(L)


def tr_hashtable(tree, facts):
    fn = the_func(tree, HASH_ACCESS)
    if fn is None:
        U("%s not found" % HASH_ACCESS)
    plain_args(fn, [])
    body = nodoc(fn)
    kinds = [type(b).__name__ for b in body]
    if kinds != ["If", "Assign", "For", "Assert", "Expr", "Return"]:
        U("%s: statement skeleton %r" % (HASH_ACCESS, kinds))
    b_g, b_new, b_for, b_assert, b_pub, b_ret = body
    if not (is_name(b_g.test, HASH_TABLE) and not b_g.orelse and len(b_g.body) == 1 and isinstance(b_g.body[0], ast.Return)
            and is_name(b_g.body[0].value, HASH_TABLE)):
        U("%s does not start with `if %s: return %s`" % (HASH_ACCESS, HASH_TABLE, HASH_TABLE), b_g)
    if not (len(b_new.targets) == 1 and is_name(b_new.targets[0]) and empty_dict(b_new.value)):
        U("%s: `<name> = {}`" % HASH_ACCESS, b_new)
    P = b_new.targets[0].id
    if P in (ID_TABLE, HASH_TABLE, SGLIST):
        U("%s: builds in the global dictionary" % HASH_ACCESS, b_new)
    if not (is_name(b_for.iter, SGLIST) and is_name(b_for.target) and not b_for.orelse and len(b_for.body) == 2):
        U("%s: loop" % HASH_ACCESS, b_for)
    sg = b_for.target.id
    s1, s2 = b_for.body
    if not (isinstance(s1, ast.Assign) and len(s1.targets) == 1 and is_name(s1.targets[0]) and isinstance(s1.value, ast.Call)
            and is_name(s1.value.func, "_hashSymOpList") and len(s1.value.args) == 1 and not s1.value.keywords
            and isinstance(s1.value.args[0], ast.Attribute) and is_name(s1.value.args[0].value, sg) and s1.value.args[0].attr == "symop_list"):
        U("%s: fingerprint of the setting" % HASH_ACCESS, s1)
    h = s1.targets[0].id
    if h in (P, sg) or not h.isidentifier():
        U("%s: local name" % HASH_ACCESS, s1)
    if isinstance(s2, ast.Assign) and len(s2.targets) == 1 and isinstance(s2.targets[0], ast.Subscript) and is_name(s2.targets[0].value, P) \
            and is_name(s2.targets[0].slice, h) and is_name(s2.value, sg):
        store = "hset"
    else:
        a = method_call(s2, P, "setdefault")
        if a is not None and len(a) == 2 and is_name(a[0], h) and is_name(a[1], sg):
            store = "hsetdefault"
        else:
            U("%s: store of the setting" % HASH_ACCESS, s2)
    a = method_call(b_pub, HASH_TABLE, "update")
    if a is None or len(a) != 1 or not is_name(a[0], P):
        U("%s: publication is not `%s.update(%s)`" % (HASH_ACCESS, HASH_TABLE, P), b_pub)
    if not is_name(b_ret.value, HASH_TABLE):
        U("%s: does not return %s" % (HASH_ACCESS, HASH_TABLE), b_ret)
    facts["hash.assert"] = one_private(b_assert, P)
    facts["hash.publish"] = one_private(b_pub, P)
    return "\n".join([
        "/-- body of `for %s in %s` of `%s` -/" % (sg, SGLIST, HASH_ACCESS),
        "def hash_body (%s : HTable) (%s : SG) (i : Nat) : HTable :=" % (P, sg),
        "  let %s := _hashSymOpList %s.ops   -- %s" % (h, sg, one(s1)),
        "  let %s := %s %s %s i   -- %s" % (P, store, P, h, one(s2)),
        "  %s\n" % P,
        "def hash_loop : HTable → List SG → Nat → HTable",
        "  | %s, [], _ => %s" % (P, P),
        "  | %s, %s :: rest, i => hash_loop (hash_body %s %s i) rest (i + 1)\n" % (P, sg, P, sg),
        "/-- `%s()` on first use: the private dictionary handed to `%s.update` -/" % (HASH_ACCESS, HASH_TABLE),
        "def _getSGHashLookupTable (%s : List SG) : HTable :=" % SGLIST,
        "  let %s : HTable := []   -- %s" % (P, one(b_new)),
        "  hash_loop %s %s 0\n\n" % (P, SGLIST)])


def tr_find(tree):
    fn = the_func(tree, "FindSpaceGroup")
    if fn is None:
        U("FindSpaceGroup not found")
    plain_args(fn, ["symops", "shuffle"], defaults=(False,))
    body = nodoc(fn)
    kinds = [type(b).__name__ for b in body]
    if kinds != ["Assign", "Assign", "If", "Assign", "If", "Return"]:
        U("FindSpaceGroup: statement skeleton %r" % kinds)
    b_tb, b_hh, b_miss, b_rv, b_sh, b_ret = body

    def assign_call(st, fname, args):
        if isinstance(st, ast.Assign) and len(st.targets) == 1 and is_name(st.targets[0]) and isinstance(st.value, ast.Call) \
                and is_name(st.value.func, fname) and not st.value.keywords and [ast.dump(a) for a in st.value.args] == [ast.dump(a) for a in args]:
            return st.targets[0].id
        U("FindSpaceGroup: expected `<name> = %s(%s)`" % (fname, ", ".join(one(a) for a in args)), st)

    tb = assign_call(b_tb, HASH_ACCESS, [])
    hh = assign_call(b_hh, "_hashSymOpList", [ast.Name(id="symops", ctx=ast.Load())])
    t = b_miss.test
    if not (isinstance(t, ast.Compare) and len(t.ops) == 1 and isinstance(t.ops[0], ast.NotIn) and is_name(t.left, hh) and is_name(t.comparators[0], tb)
            and not b_miss.orelse and len(b_miss.body) == 1 and isinstance(b_miss.body[0], ast.Raise) and is_valueerror(b_miss.body[0].exc)
            and b_miss.body[0].cause is None):
        U("FindSpaceGroup: expected `if %s not in %s: raise ValueError(...)`" % (hh, tb), b_miss)
    if not (len(b_rv.targets) == 1 and is_name(b_rv.targets[0]) and isinstance(b_rv.value, ast.Subscript) and is_name(b_rv.value.value, tb)
            and is_name(b_rv.value.slice, hh)):
        U("FindSpaceGroup: expected `<name> = %s[%s]`" % (tb, hh), b_rv)
    rv = b_rv.targets[0].id
    if len({tb, hh, rv, "symops", "shuffle"}) != 5:
        U("FindSpaceGroup: local names collide")
    # the shuffle branch
    t = b_sh.test
    if isinstance(t, ast.UnaryOp) and isinstance(t.op, ast.Not) and is_name(t.operand, "shuffle"):
        cond = "!shuffle"
    elif is_name(t, "shuffle"):
        cond = "shuffle"
    else:
        U("FindSpaceGroup: test of the shuffle flag", t)
    if b_sh.orelse or [type(b).__name__ for b in b_sh.body] != ["Assign", "Assign", "If"]:
        U("FindSpaceGroup: body of the shuffle branch", b_sh)
    b_zz, b_same, b_copy = b_sh.body
    z = b_zz.value
    if not (len(b_zz.targets) == 1 and is_name(b_zz.targets[0]) and isinstance(z, ast.Call) and is_name(z.func, "zip_longest") and len(z.args) == 2
            and len(z.keywords) == 1 and z.keywords[0].arg == "fillvalue" and isinstance(z.keywords[0].value, ast.Constant) and z.keywords[0].value.value == ""
            and type(z.keywords[0].value.value) is str):
        U("FindSpaceGroup: expected `<name> = zip_longest(<a>, <b>, fillvalue=\"\")`", b_zz)
    zz = b_zz.targets[0].id

    def oplist(e):
        if is_name(e, "symops"):
            return "symops"
        if isinstance(e, ast.Call) and isinstance(e.func, ast.Attribute) and e.func.attr == "iter_symops" and is_name(e.func.value, rv) and not e.args and not e.keywords:
            return "(iter_symops %s.ops)" % rv
        if isinstance(e, ast.Attribute) and e.attr == "symop_list" and is_name(e.value, rv):
            return "%s.ops" % rv
        U("FindSpaceGroup: argument of zip_longest", e)

    za, zb = oplist(z.args[0]), oplist(z.args[1])
    s = b_same.value
    if not (len(b_same.targets) == 1 and is_name(b_same.targets[0]) and isinstance(s, ast.Call) and is_name(s.func) and s.func.id in ("all", "any")
            and len(s.args) == 1 and not s.keywords and isinstance(s.args[0], (ast.GeneratorExp, ast.ListComp)) and len(s.args[0].generators) == 1):
        U("FindSpaceGroup: same-order test", b_same)
    so = b_same.targets[0].id
    g = s.args[0]
    c = g.generators[0]
    if not (not c.ifs and not c.is_async and is_name(c.iter, zz) and isinstance(c.target, ast.Tuple) and len(c.target.elts) == 2 and all(is_name(x) for x in c.target.elts)
            and c.target.elts[0].id != c.target.elts[1].id):
        U("FindSpaceGroup: same-order comprehension", g)
    o0, o1 = c.target.elts[0].id, c.target.elts[1].id
    e = g.elt
    if not (isinstance(e, ast.Compare) and len(e.ops) == 1 and isinstance(e.ops[0], (ast.Eq, ast.NotEq))):
        U("FindSpaceGroup: same-order comparison", e)

    def strof(x):
        if isinstance(x, ast.Call) and is_name(x.func, "str") and len(x.args) == 1 and not x.keywords and is_name(x.args[0]) and x.args[0].id in (o0, o1):
            return "pyStrFill %s" % x.args[0].id
        U("FindSpaceGroup: operand of the same-order comparison", x)

    cmp_ = "%s %s %s" % (strof(e.left), "==" if isinstance(e.ops[0], ast.Eq) else "!=", strof(e.comparators[0]))
    t = b_copy.test
    if isinstance(t, ast.UnaryOp) and isinstance(t.op, ast.Not) and is_name(t.operand, so):
        cond2 = "!%s" % so
    elif is_name(t, so):
        cond2 = so
    else:
        U("FindSpaceGroup: test of the same-order flag", t)
    if b_copy.orelse or len(b_copy.body) != 2:
        U("FindSpaceGroup: copy branch", b_copy)
    c1, c2 = b_copy.body
    if not (isinstance(c1, ast.Assign) and len(c1.targets) == 1 and is_name(c1.targets[0], rv) and isinstance(c1.value, ast.Call)
            and ast.unparse(c1.value.func) in ("copy.copy",) and len(c1.value.args) == 1 and is_name(c1.value.args[0], rv) and not c1.value.keywords):
        U("FindSpaceGroup: expected `%s = copy.copy(%s)`" % (rv, rv), c1)
    if not (isinstance(c2, ast.Assign) and len(c2.targets) == 1 and isinstance(c2.targets[0], ast.Attribute) and is_name(c2.targets[0].value, rv)
            and c2.targets[0].attr == "symop_list" and is_name(c2.value, "symops")):
        U("FindSpaceGroup: expected `%s.symop_list = symops`" % rv, c2)
    if not is_name(b_ret.value, rv):
        U("FindSpaceGroup: does not return %s" % rv, b_ret)
    if len({tb, hh, rv, zz, so, o0, o1, "symops", "shuffle", "SpaceGroupList"}) != 10:
        U("FindSpaceGroup: local names collide")
    return "\n".join([
        "/-- `FindSpaceGroup(symops, shuffle)`; `none` is the `ValueError` -/",
        "def FindSpaceGroup (%s : List SG) (symops : List Op) (shuffle : Bool) : Option Found :=" % SGLIST,
        "  let %s := _getSGHashLookupTable %s   -- %s" % (tb, SGLIST, one(b_tb)),
        "  let %s := _hashSymOpList symops   -- %s" % (hh, one(b_hh)),
        "  match hget %s %s with   -- %s" % (tb, hh, one(b_miss)),
        "  | none => none",
        "  | some %s =>   -- %s" % (rv, one(b_rv)),
        "  let %s : Found := tabulated %s %s" % (rv, SGLIST, rv),
        "  if %s then   -- %s" % (cond, one(b_sh.test)),
        "    let %s := zipLongest %s %s   -- %s" % (zz, za, zb, one(b_zz)),
        "    let %s := %s.%s fun (%s, %s) => %s   -- %s" % (so, zz, s.func.id, o0, o1, cmp_, one(b_same)),
        "    if %s then   -- %s" % (cond2, one(b_copy.test)),
        "      let %s := { %s with isTabulated := false }   -- %s" % (rv, rv, one(c1)),
        "      let %s := { %s with ops := symops }   -- %s" % (rv, rv, one(c2)),
        "      some %s" % rv,
        "    else some %s" % rv,
        "  else some %s   -- %s\n\n" % (rv, one(b_ret))])


# --------------------------------------------------------------------------------------------------
# spacegroupmod.py
# --------------------------------------------------------------------------------------------------

def tr_iter(mod):
    cls = the_class(mod, "SpaceGroup")
    fn = the_func(mod, "iter_symops", cls)
    if fn is None:
        U("SpaceGroup.iter_symops not found")
    plain_args(fn, ["self"])
    body = nodoc(fn)
    if not (len(body) == 1 and isinstance(body[0], ast.Return) and ast.unparse(body[0].value) == "iter(self.symop_list)"):
        U("iter_symops: body is not `return iter(self.symop_list)`", body[0] if body else None)
    return "/-- `SpaceGroup.iter_symops`: `%s` -/\ndef iter_symops (symop_list : List Op) : List Op := symop_list\n\n" % one(body[0])


def tr_checkname(mod):
    cls = the_class(mod, "SpaceGroup")
    fn = the_func(mod, "check_group_name", cls)
    if fn is None:
        U("SpaceGroup.check_group_name not found")
    plain_args(fn, ["self", "name"])
    body = nodoc(fn)
    env = {"self": ("self", "sg")}
    L = ["/-- `SpaceGroup.check_group_name(name)` (a string never equals an integer) -/",
         "def check_group_name (self : SG) (name : Lookup.Key) : Bool :="]

    def boolret(st):
        if isinstance(st, ast.Return) and isinstance(st.value, ast.Constant) and type(st.value.value) is bool:
            return str(st.value.value).lower()
        U("check_group_name: expected `return True/False`", st)

    for st in body[:-1]:
        t = st.test if isinstance(st, ast.If) else None
        if not (t is not None and not st.orelse and len(st.body) == 1 and isinstance(t, ast.Compare) and len(t.ops) == 1 and isinstance(t.ops[0], ast.Eq)
                and is_name(t.left, "name")):
            U("check_group_name: expected `if name == self.<field>: return True`", st)
        L.append("  if name == %s then %s else   -- %s" % (keyexpr(t.comparators[0], env), boolret(st.body[0]), one(st)))
    if not body:
        U("check_group_name: empty body")
    L.append("  %s   -- %s\n\n" % (boolret(body[-1]), one(body[-1])))
    return "\n".join(L)


def tr_symop_str(mod):
    cls = the_class(mod, "SymOp")
    fn = the_func(mod, "__str__", cls)
    if fn is None:
        U("SymOp.__str__ not found")
    plain_args(fn, ["self"])
    body = nodoc(fn)
    rows = []
    if len(body) < 2 or not isinstance(body[-1], ast.Return) or not is_name(body[-1].value):
        U("SymOp.__str__: statement skeleton")
    x = body[-1].value.id
    for k, st in enumerate(body[:-1]):
        if k == 0:
            okst = isinstance(st, ast.Assign) and len(st.targets) == 1 and is_name(st.targets[0], x)
        else:
            okst = isinstance(st, ast.AugAssign) and isinstance(st.op, ast.Add) and is_name(st.target, x)
        v = st.value if okst else None
        if not (okst and isinstance(v, ast.BinOp) and isinstance(v.op, ast.Mod) and isinstance(v.left, ast.Constant) and type(v.left.value) is str
                and isinstance(v.right, ast.Tuple)):
            U("SymOp.__str__: expected `%s %s \"<format>\" %% (...)`" % (x, "=" if k == 0 else "+="), st)
        rows.append((v.left.value, [one(a) for a in v.right.elts]))
    return ("/-- `SymOp.__str__`: the rows `(format, arguments)` concatenated in this order -/\n"
            "def symop_str_rows : List (String × List String) :=\n  [%s]\n\n" % ",\n   ".join(
                "(%s, [%s])" % (lean_str(f), ", ".join(lean_str(a) for a in args)) for f, args in rows))


# --------------------------------------------------------------------------------------------------
# events on the two module-level dictionaries (C19)
# --------------------------------------------------------------------------------------------------

class Events:
    """ordered events of one function on the shared dictionary `shared` (or a local alias of it) and on private
    dictionaries (`<name> = {}`), statement by statement"""

    PERKEY = {"setdefault", "pop", "popitem", "__setitem__", "__delitem__"}

    def __init__(self, shared, builders, accessors):
        self.shared, self.builders, self.accessors = shared, builders, accessors

    def run(self, fn):
        self.names = {self.shared}
        self.priv = set()
        self.ev = []
        self.ncand = 0
        self.last = {}
        self.block(nodoc(fn))
        return self.ev

    def mentions(self, node, which=None):
        which = (self.names | self.priv) if which is None else which
        return any(isinstance(n, ast.Name) and n.id in which for n in ast.walk(node)) or any(
            isinstance(n, ast.Call) and is_name(n.func) and n.func.id in (self.builders | self.accessors) for n in ast.walk(node))

    def block(self, stmts):
        for s in stmts:
            self.stmt(s)

    def contains(self, k, neg):
        self.last[ast.dump(k)] = self.ncand
        self.ev.append(".contains %d %s" % (self.ncand, "true" if neg else "false"))
        self.ncand += 1

    def get(self, k):
        d = ast.dump(k)
        if d in self.last:
            self.ev.append(".get %d" % self.last[d])
        else:
            self.ev.append(".getUnchecked")

    def is_sh(self, e):
        return is_name(e) and e.id in self.names

    def is_pr(self, e):
        return is_name(e) and e.id in self.priv

    def other(self, s):
        self.ev.append(".other" if self.mentions(s) else ".local")

    def stmt(self, s):
        ev = self.ev
        if isinstance(s, ast.If):
            t = s.test
            if self.is_sh(t):
                ev.append(".testEmpty false")
            elif isinstance(t, ast.UnaryOp) and isinstance(t.op, ast.Not) and self.is_sh(t.operand):
                ev.append(".testEmpty true")
            elif isinstance(t, ast.Compare) and len(t.ops) == 1 and isinstance(t.ops[0], (ast.In, ast.NotIn)) and self.is_sh(t.comparators[0]) \
                    and not self.mentions(t.left):
                self.contains(t.left, isinstance(t.ops[0], ast.NotIn))
            elif self.mentions(t):
                ev.append(".other")
            else:
                ev.append(".branch")
            self.block(s.body)
            if s.orelse:
                ev.append(".orElse")
                self.block(s.orelse)
            ev.append(".endIf")
            return
        if isinstance(s, ast.For):
            if self.mentions(s.iter) or self.mentions(s.target) or s.orelse:
                ev.append(".other")
            ev.append(".loopBegin")
            self.block(s.body)
            ev.append(".loopEnd")
            return
        if isinstance(s, ast.Assign) and len(s.targets) == 1:
            t, v = s.targets[0], s.value
            if is_name(t) and empty_dict(v) and t.id not in self.names:
                if t.id in self.priv:
                    ev.append(".other")
                self.priv.add(t.id)
                ev.append(".newPrivate")
                return
            if is_name(t) and isinstance(v, ast.Call) and is_name(v.func) and v.func.id in self.accessors and not v.args and not v.keywords \
                    and t.id not in self.priv:
                self.names.add(t.id)
                ev.append(".callAccessor")
                return
            if is_name(t) and t.id not in (self.names | self.priv) and isinstance(v, ast.Subscript) and self.is_sh(v.value) and not self.mentions(v.slice):
                self.get(v.slice)
                return
            if isinstance(t, ast.Subscript) and self.is_pr(t.value) and not self.mentions(v, self.names) and not self.mentions(t.slice, self.names):
                if self.mentions(v, self.priv) or self.mentions(t.slice, self.priv):
                    ev.append(".readPrivate")
                ev.append(".storePrivate")
                return
            if isinstance(t, ast.Subscript) and self.is_sh(t.value):
                ev.append(".storeShared")
                if self.mentions(v) or self.mentions(t.slice):
                    ev.append(".other")
                return
            if is_name(t) and t.id in self.names:
                ev.append(".rebindShared")
                return
            return self.other(s)
        if isinstance(s, ast.Expr) and isinstance(s.value, ast.Call):
            c = s.value
            f = c.func
            if isinstance(f, ast.Attribute) and self.is_sh(f.value):
                if f.attr == "update" and len(c.args) == 1 and not c.keywords and self.is_pr(c.args[0]):
                    ev.append(".publish")
                elif f.attr == "clear" and not c.args:
                    ev.append(".clearShared")
                elif f.attr in self.PERKEY:
                    ev.append(".storeShared")
                else:
                    ev.append(".other")
                return
            if isinstance(f, ast.Attribute) and self.is_pr(f.value) and f.attr == "setdefault" and not c.keywords \
                    and not any(self.mentions(a, self.names) for a in c.args):
                if any(self.mentions(a, self.priv) for a in c.args):
                    ev.append(".readPrivate")
                ev.append(".storePrivate")
                return
            if is_name(f) and f.id in self.builders and not c.args and not c.keywords:
                ev.append(".callBuild")
                return
            return self.other(s)
        if isinstance(s, ast.Return):
            if s.value is None:
                ev.append(".ret")
            elif self.is_sh(s.value):
                ev.append(".returnShared")
            elif isinstance(s.value, ast.Subscript) and self.is_sh(s.value.value) and not self.mentions(s.value.slice):
                self.get(s.value.slice)
                ev.append(".ret")
            elif self.mentions(s.value):
                ev.append(".other")
            else:
                ev.append(".ret")
            return
        if isinstance(s, ast.Raise):
            ev.append(".other" if self.mentions(s) else ".raise")
            return
        if isinstance(s, ast.Assert):
            ev.append(".assertion")
            return
        if isinstance(s, ast.AugAssign) and self.is_sh(s.target):
            ev.append(".rebindShared")
            return
        if isinstance(s, ast.Delete) and any(isinstance(t, ast.Subscript) and self.is_sh(t.value) for t in s.targets):
            ev.append(".storeShared")
            return
        if isinstance(s, ast.Global):
            ev.append(".other" if set(s.names) & self.names else ".local")
            return
        return self.other(s)


def other_writers(tree, table, expected):
    """functions of the module, other than the expected ones, in which the dictionary is mentioned at all"""
    out = []
    for n in ast.walk(tree):
        if isinstance(n, (ast.FunctionDef, ast.AsyncFunctionDef, ast.Lambda)) and getattr(n, "name", "<lambda>") not in expected:
            if any(isinstance(x, ast.Name) and x.id == table for x in ast.walk(n)):
                out.append(getattr(n, "name", "<lambda>"))
    # module-level statements other than the single initialisation `table = {}`
    inits = 0
    for st in tree.body:
        if isinstance(st, (ast.FunctionDef, ast.AsyncFunctionDef, ast.ClassDef)):
            continue
        if any(isinstance(x, ast.Name) and x.id == table for x in ast.walk(st)):
            if isinstance(st, ast.Assign) and len(st.targets) == 1 and is_name(st.targets[0], table) and empty_dict(st.value):
                inits += 1
            else:
                out.append("<module>")
    if inits != 1:
        out.append("<module: %d initialisations>" % inits)
    return out


def tr_events(tree):
    L = []

    def emit(name, doc, evs):
        L.append("/-- %s -/\ndef %s : List Ev :=\n  [%s]\n" % (doc, name, ", ".join(evs)))

    def fn_(name):
        return the_func(tree, name)

    emit("idReader", "`GetSpaceGroup`: events on `%s`" % ID_TABLE, Events(ID_TABLE, {ID_BUILD}, set()).run(fn_("GetSpaceGroup")))
    emit("idBuilder", "`%s`: events on `%s` and on its private dictionary" % (ID_BUILD, ID_TABLE), Events(ID_TABLE, set(), set()).run(fn_(ID_BUILD)))
    emit("hashReader", "`FindSpaceGroup`: events on `%s` (through the accessor)" % HASH_TABLE, Events(HASH_TABLE, set(), {HASH_ACCESS}).run(fn_("FindSpaceGroup")))
    emit("hashBuilder", "`%s`: guard, build and publication" % HASH_ACCESS, Events(HASH_TABLE, set(), set()).run(fn_(HASH_ACCESS)))
    w1 = other_writers(tree, ID_TABLE, {"GetSpaceGroup", ID_BUILD})
    w2 = other_writers(tree, HASH_TABLE, {HASH_ACCESS})
    L.append("/-- other places of the module that mention the two dictionaries (must be none) -/\n"
             "def otherUsers : List String × List String := ([%s], [%s])\n" % (", ".join(lean_str(x) for x in w1), ", ".join(lean_str(x) for x in w2)))
    # IsSpaceGroupIdentifier reaches the table only through GetSpaceGroup
    f = fn_("IsSpaceGroupIdentifier")
    calls = sorted({n.func.id for n in ast.walk(f) if isinstance(n, ast.Call) and is_name(n.func)})
    L.append("/-- functions called by `IsSpaceGroupIdentifier` -/\ndef isIdCalls : List String := [%s]\n\n" % ", ".join(lean_str(x) for x in calls))
    return "\n".join(L)


# --------------------------------------------------------------------------------------------------

PRELUDE = '''-- GENERATED by translate/src_lookup.py from src/diffpy/structure/spacegroups.py and spacegroupmod.py — do not edit
import DS.Model.Lookup
namespace DS.Src.Lookup
open DS
set_option linter.unusedVariables false

/-! ### Python primitives of the transliteration (fixed text) -/

/-- `s[:n]` -/
def sliceTo (s : String) (n : Nat) : String := String.ofList (s.toList.take n)
/-- `s[n:]` -/
def sliceFrom (s : String) (n : Nat) : String := String.ofList (s.toList.drop n)
/-- `s.upper()` (ASCII, as in the model) -/
def upper (s : String) : String := String.ofList (s.toList.map Char.toUpper)
/-- `s.lower()` (ASCII) -/
def lower (s : String) : String := String.ofList (s.toList.map Char.toLower)
/-- `s.replace(c, new)` for a one-character pattern `c` -/
def replaceChar (s : String) (c : Char) (new : String) : String :=
  String.ofList (s.toList.flatMap fun x => if x = c then new.toList else [x])

/-- `str(op)`: the model's injective key (translate/lookup.py checks on every run that both induce the same equality) -/
def pyStr (o : Op) : Nat := o.key
/-- `sorted` of printable forms -/
def pySorted (l : List Nat) : List Nat := Lookup.sortNat l
def pyTuple (l : List Nat) : List Nat := l
/-- `hash` of a tuple of strings, taken to be collision free (the code asserts it): the tuple itself -/
def pyHash (l : List Nat) : List Nat := l

/-- a dictionary keyed by fingerprints; values are positions in `SpaceGroupList` -/
abbrev HTable := List (List Nat × Nat)
/-- `k in t` / `t[k]` -/
def hget (t : HTable) (k : List Nat) : Option Nat := (t.find? (fun e => e.1 == k)).map (·.2)
/-- `t[k] = v`: an existing entry is overwritten -/
def hset (t : HTable) (k : List Nat) (v : Nat) : HTable :=
  match hget t k with
  | some _ => t.map fun e => if e.1 == k then (k, v) else e
  | none => t ++ [(k, v)]
/-- `t.setdefault(k, v)`: an existing entry is kept -/
def hsetdefault (t : HTable) (k : List Nat) (v : Nat) : HTable :=
  match hget t k with
  | some _ => t
  | none => t ++ [(k, v)]

/-- what `FindSpaceGroup` returns: the setting at position `pos` itself (`isTabulated`) or a shallow copy of it,
and the `symop_list` the returned object carries -/
structure Found where
  pos : Nat
  isTabulated : Bool
  ops : List Op
deriving DecidableEq, Repr

/-- the object stored at position `i` of `SpaceGroupList` -/
def tabulated (sgl : List SG) (i : Nat) : Found := ⟨i, true, (sgl[i]?.map (·.ops)).getD []⟩

/-- `zip_longest(a, b, fillvalue="")`: `none` is the fill value -/
def zipLongest : List Op → List Op → List (Option Op × Option Op)
  | [], bs => bs.map fun b => (none, some b)
  | a :: as, [] => (some a, none) :: zipLongest as []
  | a :: as, b :: bs => (some a, some b) :: zipLongest as bs
/-- `str(x)` of an element of the zip: the printable form of an operation, or `""` (equal to no printable form) -/
def pyStrFill (x : Option Op) : Option Nat := x.map pyStr

/-- events of a function on a module-level dictionary `T` and on private dictionaries, in statement order -/
inductive Ev where
  | testEmpty (neg : Bool)            -- `if not T:` (neg) / `if T:`; the branch extends to `endIf`
  | contains (cand : Nat) (neg : Bool) -- `if k in T:` / `if k not in T:`, `cand` numbers the tests in source order
  | get (cand : Nat)                  -- `T[k]` for the key of test number `cand`
  | getUnchecked                      -- `T[k]` for a key that was not tested
  | branch | orElse | endIf           -- other `if`
  | callBuild | callAccessor          -- call of the build function / of the function returning `T`
  | newPrivate | storePrivate | readPrivate
  | publish                           -- `T.update(<private>)`
  | storeShared | clearShared | rebindShared
  | loopBegin | loopEnd
  | assertion | raise | ret | returnShared
  | local                             -- statement that touches neither `T` nor a private dictionary
  | other                             -- anything else that mentions them
deriving DecidableEq, Repr

'''


def translate(report):
    info = {"methods": {}, "untranslatable": {}}
    out = [PRELUDE]
    facts = {}
    try:
        base = os.path.join(pysrc.REPO, "src", "diffpy", "structure")  # noqa: F821
        tree = ast.parse(open(os.path.join(base, "spacegroups.py"), encoding="utf-8").read())
        mod = ast.parse(open(os.path.join(base, "spacegroupmod.py"), encoding="utf-8").read())
    except (OSError, SyntaxError, ValueError) as e:
        raise pysrc.Untranslatable("cannot read the space-group modules: %s" % e)  # noqa: F821

    def attempt(name, f, *a, needs=()):
        try:
            missing = [d for d in needs if d not in info["methods"]]
            if missing:
                U("uses %s, which could not be transliterated" % ", ".join(missing))
            out.append(f(*a))
            info["methods"][name] = True
        except pysrc.Untranslatable as e:  # noqa: F821
            info["untranslatable"][name] = str(e)
            out.append("def %s_untranslatable : String := %s\n\n" % (name, lean_str(str(e))))
        except Exception as e:  # noqa: BLE001  never crash: an unexpected shape is an untranslatable one
            msg = "internal %s: %s" % (type(e).__name__, e)
            info["untranslatable"][name] = msg
            out.append("def %s_untranslatable : String := %s\n\n" % (name, lean_str(msg)))

    attempt("GetSpaceGroup", tr_get, tree)
    attempt("IsSpaceGroupIdentifier", tr_isid, tree, needs=("GetSpaceGroup",))
    attempt("_buildSGLookupTable", tr_build, tree, facts)
    attempt("_hashSymOpList", tr_hash, tree)
    attempt("_getSGHashLookupTable", tr_hashtable, tree, facts, needs=("_hashSymOpList",))
    attempt("iter_symops", tr_iter, mod)
    attempt("FindSpaceGroup", tr_find, tree, needs=("_hashSymOpList", "_getSGHashLookupTable", "iter_symops"))
    attempt("check_group_name", tr_checkname, mod)
    attempt("SymOp_str", tr_symop_str, mod)
    attempt("events", tr_events, tree)
    out.append("/-- statements recorded as written -/\ndef facts : List (String × String) :=\n  [%s]\n\n" % ", ".join(
        "(%s, %s)" % (lean_str(k), lean_str(v)) for k, v in sorted(facts.items())))
    report[GROUP] = info
    return "".join(out) + "end DS.Src.Lookup\n"
