#!/venv/bin/python
"""Source translator: straight-line numeric Python methods -> Lean 4 definitions (scalar generic).

    /venv/bin/python translate/pysrc.py [outdir [report.json]]        (VERIF_REPO selects the tree)

The geometry models of DS (`DS.Lattice`, `DS.Adp`, ...) are hand-written transcriptions of the Python
methods.  This translator reads the *same methods* from the repository's current source with `ast`
and emits them as Lean definitions in `DS/Gen/Src*.lean` (namespace `DS.Src`), in the same
state-passing style (`let L := { L with f := e }`).  The hand-written theorems in
`DS/Props/SrcTie.lean` then state `Src.<method> = <model method>` (closed by `rfl`), so on every run the
kernel re-checks that the model the C01/C09/C10/C14 theorems speak about *is* what the source says now.

Supported subset (anything else makes the translator emit a `def <name>_untranslatable : String`
describing the construct, and the tie theorem for that method cannot be stated -> broken tie, handled by
the check with a failing-input search):

  statements   `self.X = [y =] e`, `x = e`, `if p is not None: self.X = e`, `return e`, `return`,
               guard `if <test>: raise E(...)` / `elif` chains (recorded as text, see `guards`),
               docstrings, `M[i, j] = e` on a local matrix
  expressions  float/int constants that are small naturals, names, `self.X` (fields and inlined
               read-only properties), + - * / unary -, `x ** 2`, `float(x)`, `cosd sind math.sqrt
               math.degrees(math.acos(x)) abs`, `numpy.array(<3x3 list>)`, `numpy.array(x)`,
               `numpy.dot` (typed: M.M, v.M, row.row), `numalg.inv`, `numalg.det`, `numpy.transpose`,
               `.T`, `M[i, :]`, `M[i, j]`, `M * [[x],[y],[z]]` (row scaling), `M / [x, y, z]` (column
               division), calls of translated module-level helpers
"""
import ast
import json
import os
import sys

HERE = os.path.dirname(os.path.abspath(__file__))
REPO = os.environ.get("VERIF_REPO", "/repo")
VERIF = os.path.dirname(HERE)
OUTDIR = os.path.join(VERIF, "lean", "DS", "Gen")

NATS = {0, 1, 2, 3, 90}


class Untranslatable(Exception):
    pass


def src_of(node, text):
    try:
        return ast.unparse(node)
    except Exception:
        return ast.dump(node)


class Tx:
    """expression translator; env maps local names to (lean name, type); types 'S' 'V' 'M' 'OS' 'OM'"""

    def __init__(self, text, selfname, selfvar, fields, props, helpers, objs=None):
        self.text = text
        self.selfname = selfname
        self.selfvar = selfvar  # Lean variable holding the object state
        self.fields = fields  # python attribute -> (lean field, type)
        self.props = props  # python property -> ('expr', ast) | ('def', leanname, type)
        self.helpers = helpers  # python function name -> (lean name, [argtypes], rettype)
        self.objs = objs or {}  # other object variables: name -> (leanvar, fields, props)

    def bad(self, node, why):
        raise Untranslatable("%s: `%s`" % (why, src_of(node, self.text)[:120]))

    def const(self, node):
        v = node.value
        if isinstance(v, bool) or not isinstance(v, (int, float)):
            self.bad(node, "constant")
        if float(v) == int(v) and int(v) in NATS:
            return "%d" % int(v), "S"
        self.bad(node, "numeric constant outside {0,1,2,3,90}")

    def attr_of(self, node, env):
        """self.X / lat.X"""
        base = node.value
        if isinstance(base, ast.Name) and base.id == self.selfname:
            var, fields, props = self.selfvar, self.fields, self.props
        elif isinstance(base, ast.Name) and base.id in self.objs:
            var, fields, props = self.objs[base.id]
        else:
            return None
        x = node.attr
        if x in props:
            p = props[x]
            if p[0] == "expr":
                sub = Tx(self.text, p[2], var, fields, props, self.helpers)
                return sub.expr(p[1], {})
            return "(%s %s)" % (p[1], var), p[2]
        if x in fields:
            return "%s.%s" % (var, fields[x][0]), fields[x][1]
        self.bad(node, "unknown attribute")

    def expr(self, e, env):
        if isinstance(e, ast.Constant):
            return self.const(e)
        if isinstance(e, ast.Name):
            if e.id in env:
                return env[e.id]
            self.bad(e, "unknown name")
        if isinstance(e, ast.Attribute):
            r = self.attr_of(e, env)
            if r is not None:
                return r
            if e.attr == "T":
                s, t = self.expr(e.value, env)
                if t == "M":
                    return "%s.transpose" % paren(s), "M"
            self.bad(e, "attribute")
        if isinstance(e, ast.UnaryOp) and isinstance(e.op, ast.USub):
            s, t = self.expr(e.operand, env)
            if t != "S":
                self.bad(e, "negation of non-scalar")
            return "-%s" % paren(s), "S"
        if isinstance(e, ast.UnaryOp) and isinstance(e.op, ast.UAdd):
            return self.expr(e.operand, env)
        if isinstance(e, ast.BinOp):
            return self.binop(e, env)
        if isinstance(e, ast.Call):
            return self.call(e, env)
        if isinstance(e, ast.Subscript):
            return self.subscript(e, env)
        if isinstance(e, (ast.List, ast.Tuple)):
            return self.matlit(e, env)
        self.bad(e, "expression")

    def matlit(self, e, env):
        rows = e.elts
        if len(rows) == 3 and all(isinstance(r, (ast.List, ast.Tuple)) and len(r.elts) == 3 for r in rows):
            cells = []
            for r in rows:
                for c in r.elts:
                    s, t = self.expr(c, env)
                    if t != "S":
                        self.bad(c, "matrix entry is not a scalar")
                    cells.append(s)
            return "(⟨%s⟩ : Mat3 α)" % ", ".join(cells), "M"
        self.bad(e, "list literal that is not 3x3")

    def binop(self, e, env):
        if isinstance(e.op, ast.Pow):
            if isinstance(e.right, ast.Constant) and e.right.value == 2:
                s, t = self.expr(e.left, env)
                if t == "S":
                    return "%s * %s" % (paren(s), paren(s)), "S"
            self.bad(e, "power")
        ops = {ast.Add: "+", ast.Sub: "-", ast.Mult: "*", ast.Div: "/"}
        if type(e.op) not in ops:
            self.bad(e, "operator")
        o = ops[type(e.op)]
        ls, lt = self.expr(e.left, env)
        # broadcasting idioms on a matrix
        if lt == "M" and isinstance(e.right, ast.List) and len(e.right.elts) == 3:
            el = e.right.elts
            m = paren(ls)
            if all(isinstance(x, ast.List) and len(x.elts) == 1 for x in el) and o in "*/":
                f = [paren(self.scalar(x.elts[0], env)) for x in el]  # column vector: row i scaled by f[i]
                cells = ["%s.a%d%d %s %s" % (m, i + 1, j + 1, o, f[i]) for i in range(3) for j in range(3)]
                return "(⟨%s⟩ : Mat3 α)" % ", ".join(cells), "M"
            if all(not isinstance(x, (ast.List, ast.Tuple)) for x in el) and o in "*/":
                f = [paren(self.scalar(x, env)) for x in el]  # row vector: column j scaled by f[j]
                cells = ["%s.a%d%d %s %s" % (m, i + 1, j + 1, o, f[j]) for i in range(3) for j in range(3)]
                return "(⟨%s⟩ : Mat3 α)" % ", ".join(cells), "M"
            self.bad(e, "broadcast")
        rs, rt = self.expr(e.right, env)
        if lt == "S" and rt == "S":
            return "%s %s %s" % (lassoc(ls, o), o, paren(rs)), "S"
        if lt == "S" and rt == "M" and o == "*":
            return "Mat3.smul %s %s" % (paren(ls), paren(rs)), "M"
        if lt == "M" and rt == "S" and o == "*":
            return "Mat3.smul %s %s" % (paren(rs), paren(ls)), "M"
        if lt == "M" and rt == "M" and o == "-":
            return "Mat3.sub %s %s" % (paren(ls), paren(rs)), "M"
        if lt == "M" and rt == "M" and o == "+":
            return "Mat3.add %s %s" % (paren(ls), paren(rs)), "M"
        if lt == "V" and rt == "V" and o == "-":
            return "Vec3.sub %s %s" % (paren(ls), paren(rs)), "V"
        self.bad(e, "operand types %s %s %s" % (lt, o, rt))

    def scalar(self, e, env):
        s, t = self.expr(e, env)
        if t != "S":
            self.bad(e, "expected a scalar")
        return s

    def fname(self, f):
        if isinstance(f, ast.Name):
            return f.id
        if isinstance(f, ast.Attribute) and isinstance(f.value, ast.Name):
            return "%s.%s" % (f.value.id, f.attr)
        return None

    def call(self, e, env):
        fn = self.fname(e.func)
        args = e.args
        kw = {k.arg for k in e.keywords}
        # `(A * B).sum(axis=-1)` / `(A ** 2).sum(axis=-1)` on coordinate triples
        if isinstance(e.func, ast.Attribute) and e.func.attr == "sum" and not args and len(e.keywords) == 1 \
                and e.keywords[0].arg == "axis" and ast.unparse(e.keywords[0].value) == "-1":
            v = e.func.value
            if isinstance(v, ast.BinOp) and isinstance(v.op, ast.Mult):
                ls, lt = self.expr(v.left, env)
                rs, rt = self.expr(v.right, env)
                if (lt, rt) == ("V", "V"):
                    return "Vec3.dot %s %s" % (paren(ls), paren(rs)), "S"
            if isinstance(v, ast.BinOp) and isinstance(v.op, ast.Pow) and isinstance(v.right, ast.Constant) and v.right.value == 2:
                ls, lt = self.expr(v.left, env)
                if lt == "V":
                    return "Vec3.dot %s %s" % (paren(ls), paren(ls)), "S"
            self.bad(e, "sum")
        # call of an already translated method of the same object
        if isinstance(e.func, ast.Attribute) and isinstance(e.func.value, ast.Name) and e.func.value.id == self.selfname \
                and ("self." + e.func.attr) in self.helpers and not kw:
            lean, argt, rett = self.helpers["self." + e.func.attr]
            if len(args) == len(argt):
                parts = []
                for a, t in zip(args, argt):
                    s, st = self.expr(a, env)
                    if st != t:
                        self.bad(a, "argument type %s, expected %s" % (st, t))
                    parts.append(paren(s))
                return "%s %s %s" % (lean, self.selfvar, " ".join(parts)), rett
        if fn in ("max", "min") and len(args) == 2 and not kw:
            return "%s %s %s" % (fn, paren(self.scalar(args[0], env)), paren(self.scalar(args[1], env))), "S"
        if fn in ("cosd", "sind") and len(args) == 1:
            return "Elem.%s %s" % (fn, paren(self.scalar(args[0], env))), "S"
        if fn in ("math.sqrt", "numpy.sqrt") and len(args) == 1:
            return "Elem.sqrt %s" % paren(self.scalar(args[0], env)), "S"
        if fn == "math.degrees" and len(args) == 1 and isinstance(args[0], ast.Call) and self.fname(args[0].func) == "math.acos":
            return "Elem.acosd %s" % paren(self.scalar(args[0].args[0], env)), "S"
        if fn == "float" and len(args) == 1:
            return self.expr(args[0], env)
        if fn == "abs" and len(args) == 1:
            return "Elem.abs %s" % paren(self.scalar(args[0], env)), "S"
        if fn in ("numpy.array", "numpy.asarray") and len(args) == 1 and kw <= {"dtype"}:
            if isinstance(args[0], ast.Name):
                # how a caller's array is taken over: numpy.array copies, numpy.asarray may alias it
                self.stores = getattr(self, "stores", []) + ["%s: %s" % (args[0].id, fn)]
            return self.expr(args[0], env)
        if fn in ("numalg.inv", "numpy.linalg.inv") and len(args) == 1:
            s, t = self.expr(args[0], env)
            if t == "M":
                return "%s.inv" % paren(s), "M"
        if fn in ("numalg.det", "numpy.linalg.det") and len(args) == 1:
            s, t = self.expr(args[0], env)
            if t == "M":
                return "%s.det" % paren(s), "S"
        if fn == "numpy.transpose" and len(args) == 1:
            s, t = self.expr(args[0], env)
            if t == "M":
                return "%s.transpose" % paren(s), "M"
        if fn == "numpy.trace" and len(args) == 1:
            s, t = self.expr(args[0], env)
            if t == "M":
                return "%s.trace" % paren(s), "S"
        if fn == "numpy.dot" and len(args) == 2:
            ls, lt = self.expr(args[0], env)
            rs, rt = self.expr(args[1], env)
            if (lt, rt) == ("M", "M"):
                return "%s.mul %s" % (paren(ls), paren(rs)), "M"
            if (lt, rt) == ("V", "M"):
                return "Mat3.vecMul %s %s" % (paren(ls), paren(rs)), "V"
            if (lt, rt) == ("M", "V"):
                return "Mat3.mulVec %s %s" % (paren(ls), paren(rs)), "V"
            if (lt, rt) == ("V", "V"):
                return "Vec3.dot %s %s" % (paren(ls), paren(rs)), "S"
            self.bad(e, "numpy.dot of %s,%s" % (lt, rt))
        if fn in self.helpers and not kw:
            lean, argt, rett = self.helpers[fn]
            if len(args) == len(argt):
                parts = []
                for a, t in zip(args, argt):
                    s, st = self.expr(a, env)
                    if st != t:
                        self.bad(a, "argument type %s, expected %s" % (st, t))
                    parts.append(paren(s))
                return "%s %s" % (lean, " ".join(parts)), rett
        self.bad(e, "call")

    def subscript(self, e, env):
        s, t = self.expr(e.value, env)
        sl = e.slice
        if t == "M" and isinstance(sl, ast.Tuple) and len(sl.elts) == 2:
            i, j = sl.elts
            if isinstance(i, ast.Constant) and isinstance(i.value, int) and 0 <= i.value < 3:
                if isinstance(j, ast.Slice) and j.lower is None and j.upper is None and j.step is None:
                    return "%s.row%d" % (paren(s), i.value + 1), "V"
                if isinstance(j, ast.Constant) and isinstance(j.value, int) and 0 <= j.value < 3:
                    return "%s.a%d%d" % (paren(s), i.value + 1, j.value + 1), "S"
        self.bad(e, "subscript")


def paren(s):
    s = s.strip()
    if s.startswith("(") and matching(s):
        return s
    if all(c.isalnum() or c in "._'" for c in s):
        return s
    return "(%s)" % s


def lassoc(s, op):
    """left operand of a left-associative operator: `a * b * c` needs no parentheses around `a * b`
    when the outer operator has the same or lower precedence"""
    s = s.strip()
    if all(c.isalnum() or c in "._'" for c in s) or (s.startswith("(") and matching(s)):
        return s
    top = top_ops(s)
    prec = {"+": 1, "-": 1, "*": 2, "/": 2}
    if top and all(prec[t] >= prec[op] for t in top) and not s.startswith("-"):
        return s
    return "(%s)" % s


def matching(s):
    d = 0
    for i, c in enumerate(s):
        if c in "(⟨":
            d += 1
        elif c in ")⟩":
            d -= 1
            if d == 0 and i != len(s) - 1:
                return False
    return d == 0


def top_ops(s):
    """binary operators at parenthesis depth 0 of an already rendered expression; [] if there is
    anything we do not understand (function application) -> caller parenthesises"""
    d = 0
    ops = []
    toks = s.split(" ")
    for t in toks:
        if d == 0 and t in ("+", "-", "*", "/"):
            ops.append(t)
        d += sum(t.count(c) for c in "(⟨") - sum(t.count(c) for c in ")⟩")
    # function application at depth 0 (two adjacent atoms) -> not a pure operator chain
    d = 0
    prev_atom = False
    for t in toks:
        is_op = d == 0 and t in ("+", "-", "*", "/")
        if d == 0 and not is_op and prev_atom:
            return []
        prev_atom = (not is_op)
        d += sum(t.count(c) for c in "(⟨") - sum(t.count(c) for c in ")⟩")
        if d > 0:
            prev_atom = False
        elif not is_op:
            prev_atom = True
    return ops


# ------------------------------------------------------------------------------------------------
# statement translation (state-passing)


class Method:
    def __init__(self, tx, fn, params, statevar, ret=None):
        """params: python arg name -> (lean name, type)"""
        self.tx = tx
        self.fn = fn
        self.env = dict(params)
        self.statevar = statevar
        self.lines = []
        self.guards = []
        self.ret = None

    def assign_self(self, attr, val):
        f = self.tx.fields.get(attr)
        if f is None:
            raise Untranslatable("assignment to unknown attribute self.%s" % attr)
        self.lines.append("let %s := { %s with %s := %s }" % (self.statevar, self.statevar, f[0], val))

    def stmt(self, s):
        tx = self.tx
        if isinstance(s, ast.Expr) and isinstance(s.value, ast.Constant) and isinstance(s.value.value, str):
            return
        if isinstance(s, ast.Return):
            if s.value is None:
                self.ret = ("state", None)
            else:
                self.ret = tx.expr(s.value, self.env)
            return
        if isinstance(s, ast.Assign):
            val, t = tx.expr(s.value, self.env)
            multi = len(s.targets) > 1
            if multi:
                # Python evaluates the right-hand side once
                tmp = "t%d" % len(self.lines)
                self.lines.append("let %s := %s" % (tmp, val))
                val = tmp
            for tg in s.targets:
                if isinstance(tg, ast.Attribute) and isinstance(tg.value, ast.Name) and tg.value.id == tx.selfname:
                    ft = tx.fields.get(tg.attr)
                    if ft is not None and ft[1] != t:
                        raise Untranslatable("type of self.%s" % tg.attr)
                    self.assign_self(tg.attr, val)
                elif isinstance(tg, ast.Name):
                    ln = "v_" + tg.id
                    self.lines.append("let %s := %s" % (ln, val))
                    self.env[tg.id] = (ln, t)
                elif (isinstance(tg, ast.Subscript) and isinstance(tg.value, ast.Name) and tg.value.id in self.env
                      and self.env[tg.value.id][1] == "M" and isinstance(tg.slice, ast.Tuple) and len(tg.slice.elts) == 2
                      and all(isinstance(k, ast.Constant) and isinstance(k.value, int) and 0 <= k.value < 3 for k in tg.slice.elts)
                      and t == "S"):
                    ln = self.env[tg.value.id][0]
                    i, j = (k.value for k in tg.slice.elts)
                    self.lines.append("let %s := { %s with a%d%d := %s }" % (ln, ln, i + 1, j + 1, val))
                else:
                    raise Untranslatable("assignment target `%s`" % src_of(tg, tx.text))
            return
        if isinstance(s, ast.If):
            # `if p is not None: self.X = e`
            t = s.test
            if (isinstance(t, ast.Compare) and len(t.ops) == 1 and isinstance(t.ops[0], ast.IsNot)
                    and isinstance(t.comparators[0], ast.Constant) and t.comparators[0].value is None
                    and isinstance(t.left, ast.Name) and t.left.id in self.env and self.env[t.left.id][1] in ("OS", "OM")
                    and not s.orelse and len(s.body) == 1 and isinstance(s.body[0], ast.Assign)
                    and len(s.body[0].targets) == 1):
                name = t.left.id
                ln, ot = self.env[name]
                inner = dict(self.env)
                inner[name] = ("v", ot[1])
                tg = s.body[0].targets[0]
                val, vt = tx.expr(s.body[0].value, inner)
                if isinstance(tg, ast.Attribute) and isinstance(tg.value, ast.Name) and tg.value.id == tx.selfname and tg.attr in tx.fields:
                    f = tx.fields[tg.attr]
                    self.lines.append("let %s := match %s with | some v => { %s with %s := %s } | none => %s" % (
                        self.statevar, ln, self.statevar, f[0], val, self.statevar))
                    return
            # `if numpy.isscalar(x): <scalar branch> else: <array branch>` with x a scalar of the model
            if (isinstance(t, ast.Call) and tx.fname(t.func) == "numpy.isscalar" and len(t.args) == 1
                    and isinstance(t.args[0], ast.Name) and self.env.get(t.args[0].id, (None, None))[1] == "S"):
                for b in s.body:
                    self.stmt(b)
                self.array_branches = getattr(self, "array_branches", []) + [ast.unparse(ast.Module(body=s.orelse, type_ignores=[]))]
                return
            # guard chain: if/elif whose bodies only raise
            g = []
            cur = s
            while True:
                if all(isinstance(b, ast.Raise) or (isinstance(b, ast.Assign) and isinstance(b.value, ast.Constant)) for b in cur.body) \
                        and any(isinstance(b, ast.Raise) for b in cur.body):
                    r = [b for b in cur.body if isinstance(b, ast.Raise)][0]
                    exc = r.exc.func.id if isinstance(r.exc, ast.Call) and isinstance(r.exc.func, ast.Name) else "?"
                    g.append("%s -> %s" % (ast.unparse(cur.test), exc))
                else:
                    raise Untranslatable("if statement `%s`" % src_of(cur.test, tx.text))
                if len(cur.orelse) == 1 and isinstance(cur.orelse[0], ast.If):
                    cur = cur.orelse[0]
                elif not cur.orelse:
                    break
                else:
                    raise Untranslatable("else branch of a guard")
            self.guards.extend(g)
            return
        raise Untranslatable("statement `%s`" % src_of(s, tx.text)[:100])

    def run(self):
        for s in self.fn.body:
            self.stmt(s)
        return self


def find_class(tree, name):
    for n in tree.body:
        if isinstance(n, ast.ClassDef) and n.name == name:
            return n
    raise Untranslatable("class %s not found" % name)


def find_func(body, name):
    for n in body:
        if isinstance(n, ast.FunctionDef) and n.name == name:
            return n
    return None


def lean_str(s):
    return '"' + s.replace("\\", "\\\\").replace('"', '\\"').replace("\n", "\\n") + '"'


HEADER = """-- GENERATED by translate/pysrc.py from %s — do not edit
import DS.Model.Lin
import %s
namespace DS.Src
set_option linter.unusedVariables false

"""

SECTION = ("section\nvariable {α : Type} [Add α] [Mul α] [Sub α] [Neg α] [Div α] [OfNat α 0] [OfNat α 1] [OfNat α 2]\n"
           "  [OfNat α 3] [OfNat α 90] [Max α] [Min α] [Elem α]\n\n")


def emit_def(name, params, rettype, lines, result, doc):
    out = ["/-- %s -/" % doc, "def %s %s : %s :=" % (name, params, rettype)]
    for ln in lines:
        out.append("  " + ln)
    out.append("  " + result)
    return "\n".join(out) + "\n\n"


# ------------------------------------------------------------------------------------------------
# lattice.py

LAT_FIELDS = {}
for _n in ("a b c alpha beta gamma ca cb cg sa sb sg ar br cr alphar betar gammar car cbr cgr sar sbr sgr").split():
    LAT_FIELDS["_" + _n] = (_n, "S")
for _n in ("metrics stdbase baserot base recbase normbase recnormbase isotropicunit").split():
    LAT_FIELDS[_n] = (_n, "M")


def lattice_props(cls, text, report):
    """read-only properties of Lattice: `x = property(lambda self: self._x, ...)` and @property defs"""
    props = {}
    setters = {}
    for n in cls.body:
        if isinstance(n, ast.Assign) and len(n.targets) == 1 and isinstance(n.targets[0], ast.Name) \
                and isinstance(n.value, ast.Call) and isinstance(n.value.func, ast.Name) and n.value.func.id == "property":
            name = n.targets[0].id
            a = n.value.args
            if a and isinstance(a[0], ast.Lambda) and len(a[0].args.args) == 1:
                props[name] = ("expr", a[0].body, a[0].args.args[0].arg)
            if len(a) > 1 and isinstance(a[1], ast.Lambda):
                setters[name] = ast.unparse(a[1].body)
    return props, setters


def translate_lattice(report):
    path = os.path.join(REPO, "src", "diffpy", "structure", "lattice.py")
    text = open(path, encoding="utf-8").read()
    tree = ast.parse(text)
    cls = find_class(tree, "Lattice")
    props, setters = lattice_props(cls, text, report)
    out = []
    info = {"methods": {}, "untranslatable": {}, "guards": {}, "setters": setters}
    helpers = {}

    def attempt(name, fn_):
        try:
            return fn_()
        except Untranslatable as e:
            info["untranslatable"][name] = str(e)
            out.append("def %s_untranslatable : String := %s\n\n" % (name, lean_str(str(e))))
            return None

    # module-level helper _isotropicunit(recnormbase)
    def do_iso():
        fn = find_func(tree.body, "_isotropicunit")
        if fn is None:
            raise Untranslatable("_isotropicunit not found")
        tx = Tx(text, "self__none", "L", {}, {}, {})
        m = Method(tx, fn, {fn.args.args[0].arg: ("m", "M")}, "L").run()
        if m.ret is None or m.ret[1] != "M" or m.guards:
            raise Untranslatable("_isotropicunit: no matrix result")
        out.append(emit_def("isotropicunit", "(m : Mat3 α)", "Mat3 α", m.lines, m.ret[0], "`lattice._isotropicunit`"))
        helpers["_isotropicunit"] = ("Src.isotropicunit", ["M"], "M")
        return True

    attempt("isotropicunit", do_iso)

    # property unitvolume (a def with locals)
    def do_unitvolume():
        fn = None
        for n in cls.body:
            if isinstance(n, ast.FunctionDef) and n.name == "unitvolume" and any(
                    isinstance(d, ast.Name) and d.id == "property" for d in n.decorator_list):
                fn = n
        if fn is None:
            raise Untranslatable("property unitvolume not found")
        tx = Tx(text, fn.args.args[0].arg, "L", LAT_FIELDS, props, helpers)
        m = Method(tx, fn, {}, "L").run()
        if m.ret is None or m.ret[1] != "S" or m.guards or any("{ L with" in ln for ln in m.lines):
            raise Untranslatable("unitvolume: not a pure scalar function")
        out.append(emit_def("unitvolume", "(L : Lattice α)", "α", m.lines, m.ret[0], "property `Lattice.unitvolume`"))
        props["unitvolume"] = ("def", "Src.unitvolume", "S")
        return True

    attempt("unitvolume", do_unitvolume)

    def method(name, params, lean_params, pure=None, doc=None):
        def go():
            fn = find_func(cls.body, name)
            if fn is None:
                raise Untranslatable("method %s not found" % name)
            argn = [a.arg for a in fn.args.args]
            if argn[1:] != [p for p, _ in params]:
                raise Untranslatable("signature of %s is %s" % (name, argn))
            tx = Tx(text, argn[0], "L", LAT_FIELDS, props, helpers)
            env = {p: (("p_" + p), t) for p, t in params}
            m = Method(tx, fn, env, "L").run()
            info["guards"][name] = m.guards
            if pure:
                if m.ret is None or m.ret[0] == "state" or m.ret[1] != pure:
                    raise Untranslatable("%s: result type" % name)
                lt = {"S": "α", "V": "Vec3 α", "M": "Mat3 α"}[pure]
                out.append(emit_def(name, lean_params, lt, m.lines, m.ret[0], doc or "`Lattice.%s`" % name))
            else:
                if m.ret is not None and m.ret[0] != "state":
                    raise Untranslatable("%s returns a value" % name)
                out.append(emit_def(name, lean_params, "Lattice α", m.lines, "L", doc or "`Lattice.%s`" % name))
            out.append("def %s_guards : List String := [%s]\n\n" % (name, ", ".join(lean_str(g) for g in m.guards)))
            info["methods"][name] = {"lines": len(m.lines), "guards": m.guards}
            if not pure:
                # bare parameter names on the right-hand side of an attribute assignment would alias the caller's object
                stores = sorted(set(getattr(tx, "stores", [])))
                for st_ in ast.walk(fn):
                    if isinstance(st_, ast.Assign) and isinstance(st_.value, ast.Name) and st_.value.id in env and env[st_.value.id][1] in ("M", "OM") \
                            and any(isinstance(t_, ast.Attribute) for t_ in st_.targets):
                        stores.append("%s: alias" % st_.value.id)
                out.append("/-- how the array arguments of `%s` are taken over (`numpy.array` copies) -/\n" % name)
                out.append("def %s_arrayArgs : List String := [%s]\n\n" % (name, ", ".join(lean_str(g) for g in stores)))
            if getattr(m, "array_branches", None):
                out.append("/-- the array branch of `%s` (source text; the model maps the scalar branch over rows) -/\n" % name)
                out.append("def %s_arrayBranch : List String := [%s]\n\n" % (name, ", ".join(lean_str(g) for g in m.array_branches)))
                info["methods"][name]["array_branch"] = m.array_branches
            if pure and not m.guards:
                helpers["self." + name] = ("Src." + name, [t for _, t in params], pure)
            return True
        attempt(name, go)

    method("setLatPar", [("a", "OS"), ("b", "OS"), ("c", "OS"), ("alpha", "OS"), ("beta", "OS"), ("gamma", "OS"), ("baserot", "OM")],
           "(L : Lattice α) (p_a p_b p_c p_alpha p_beta p_gamma : Option α) (p_baserot : Option (Mat3 α))")
    method("setLatBase", [("base", "M")], "(L : Lattice α) (p_base : Mat3 α)")
    method("cartesian", [("u", "V")], "(L : Lattice α) (p_u : Vec3 α)", pure="V")
    method("fractional", [("rc", "V")], "(L : Lattice α) (p_rc : Vec3 α)", pure="V")
    method("dot", [("u", "V"), ("v", "V")], "(L : Lattice α) (p_u p_v : Vec3 α)", pure="S")
    method("norm", [("xyz", "V")], "(L : Lattice α) (p_xyz : Vec3 α)", pure="S")
    method("rnorm", [("hkl", "V")], "(L : Lattice α) (p_hkl : Vec3 α)", pure="S")
    method("dist", [("u", "V"), ("v", "V")], "(L : Lattice α) (p_u p_v : Vec3 α)", pure="S")
    method("angle", [("u", "V"), ("v", "V")], "(L : Lattice α) (p_u p_v : Vec3 α)", pure="S")

    # volume property (lambda)
    def do_volume():
        if "volume" not in props or props["volume"][0] != "expr":
            raise Untranslatable("property volume not found")
        tx = Tx(text, props["volume"][2], "L", LAT_FIELDS, props, helpers)
        s, t = tx.expr(props["volume"][1], {})
        if t != "S":
            raise Untranslatable("volume: type")
        out.append(emit_def("volume", "(L : Lattice α)", "α", [], s, "property `Lattice.volume`"))
        return True

    attempt("volume", do_volume)

    # reciprocal(): `Lattice(base=numpy.transpose(self.recbase))` -> the base handed to the constructor
    def do_recip():
        fn = find_func(cls.body, "reciprocal")
        if fn is None:
            raise Untranslatable("reciprocal not found")
        body = [s for s in fn.body if not (isinstance(s, ast.Expr) and isinstance(s.value, ast.Constant))]
        call = None
        if len(body) == 2 and isinstance(body[0], ast.Assign) and isinstance(body[1], ast.Return) \
                and isinstance(body[1].value, ast.Name) and isinstance(body[0].targets[0], ast.Name) \
                and body[0].targets[0].id == body[1].value.id:
            call = body[0].value
        elif len(body) == 1 and isinstance(body[0], ast.Return):
            call = body[0].value
        if not (isinstance(call, ast.Call) and isinstance(call.func, ast.Name) and call.func.id == "Lattice"
                and not call.args and len(call.keywords) == 1 and call.keywords[0].arg == "base"):
            raise Untranslatable("reciprocal: not `Lattice(base=...)`")
        tx = Tx(text, fn.args.args[0].arg, "L", LAT_FIELDS, props, helpers)
        s, t = tx.expr(call.keywords[0].value, {})
        if t != "M":
            raise Untranslatable("reciprocal: base type")
        out.append(emit_def("reciprocalBase", "(L : Lattice α)", "Mat3 α", [], s, "the base `Lattice.reciprocal` constructs its result from"))
        return True

    attempt("reciprocalBase", do_recip)

    # cosd / sind and the exact table: data + normalised source text of the two function bodies
    def do_cosd():
        tab = None
        for n in tree.body:
            if isinstance(n, ast.Assign) and len(n.targets) == 1 and isinstance(n.targets[0], ast.Name) and n.targets[0].id == "_EXACT_COSD":
                tab = ast.literal_eval(n.value)
        if not isinstance(tab, dict):
            raise Untranslatable("_EXACT_COSD is not a literal dict")
        rows = []
        for k, v in tab.items():
            if float(k) != int(k) or float(2 * v) != int(2 * v):
                raise Untranslatable("_EXACT_COSD entry %r: %r is not (integer degree, multiple of 1/2)" % (k, v))
            rows.append("(%d, %d)" % (int(k), int(2 * v)))
        out.append("/-- `_EXACT_COSD` as (degrees, 2·value) -/\ndef exactCosd : List (Int × Int) := [%s]\n\n" % ", ".join(rows))
        for fname in ("cosd", "sind"):
            fn = find_func(tree.body, fname)
            if fn is None:
                raise Untranslatable("%s not found" % fname)
            body = [b for b in fn.body if not (isinstance(b, ast.Expr) and isinstance(b.value, ast.Constant) and isinstance(b.value.value, str))]
            txt = "(%s) " % ", ".join(a.arg for a in fn.args.args) + "; ".join(ast.unparse(b).replace("\n", " ") for b in body)
            out.append("/-- normalised source of `lattice.%s` -/\ndef %s_body : String := %s\n\n" % (fname, fname, lean_str(" ".join(txt.split()))))
        info["exact_cosd"] = rows
        return True

    attempt("exactCosd", do_cosd)

    # simple read-only property getters: field map as data
    getters = []
    for name, p in sorted(props.items()):
        if p[0] == "expr" and isinstance(p[1], ast.Attribute) and isinstance(p[1].value, ast.Name) and p[1].value.id == p[2]:
            getters.append((name, p[1].attr))
    out.append("/-- `x = property(lambda self: self._x)` pairs read from the class body -/\n")
    out.append("def latticeGetters : List (String × String) := [%s]\n\n" % ", ".join("(%s, %s)" % (lean_str(a), lean_str(b)) for a, b in getters))
    out.append("/-- property setters `lat.x = v` as source text -/\n")
    out.append("def latticeSetters : List (String × String) := [%s]\n\n" % ", ".join(
        "(%s, %s)" % (lean_str(a), lean_str(b)) for a, b in sorted(setters.items())))
    info["getters"] = getters
    report["lattice"] = info
    body = HEADER % ("src/diffpy/structure/lattice.py", "DS.Model.Lattice") + "open DS\n" + SECTION + "".join(out) + "end\nend DS.Src\n"
    return body



# ------------------------------------------------------------------------------------------------
# atom.py: the ADP state machine (branching code -> nested `if`/`match` by symbolic execution)

LATDATA_FIELDS = {n: (n, "S") for n in "a b c ca cb cg ar br cr".split()}
LATDATA_FIELDS.update({n: (n, "M") for n in "base recbase normbase recnormbase isotropicunit metrics".split()})
LATDATA_FIELDS["_epsilon"] = ("(AdpConst.eps : α)", "S*")   # class constant, not a field


class Sym:
    """symbolic executor for the methods of Atom that touch `_U`, `_anisotropy`, `lattice`.
    State = Lean expression of type `AtomS α`; result = Lean expression."""

    def __init__(self, text, helpers, consts):
        self.text = text
        self.helpers = helpers   # name -> ("get"|"set"|"getset", lean name, nargs)
        self.consts = consts     # python module constant -> lean term

    def bad(self, node, why):
        raise Untranslatable("%s: `%s`" % (why, src_of(node, self.text)[:120]))

    # ---- expressions ---------------------------------------------------------------------------
    def expr(self, e, env, st):
        """-> (lean, type); types S M V B L (LatData) OL (Option LatData)"""
        if isinstance(e, ast.Constant):
            v = e.value
            if isinstance(v, bool) or not isinstance(v, (int, float)):
                self.bad(e, "constant")
            if float(v) == int(v) and int(v) in (0, 1, 2, 3, 8):
                return "%d" % int(v), "S"
            self.bad(e, "numeric constant")
        if isinstance(e, ast.Name):
            if e.id in env:
                return env[e.id]
            if e.id in self.consts:
                return self.consts[e.id], "S"
            self.bad(e, "unknown name")
        if isinstance(e, ast.Attribute) and isinstance(e.value, ast.Name):
            base, x = e.value.id, e.attr
            if base == env.get("__self__"):
                if ("__attr__", x) in env:
                    return env[("__attr__", x)]
                if x == "xyz":
                    return "%s.xyz" % st, "V"
                if x in ("anisotropy", "_anisotropy"):
                    return "%s.aniso" % st, "B"
                if x == "_U":
                    return "%s.U" % st, "M"
                if x == "lattice":
                    return "%s.lat" % st, "OL"
                if x in self.helpers and self.helpers[x][0] == "get" and self.helpers[x][2] == 0:
                    return "(%s %s)" % (self.helpers[x][1], st), self.helpers[x][3]
                self.bad(e, "attribute of self")
            if base in env and env[base][1] == "L":
                if x in LATDATA_FIELDS:
                    f, t = LATDATA_FIELDS[x]
                    if t == "S*":
                        return f, "S"
                    return "%s.%s" % (env[base][0], f), t
                self.bad(e, "lattice attribute")
            if base == "numpy" and x == "pi":
                return "(AdpConst.pi : α)", "S"
            self.bad(e, "attribute")
        if isinstance(e, ast.BoolOp) and isinstance(e.op, ast.Or) and len(e.values) == 2:
            # `self.lattice or cartesian_lattice`
            a, at = self.expr(e.values[0], env, st)
            if at == "OL" and isinstance(e.values[1], ast.Name) and e.values[1].id == "cartesian_lattice":
                if a == "%s.lat" % st:
                    return "%s.latOf" % st, "L"
            self.bad(e, "or")
        if isinstance(e, ast.UnaryOp) and isinstance(e.op, ast.Not):
            a, at = self.expr(e.operand, env, st)
            if at == "B":
                return "!%s" % paren(a), "B"
            self.bad(e, "not")
        if isinstance(e, ast.UnaryOp) and isinstance(e.op, ast.USub):
            a, at = self.expr(e.operand, env, st)
            if at == "S":
                return "-%s" % paren(a), "S"
            self.bad(e, "negation")
        if isinstance(e, ast.BinOp):
            if isinstance(e.op, ast.Pow) and isinstance(e.right, ast.Constant) and e.right.value == 2:
                a, at = self.expr(e.left, env, st)
                if at == "S":
                    return "%s * %s" % (paren(a), paren(a)), "S"
                self.bad(e, "power")
            ops = {ast.Add: "+", ast.Sub: "-", ast.Mult: "*", ast.Div: "/"}
            if type(e.op) not in ops:
                self.bad(e, "operator")
            o = ops[type(e.op)]
            a, at = self.expr(e.left, env, st)
            b, bt = self.expr(e.right, env, st)
            if at == "S" and bt == "S":
                return "%s %s %s" % (lassoc(a, o), o, paren(b)), "S"
            if at == "S" and bt == "M" and o == "*":
                return "Mat3.smul %s %s" % (paren(a), paren(b)), "M"
            self.bad(e, "operand types %s %s %s" % (at, o, bt))
        if isinstance(e, ast.Subscript):
            a, at = self.expr(e.value, env, st)
            sl = e.slice
            if at == "M" and isinstance(sl, ast.Tuple) and len(sl.elts) == 2:
                ij = [self.index(k, env) for k in sl.elts]
                if None not in ij:
                    return "%s.a%d%d" % (paren(a), ij[0] + 1, ij[1] + 1), "S"
            self.bad(e, "subscript")
        if isinstance(e, ast.Call):
            fn = e.func
            name = None
            if isinstance(fn, ast.Name):
                name = fn.id
            elif isinstance(fn, ast.Attribute) and isinstance(fn.value, ast.Name):
                name = "%s.%s" % (fn.value.id, fn.attr)
            if name == "abs" and len(e.args) == 1:
                a, at = self.expr(e.args[0], env, st)
                if at == "S":
                    return "absα %s" % paren(a), "S"
            if name == "bool" and len(e.args) == 1:
                a, at = self.expr(e.args[0], env, st)
                if at == "B":
                    return a, "B"
            if name == "numpy.trace" and len(e.args) == 1:
                a, at = self.expr(e.args[0], env, st)
                if at == "M":
                    return "%s.trace" % paren(a), "S"
            if name == "numpy.transpose" and len(e.args) == 1:
                a, at = self.expr(e.args[0], env, st)
                if at == "M":
                    return "%s.transpose" % paren(a), "M"
            if name == "numpy.dot" and len(e.args) == 2:
                a, at = self.expr(e.args[0], env, st)
                b, bt = self.expr(e.args[1], env, st)
                if (at, bt) == ("M", "M"):
                    return "%s.mul %s" % (paren(a), paren(b)), "M"
                if (at, bt) == ("V", "M"):
                    return "Mat3.vecMul %s %s" % (paren(a), paren(b)), "V"
            if isinstance(fn, ast.Attribute) and isinstance(fn.value, ast.Name) and fn.value.id == env.get("__self__") \
                    and fn.attr in self.helpers and self.helpers[fn.attr][0] == "get" and not e.keywords:
                kind, lean, nargs, rett = self.helpers[fn.attr]
                # _get_Uij(i, j) with constant indices: specialised definitions
                idx = [self.index(a, env) for a in e.args]
                if nargs == len(e.args) and None not in idx:
                    return "(%s_%s %s)" % (lean, "".join(str(k) for k in idx), st), rett
            self.bad(e, "call")
        if isinstance(e, ast.Compare) and len(e.ops) == 1:
            a, at = self.expr(e.left, env, st)
            b, bt = self.expr(e.comparators[0], env, st)
            if isinstance(e.ops[0], ast.Lt) and at == "S" and bt == "S":
                return "%s < %s" % (paren(a), paren(b)), "P"
            self.bad(e, "comparison")
        self.bad(e, "expression")

    def index(self, e, env):
        if isinstance(e, ast.Constant) and isinstance(e.value, int) and 0 <= e.value < 3:
            return e.value
        if isinstance(e, ast.Name) and isinstance(env.get(e.id), tuple) and env[e.id][1] == "I":
            return env[e.id][0]
        return None

    def static(self, e, env):
        """value of a condition over constant indices (`i == j != 0`), or None"""
        if isinstance(e, ast.Compare):
            vals = [self.index(x, env) if not (isinstance(x, ast.Constant) and isinstance(x.value, int)) else x.value
                    for x in [e.left] + e.comparators]
            if None in vals:
                return None
            ok = True
            for (a, b), op in zip(zip(vals, vals[1:]), e.ops):
                if isinstance(op, ast.Eq):
                    ok = ok and a == b
                elif isinstance(op, ast.NotEq):
                    ok = ok and a != b
                else:
                    return None
            return ok
        return None

    # ---- statements ----------------------------------------------------------------------------
    def block(self, stmts, env, st, mode, lets):
        """continuation style; returns Lean expression.  mode 'set' -> state, 'get' -> value, 'getset' -> pair"""
        if not stmts:
            return self.finish(None, env, st, mode, lets)
        s, rest = stmts[0], stmts[1:]
        if isinstance(s, ast.Expr) and isinstance(s.value, ast.Constant) and isinstance(s.value.value, str):
            return self.block(rest, env, st, mode, lets)
        if isinstance(s, ast.Return):
            return self.finish(s.value, env, st, mode, lets)
        if isinstance(s, ast.If):
            return self.branch(s, rest, env, st, mode, lets)
        if isinstance(s, ast.Expr) and isinstance(s.value, ast.Call):
            c = s.value
            name = ast.unparse(c.func)
            # numpy.multiply(self._U[0, 0], lat.isotropicunit, out=self._U)
            if name == "numpy.multiply" and len(c.args) == 2 and len(c.keywords) == 1 and c.keywords[0].arg == "out" \
                    and ast.unparse(c.keywords[0].value) == "%s._U" % env["__self__"]:
                a, at = self.expr(c.args[0], env, st)
                b, bt = self.expr(c.args[1], env, st)
                if (at, bt) == ("S", "M"):
                    return self.assign_U("Mat3.smul %s %s" % (paren(a), paren(b)), rest, env, st, mode, lets)
            # self._set_Uij(i, j, v)
            if isinstance(c.func, ast.Attribute) and isinstance(c.func.value, ast.Name) and c.func.value.id == env["__self__"] \
                    and c.func.attr in self.helpers and self.helpers[c.func.attr][0] == "set":
                kind, lean, nargs, _ = self.helpers[c.func.attr]
                idx = [self.index(a, env) for a in c.args[:-1]]
                v, vt = self.expr(c.args[-1], env, st)
                if None not in idx and vt == "S" and len(c.args) == nargs:
                    new = "(%s_%s %s %s)" % (lean, "".join(str(k) for k in idx), st, paren(v))
                    return self.with_state(new, rest, env, mode, lets)
            self.bad(s, "call statement")
        if isinstance(s, ast.AugAssign) and isinstance(s.op, ast.Mult) and ast.unparse(s.target) == "%s._U" % env["__self__"]:
            v, vt = self.expr(s.value, env, st)
            if vt == "S":
                return self.assign_U("%s.U.scaleR %s" % (st, paren(v)), rest, env, st, mode, lets)
        if isinstance(s, ast.Assign) and len(s.targets) == 1:
            tg = s.targets[0]
            tsrc = ast.unparse(tg)
            me = env["__self__"]
            if isinstance(tg, ast.Name):
                v, vt = self.expr(s.value, env, st) if not self.is_self_U_getter(s.value, env) else (None, None)
                if v is None:
                    # x = self.U  (the getter rewrites the storage)
                    kind, lean, nargs, rett = self.helpers["U"]
                    lets2 = lets + ["let r_%s := %s %s" % (tg.id, lean, st)]
                    env2 = dict(env)
                    env2[tg.id] = ("r_%s.1" % tg.id, "M")
                    return self.block(rest, env2, "r_%s.2" % tg.id, mode, lets2)
                ln = "v_" + tg.id
                env2 = dict(env)
                env2[tg.id] = (ln, vt)
                return "let %s := %s\n%s" % (ln, v, self.block(rest, env2, st, mode, lets))
            if tsrc == "%s._U" % me:
                if self.is_self_U_getter(s.value, env):
                    kind, lean, nargs, rett = self.helpers["U"]
                    return self.with_state("(%s %s).2" % (lean, st), rest, env, mode, lets)
                v, vt = self.expr(s.value, env, st)
                if vt == "M":
                    return self.assign_U(v, rest, env, st, mode, lets)
            if tsrc == "%s._U[:]" % me:
                v, vt = self.expr(s.value, env, st)
                if vt == "M":
                    return self.assign_U(v, rest, env, st, mode, lets)
            if isinstance(tg, ast.Subscript) and ast.unparse(tg.value) == "%s._U" % me and isinstance(tg.slice, ast.Tuple):
                ij = [self.index(k, env) for k in tg.slice.elts]
                v, vt = self.expr(s.value, env, st)
                if None not in ij and len(ij) == 2 and vt == "S":
                    return self.assign_U("{ %s.U with a%d%d := %s }" % (st, ij[0] + 1, ij[1] + 1, v), rest, env, st, mode, lets)
            if tsrc == "%s.U" % me and "U" in self.helpers:
                # assignment through the property: the right-hand side may read `self.U` (the storage-rewriting getter)
                reads = any(self.is_self_U_getter(n, env) for n in ast.walk(s.value))
                r = "r%d" % self.counter()
                env2 = dict(env)
                st2 = st
                pre = ""
                if reads:
                    pre = "let %s := %s %s\n" % (r, self.helpers["U"][1], st)
                    env2[("__attr__", "U")] = ("%s.1" % r, "M")
                    st2 = "%s.2" % r
                v, vt = self.expr(s.value, env2, st2)
                if vt == "M":
                    return pre + self.with_state("Src.setU %s %s" % (st2, paren(v)), rest, env, mode, lets)
            if tsrc == "%s.xyz" % me:
                v, vt = self.expr(s.value, env, st)
                if vt == "V":
                    return self.with_state("{ %s with xyz := %s }" % (st, v), rest, env, mode, lets)
            if tsrc == "%s._anisotropy" % me:
                v, vt = self.expr(s.value, env, st)
                if vt == "B":
                    return self.with_state("{ %s with aniso := %s }" % (st, v), rest, env, mode, lets)
            if tsrc == "%s.Uisoequiv" % me and "Uisoequiv_set" in self.helpers:
                v, vt = self.expr(s.value, env, st)
                if vt == "S":
                    return self.with_state("(%s %s %s)" % (self.helpers["Uisoequiv_set"][1], st, paren(v)), rest, env, mode, lets)
        self.bad(s, "statement")

    def is_self_U_getter(self, e, env):
        return isinstance(e, ast.Attribute) and isinstance(e.value, ast.Name) and e.value.id == env["__self__"] and e.attr == "U"

    def with_state(self, new, rest, env, mode, lets):
        k = len(lets) + sum(1 for _ in rest) * 0
        name = "s%d" % (self.counter())
        return "let %s : AtomS α := %s\n%s" % (name, new, self.block(rest, env, name, mode, lets))

    def assign_U(self, val, rest, env, st, mode, lets):
        return self.with_state("{ %s with U := %s }" % (st, val), rest, env, mode, lets)

    _n = 0

    def counter(self):
        Sym._n += 1
        return Sym._n

    def finish(self, value, env, st, mode, lets):
        if mode == "set":
            if value is not None:
                self.bad(value, "setter returns a value")
            return st
        if value is None:
            raise Untranslatable("getter falls off the end")
        if mode == "getset" and self.is_self_state_U(value, env):
            return "(%s.U, %s)" % (st, st)
        v, vt = self.expr(value, env, st)
        if mode == "getset":
            return "(%s, %s)" % (v, st)
        return v

    def is_self_state_U(self, e, env):
        return ast.unparse(e) == "%s._U" % env["__self__"]

    def branch(self, s, rest, env, st, mode, lets):
        t = s.test
        me = env["__self__"]
        # `if self.lattice is None:` -> match, binding the lattice in the other branch
        if isinstance(t, ast.Compare) and len(t.ops) == 1 and isinstance(t.ops[0], ast.Is) and ast.unparse(t.left) == "%s.lattice" % me \
                and isinstance(t.comparators[0], ast.Constant) and t.comparators[0].value is None:
            a = self.block(s.body + rest, env, st, mode, lets)
            # in the else branch `lat = self.lattice` binds the value
            els = s.orelse + rest
            env2 = dict(env)
            if els and isinstance(els[0], ast.Assign) and len(els[0].targets) == 1 and isinstance(els[0].targets[0], ast.Name) \
                    and ast.unparse(els[0].value) == "%s.lattice" % me:
                env2[els[0].targets[0].id] = ("l", "L")
                els = els[1:]
            b = self.block(els, env2, st, mode, lets)
            return "match %s.lat with\n| none => %s\n| some l => %s" % (st, indent(a), indent(b))
        # `if bool(value) is self._anisotropy: return`
        if isinstance(t, ast.Compare) and len(t.ops) == 1 and isinstance(t.ops[0], ast.Is):
            a_, at = self.expr(t.left, env, st)
            b_, bt = self.expr(t.comparators[0], env, st)
            if at == "B" and bt == "B":
                cond = "%s == %s" % (paren(a_), paren(b_))
                x = self.block(s.body + rest, env, st, mode, lets)
                y = self.block(s.orelse + rest, env, st, mode, lets)
                return "if %s then %s\nelse %s" % (cond, indent(x), indent(y))
        # conjunction with a static part: `not self._anisotropy and i == j != 0`
        conds = t.values if isinstance(t, ast.BoolOp) and isinstance(t.op, ast.And) else [t]
        dyn = []
        for c in conds:
            sv = self.static(c, env)
            if sv is True:
                continue
            if sv is False:
                return self.block(s.orelse + rest, env, st, mode, lets)
            dyn.append(c)
        if not dyn:
            return self.block(s.body + rest, env, st, mode, lets)
        parts = []
        for c in dyn:
            v, vt = self.expr(c, env, st)
            if vt not in ("B", "P"):
                self.bad(c, "condition type")
            parts.append((v, vt))
        if len(parts) == 1:
            cond = parts[0][0]
        elif all(vt == "B" for _, vt in parts):
            cond = " && ".join(paren(v) for v, _ in parts)
        else:
            self.bad(t, "mixed condition")
        x = self.block(s.body + rest, env, st, mode, lets)
        y = self.block(s.orelse + rest, env, st, mode, lets)
        return "if %s then %s\nelse %s" % (cond, indent(x), indent(y))


def indent(txt):
    lines = txt.split("\n")
    if len(lines) == 1:
        return txt
    return "\n" + "\n".join("    " + ln for ln in lines)


ATOM_SECTION = ("section\nvariable {α : Type} [Add α] [Mul α] [Sub α] [Neg α] [Div α] [OfNat α 0] [OfNat α 1]\n"
                "  [OfNat α 2] [OfNat α 3] [OfNat α 8] [LT α] [DecidableLT α] [Elem α] [AdpConst α]\n\n")


def translate_atom(report):
    path = os.path.join(REPO, "src", "diffpy", "structure", "atom.py")
    text = open(path, encoding="utf-8").read()
    tree = ast.parse(text)
    cls = find_class(tree, "Atom")
    info = {"methods": {}, "untranslatable": {}}
    out = []
    helpers = {}
    consts = {}
    Sym._n = 0

    def attempt(name, fn_):
        try:
            fn_()
            info["methods"][name] = True
        except Untranslatable as e:
            info["untranslatable"][name] = str(e)
            out.append("def %s_untranslatable : String := %s\n\n" % (name, lean_str(str(e))))

    def emit(name, params, rett, body, doc):
        out.append("/-- %s -/\ndef %s %s : %s :=\n%s\n\n" % (doc, name, params, rett, "\n".join("  " + ln for ln in body.split("\n"))))

    # module constants _BtoU, _UtoB
    def do_consts():
        sym = Sym(text, {}, consts)
        for n in tree.body:
            if isinstance(n, ast.Assign) and len(n.targets) == 1 and isinstance(n.targets[0], ast.Name) and n.targets[0].id in ("_BtoU", "_UtoB"):
                v, vt = sym.expr(n.value, {"__self__": None}, "s")
                nm = n.targets[0].id.strip("_")
                out.append("/-- `%s = %s` -/\ndef %s : α := %s\n\n" % (n.targets[0].id, ast.unparse(n.value), nm, v))
                consts[n.targets[0].id] = "(Src.%s : α)" % nm
        if set(consts) != {"_BtoU", "_UtoB"}:
            raise Untranslatable("constants _BtoU/_UtoB not found")

    attempt("constants", do_consts)

    def find_prop(name, kind):
        """FunctionDef of a @property getter / @x.setter"""
        for n in cls.body:
            if isinstance(n, ast.FunctionDef) and n.name == name:
                decs = [ast.unparse(d) for d in n.decorator_list]
                if kind == "get" and "property" in decs:
                    return n
                if kind == "set" and ("%s.setter" % name) in decs:
                    return n
        raise Untranslatable("%s %s not found" % (name, kind))

    def run(fn, mode, extra_env=None):
        sym = Sym(text, helpers, consts)
        env = {"__self__": fn.args.args[0].arg}
        env.update(extra_env or {})
        return sym.block(fn.body, env, "s", mode, [])

    # Uisoequiv getter
    def do_uiso_get():
        fn = find_prop("Uisoequiv", "get")
        emit("uisoequiv", "(s : AtomS α)", "α", run(fn, "get"), "`Atom.Uisoequiv` getter")
        helpers["Uisoequiv"] = ("get", "Src.uisoequiv", 0, "S")

    attempt("uisoequiv", do_uiso_get)

    # U getter (rewrites the storage) / setter
    def do_U_get():
        fn = find_prop("U", "get")
        emit("getU", "(s : AtomS α)", "Mat3 α × AtomS α", run(fn, "getset"), "`Atom.U` getter: value and the state it leaves")
        helpers["U"] = ("getset", "Src.getU", 0, "M")

    attempt("getU", do_U_get)

    def do_U_set():
        fn = find_prop("U", "set")
        emit("setU", "(s : AtomS α) (p_value : Mat3 α)", "AtomS α", run(fn, "set", {fn.args.args[1].arg: ("p_value", "M")}), "`Atom.U` setter")

    attempt("setU", do_U_set)

    # _get_Uij / _set_Uij specialised to the six index pairs used by the properties (and their mirror images)
    pairs = [(0, 0), (1, 1), (2, 2), (0, 1), (0, 2), (1, 2)]

    def do_get_uij():
        fn = find_func(cls.body, "_get_Uij")
        if fn is None or [a.arg for a in fn.args.args][1:] != ["i", "j"]:
            raise Untranslatable("_get_Uij(self, i, j) not found")
        for i, j in pairs:
            emit("get_Uij_%d%d" % (i, j), "(s : AtomS α)", "α", run(fn, "get", {"i": (i, "I"), "j": (j, "I")}), "`Atom._get_Uij(%d, %d)`" % (i, j))
        helpers["_get_Uij"] = ("get", "Src.get_Uij", 2, "S")

    attempt("get_Uij", do_get_uij)

    def do_set_uij():
        fn = find_func(cls.body, "_set_Uij")
        if fn is None or [a.arg for a in fn.args.args][1:] != ["i", "j", "value"]:
            raise Untranslatable("_set_Uij(self, i, j, value) not found")
        for i, j in pairs:
            emit("set_Uij_%d%d" % (i, j), "(s : AtomS α) (p_value : α)", "AtomS α",
                 run(fn, "set", {"i": (i, "I"), "j": (j, "I"), "value": ("p_value", "S")}), "`Atom._set_Uij(%d, %d, value)`" % (i, j))
        helpers["_set_Uij"] = ("set", "Src.set_Uij", 3, None)

    attempt("set_Uij", do_set_uij)

    # Uisoequiv setter
    def do_uiso_set():
        fn = find_prop("Uisoequiv", "set")
        emit("setUiso", "(s : AtomS α) (p_value : α)", "AtomS α", run(fn, "set", {fn.args.args[1].arg: ("p_value", "S")}), "`Atom.Uisoequiv` setter")
        helpers["Uisoequiv_set"] = ("set", "Src.setUiso", 1, None)

    attempt("setUiso", do_uiso_set)

    # anisotropy setter
    def do_aniso():
        fn = find_prop("anisotropy", "set")
        emit("setAniso", "(s : AtomS α) (p_value : Bool)", "AtomS α", run(fn, "set", {fn.args.args[1].arg: ("p_value", "B")}), "`Atom.anisotropy` setter")

    attempt("setAniso", do_aniso)

    # Uij / Bij properties: the lambdas, as (name, getter text, setter text) and translated B getters/setters
    def do_props():
        rows = []
        for n in cls.body:
            if isinstance(n, ast.Assign) and len(n.targets) == 1 and isinstance(n.targets[0], ast.Name) \
                    and isinstance(n.value, ast.Call) and ast.unparse(n.value.func) == "property" and len(n.value.args) >= 2 \
                    and n.targets[0].id[0] in "UB" and n.targets[0].id[1:].isdigit():
                nm = n.targets[0].id
                g, st_ = n.value.args[0], n.value.args[1]
                rows.append((nm, ast.unparse(g.body), ast.unparse(st_.body)))
                if nm[0] == "B":
                    sym = Sym(text, helpers, consts)
                    gv, gt = sym.expr(g.body, {"__self__": g.args.args[0].arg}, "s")
                    emit("get_%s" % nm, "(s : AtomS α)", "α", gv, "`Atom.%s` getter" % nm)
                    body = sym.block([ast.Expr(value=st_.body)], {"__self__": st_.args.args[0].arg, st_.args.args[1].arg: ("p_value", "S")}, "s", "set", [])
                    emit("set_%s" % nm, "(s : AtomS α) (p_value : α)", "AtomS α", body, "`Atom.%s` setter" % nm)
        if len(rows) != 12:
            raise Untranslatable("expected 12 Uij/Bij properties, found %d" % len(rows))
        out.append("/-- the Uij / Bij properties as written in the class body: (name, getter, setter) -/\n")
        out.append("def tensorProps : List (String × String × String) := [%s]\n\n" % ",\n  ".join(
            "(%s, %s, %s)" % (lean_str(a), lean_str(b), lean_str(c)) for a, b, c in rows))

    attempt("tensorProps", do_props)

    # Bisoequiv getter / setter
    def do_biso():
        g = find_prop("Bisoequiv", "get")
        emit("bisoequiv", "(s : AtomS α)", "α", run(g, "get"), "`Atom.Bisoequiv` getter")
        st_ = find_prop("Bisoequiv", "set")
        emit("setBiso", "(s : AtomS α) (p_value : α)", "AtomS α", run(st_, "set", {st_.args.args[1].arg: ("p_value", "S")}), "`Atom.Bisoequiv` setter")

    attempt("biso", do_biso)
    report["atom"] = info
    body = (HEADER % ("src/diffpy/structure/atom.py", "DS.Model.Adp")).replace("namespace DS.Src", "namespace DS.Src.Atom") \
        + "open DS\n" + ATOM_SECTION + "".join(out).replace("Src.", "Src.Atom.") + "end\nend DS.Src.Atom\n"
    return body



def translate_structure(report):
    """`Structure.placeInLattice`: the two transformation matrices and the loop body (per atom)"""
    path = os.path.join(REPO, "src", "diffpy", "structure", "structure.py")
    text = open(path, encoding="utf-8").read()
    tree = ast.parse(text)
    cls = find_class(tree, "Structure")
    info = {"methods": {}, "untranslatable": {}}
    out = []
    Sym._n = 0
    try:
        fn = find_func(cls.body, "placeInLattice")
        if fn is None:
            raise Untranslatable("placeInLattice not found")
        me, newlat = [a.arg for a in fn.args.args]
        body = [b for b in fn.body if not (isinstance(b, ast.Expr) and isinstance(b.value, ast.Constant))]
        pre = [b for b in body if isinstance(b, ast.Assign) and isinstance(b.targets[0], ast.Name)]
        loops = [b for b in body if isinstance(b, ast.For)]
        post = [b for b in body if b not in pre and b not in loops]
        if len(loops) != 1 or not (isinstance(loops[0].iter, ast.Name) and loops[0].iter.id == me) or loops[0].orelse \
                or not isinstance(loops[0].target, ast.Name) or body.index(loops[0]) != len(pre):
            raise Untranslatable("placeInLattice: expected assignments, one `for a in self` loop, then the lattice assignment")
        posttxt = [ast.unparse(b) for b in post]
        helpers = {"U": ("getset", "Src.getU", 0, "M")}
        sym = Sym(text, helpers, {})
        # the matrices: expressions over self.lattice (l1) and new_lattice (l2)
        env = {"__self__": "__none__", "l1": ("l1", "L"), newlat: ("l2", "L")}
        lets = []
        for b in pre:
            # self.lattice.X -> l1.X
            val = ast.parse(ast.unparse(b.value).replace("%s.lattice." % me, "l1."), mode="eval").body
            v, vt = sym.expr(val, env, "a")
            if vt != "M":
                raise Untranslatable("placeInLattice: %s is not a matrix" % b.targets[0].id)
            env[b.targets[0].id] = ("v_" + b.targets[0].id, "M")
            lets.append("let v_%s := %s" % (b.targets[0].id, v))
        env["__self__"] = loops[0].target.id
        bodytxt = sym.block(loops[0].body, env, "a", "set", [])
        out.append("/-- `Structure.placeInLattice`: the matrices and the body of `for a in self` -/\n"
                   "def placeAtomBody (l1 l2 : LatData α) (a : AtomS α) : AtomS α :=\n%s\n%s\n\n" % (
                       "\n".join("  " + x for x in lets), "\n".join("  " + x for x in bodytxt.split("\n"))))
        out.append("/-- what follows the loop (the lattice setter re-links every atom, C08) -/\n"
                   "def placeInLattice_after : List String := [%s]\n\n" % ", ".join(lean_str(x) for x in posttxt))
        info["methods"]["placeInLattice"] = True
    except Untranslatable as e:
        info["untranslatable"]["placeInLattice"] = str(e)
        out.append("def placeInLattice_untranslatable : String := %s\n\n" % lean_str(str(e)))
    report["structure"] = info
    hdr = (HEADER % ("src/diffpy/structure/structure.py", "DS.Gen.SrcAtom")).replace("namespace DS.Src", "namespace DS.Src.Structure")
    return hdr + "open DS\n" + ATOM_SECTION + "".join(out).replace("Src.", "Src.Atom.") + "end\nend DS.Src.Structure\n"



def translate_cif(report):
    """the number reader of p_cif.py: the regular expression and the body of `leading_float`, as data"""
    path = os.path.join(REPO, "src", "diffpy", "structure", "parsers", "p_cif.py")
    text = open(path, encoding="utf-8").read()
    tree = ast.parse(text)
    info = {"methods": {}, "untranslatable": {}}
    out = []
    try:
        pat = None
        for n in tree.body:
            if isinstance(n, ast.Assign) and len(n.targets) == 1 and isinstance(n.targets[0], ast.Name) and n.targets[0].id == "rx_float":
                c = n.value
                if isinstance(c, ast.Call) and ast.unparse(c.func) == "re.compile" and len(c.args) == 1 and not c.keywords \
                        and isinstance(c.args[0], ast.Constant) and isinstance(c.args[0].value, str):
                    pat = c.args[0].value
        if pat is None:
            raise Untranslatable("rx_float = re.compile(<literal>) not found")
        fn = find_func(tree.body, "leading_float")
        if fn is None:
            raise Untranslatable("leading_float not found")
        body = [b for b in fn.body if not (isinstance(b, ast.Expr) and isinstance(b.value, ast.Constant) and isinstance(b.value.value, str))]
        txt = "(%s) " % ", ".join(a.arg for a in fn.args.args) + "; ".join(" ".join(ast.unparse(b).split()) for b in body)
        out.append("/-- the pattern of `rx_float` -/\ndef rx_float : String := %s\n\n" % lean_str(pat))
        out.append("/-- normalised source of `leading_float` -/\ndef leading_float_body : String := %s\n\n" % lean_str(txt))
        info["methods"]["leading_float"] = True
    except Untranslatable as e:
        info["untranslatable"]["leading_float"] = str(e)
        out.append("def leading_float_untranslatable : String := %s\n\n" % lean_str(str(e)))
    report["cif"] = info
    return "-- GENERATED by translate/pysrc.py from src/diffpy/structure/parsers/p_cif.py — do not edit\nnamespace DS.Src.Cif\n\n" + "".join(out) + "end DS.Src.Cif\n"



def translate_expansion(report):
    """`supercell`: index list, image coordinates, new cell lengths, guards and loop skeleton"""
    path = os.path.join(REPO, "src", "diffpy", "structure", "expansion", "supercell_mod.py")
    text = open(path, encoding="utf-8").read()
    tree = ast.parse(text)
    info = {"methods": {}, "untranslatable": {}}
    out = []
    try:
        fn = find_func(tree.body, "supercell")
        if fn is None or [a.arg for a in fn.args.args] != ["S", "mno"]:
            raise Untranslatable("supercell(S, mno) not found")
        body = [b for b in fn.body if not (isinstance(b, ast.Expr) and isinstance(b.value, ast.Constant) and isinstance(b.value.value, str))]
        guards, rest = [], []
        for b in body:
            if isinstance(b, ast.If) and all(isinstance(x, (ast.Raise, ast.Assign)) for x in ast.walk(b) if isinstance(x, ast.stmt) and x is not b and not isinstance(x, ast.If)):
                cur = b
                while True:
                    r = [x for x in cur.body if isinstance(x, ast.Raise)]
                    if not r:
                        raise Untranslatable("guard without raise: %s" % ast.unparse(cur.test))
                    exc = r[0].exc.func.id if isinstance(r[0].exc, ast.Call) and isinstance(r[0].exc.func, ast.Name) else "?"
                    guards.append("%s -> %s" % (ast.unparse(cur.test), exc))
                    if len(cur.orelse) == 1 and isinstance(cur.orelse[0], ast.If):
                        cur = cur.orelse[0]
                    elif not cur.orelse:
                        break
                    else:
                        raise Untranslatable("else branch of a guard")
            else:
                rest.append(b)
        # expected skeleton after the guards
        def is_assign(b, name):
            return isinstance(b, ast.Assign) and len(b.targets) == 1 and isinstance(b.targets[0], ast.Name) and b.targets[0].id == name

        names = [b.targets[0].id if isinstance(b, ast.Assign) and isinstance(b.targets[0], ast.Name) else type(b).__name__ for b in rest]
        want = ["mno", "newS", "If", "ijklist", "mnofloats", "newAtoms", "For", "Expr", "Expr", "Return"]
        if names != want:
            raise Untranslatable("supercell: statement skeleton %r" % names)
        b_mno, b_new, b_short, b_ijk, b_mnof, b_atoms, b_for, b_set, b_lat, b_ret = rest
        facts = {
            "mno": ast.unparse(b_mno.value), "newS": ast.unparse(b_new.value),
            "shortcut": "%s -> %s" % (ast.unparse(b_short.test), "; ".join(ast.unparse(x) for x in b_short.body)),
            "mnofloats": ast.unparse(b_mnof.value), "newAtoms": ast.unparse(b_atoms.value),
            "store": ast.unparse(b_set.value), "return": ast.unparse(b_ret.value) if b_ret.value else "",
        }
        if b_short.orelse:
            raise Untranslatable("supercell: shortcut with an else branch")
        # ijklist comprehension: [(i, j, k) for i in range(mno[0]) for j in range(mno[1]) for k in range(mno[2])]
        comp = b_ijk.value
        if not (isinstance(comp, ast.ListComp) and len(comp.generators) == 3 and isinstance(comp.elt, ast.Tuple) and len(comp.elt.elts) == 3):
            raise Untranslatable("ijklist: %s" % ast.unparse(comp))
        dims = {"mno[0]": "l", "mno[1]": "m", "mno[2]": "n"}
        gens = []
        for g in comp.generators:
            if g.ifs or g.is_async or not isinstance(g.target, ast.Name) or not (isinstance(g.iter, ast.Call) and ast.unparse(g.iter.func) == "range" and len(g.iter.args) == 1):
                raise Untranslatable("ijklist generator: %s" % ast.unparse(g.iter))
            d = dims.get(ast.unparse(g.iter.args[0]))
            if d is None:
                raise Untranslatable("ijklist range: %s" % ast.unparse(g.iter))
            gens.append((g.target.id, d))
        elt = [e.id if isinstance(e, ast.Name) else None for e in comp.elt.elts]
        if None in elt or set(elt) != {v for v, _ in gens}:
            raise Untranslatable("ijklist element: %s" % ast.unparse(comp.elt))
        v0, v1, v2 = gens
        out.append("/-- `ijklist` of `supercell` -/\ndef ijkList (l m n : Nat) : List (Nat × Nat × Nat) :=\n"
                   "  (List.range %s).flatMap fun %s => (List.range %s).flatMap fun %s => (List.range %s).map fun %s => (%s, %s, %s)\n\n" % (
                       v0[1], v0[0], v1[1], v1[0], v2[1], v2[0], elt[0], elt[1], elt[2]))
        # the loops: for a in S: for ijk in ijklist: adup = Atom(a); adup.xyz = (a.xyz + ijk) / mnofloats; newAtoms.append(adup)
        if not (isinstance(b_for.iter, ast.Name) and b_for.iter.id == "S" and isinstance(b_for.target, ast.Name) and len(b_for.body) == 1
                and isinstance(b_for.body[0], ast.For) and ast.unparse(b_for.body[0].iter) == "ijklist" and not b_for.orelse):
            raise Untranslatable("supercell: loops %s" % ast.unparse(b_for)[:80])
        a_name = b_for.target.id
        inner = b_for.body[0]
        t_name = inner.target.id if isinstance(inner.target, ast.Name) else None
        ib = inner.body
        if not (t_name and len(ib) == 3 and is_assign(ib[0], ib[0].targets[0].id if isinstance(ib[0], ast.Assign) else "") ):
            raise Untranslatable("supercell: inner loop body")
        dup = ib[0].targets[0].id
        facts["dup"] = ast.unparse(ib[0].value)
        facts["append"] = ast.unparse(ib[2])
        if not (isinstance(ib[1], ast.Assign) and ast.unparse(ib[1].targets[0]) == "%s.xyz" % dup):
            raise Untranslatable("supercell: image coordinates are not assigned to %s.xyz" % dup)
        # image coordinates, component-wise: (a.xyz + ijk) / mnofloats
        e = ib[1].value

        def comp_expr(node, k):
            if isinstance(node, ast.BinOp) and type(node.op) in (ast.Add, ast.Sub, ast.Mult, ast.Div):
                o = {ast.Add: "+", ast.Sub: "-", ast.Mult: "*", ast.Div: "/"}[type(node.op)]
                return "(%s %s %s)" % (comp_expr(node.left, k), o, comp_expr(node.right, k))
            src = ast.unparse(node)
            if src == "%s.xyz" % a_name:
                return "a.xyz." + "xyz"[k]
            if src == t_name:
                return "(t.%s : α)" % ("1", "2.1", "2.2")[k]
            if src == "mnofloats" and facts["mnofloats"] == "numpy.array(mno, dtype=float)":
                return "(%s : α)" % "lmn"[k]
            raise Untranslatable("image coordinates: `%s`" % src)

        out.append("/-- `adup.xyz` of the image `t` of atom `a` -/\ndef imageXyz (l m n : Nat) (a : Expand.Atom α β) (t : Nat × Nat × Nat) : Vec3 α :=\n  ⟨%s, %s, %s⟩\n\n" % (
            comp_expr(e, 0), comp_expr(e, 1), comp_expr(e, 2)))
        # new cell: setLatPar(a=mno[0] * S.lattice.a, ...)
        call = b_lat.value
        if not (isinstance(call, ast.Call) and ast.unparse(call.func) == "newS.lattice.setLatPar" and not call.args):
            raise Untranslatable("supercell: cell update `%s`" % ast.unparse(call)[:80])
        kws = {}
        for k in call.keywords:
            v = k.value
            if not (isinstance(v, ast.BinOp) and isinstance(v.op, ast.Mult) and ast.unparse(v.left) in dims and ast.unparse(v.right) == "S.lattice.%s" % k.arg):
                raise Untranslatable("supercell: cell parameter %s=%s" % (k.arg, ast.unparse(v)))
            kws[k.arg] = "(%s : α) * L.%s" % (dims[ast.unparse(v.left)], k.arg)
        if sorted(kws) != ["a", "b", "c"]:
            raise Untranslatable("supercell: cell update changes %r" % sorted(kws))
        out.append("/-- the cell after `newS.lattice.setLatPar(a=…, b=…, c=…)`: angles and `baserot` are kept -/\n"
                   "def scaleCell (L : Expand.Cell α) (l m n : Nat) : Expand.Cell α :=\n  { L with a := %s, b := %s, c := %s }\n\n" % (kws["a"], kws["b"], kws["c"]))
        out.append("def supercell_guards : List String := [%s]\n\n" % ", ".join(lean_str(g) for g in guards))
        out.append("/-- the statements around the loops, as written -/\ndef supercell_facts : List (String × String) := [%s]\n\n" % ", ".join(
            "(%s, %s)" % (lean_str(k), lean_str(v)) for k, v in sorted(facts.items())))
        info["methods"]["supercell"] = True
    except Untranslatable as e:
        info["untranslatable"]["supercell"] = str(e)
        out.append("def supercell_untranslatable : String := %s\n\n" % lean_str(str(e)))
    report["expansion"] = info
    hdr = ("-- GENERATED by translate/pysrc.py from src/diffpy/structure/expansion/supercell_mod.py — do not edit\n"
           "import DS.Model.Expand\nnamespace DS.Src.Expand\nset_option linter.unusedVariables false\nopen DS\n"
           "section\nvariable {α β : Type} [Add α] [Mul α] [Div α] [Sub α] [NatCast α]\n\n")
    return hdr + "".join(out) + "end\nend DS.Src.Expand\n"


def write_if_changed(path, text):
    try:
        if open(path, encoding="utf-8").read() == text:
            return False
    except OSError:
        pass
    os.makedirs(os.path.dirname(path), exist_ok=True)
    with open(path, "w", encoding="utf-8") as f:
        f.write(text)
    return True


def plugins():
    """further source translators, one file each: `translate/src_<group>.py` defining `GROUP`, `OUTFILE` and
    `translate(report) -> text of DS/Gen/<OUTFILE>` (they read the tree from `pysrc.REPO`)"""
    import glob
    import importlib.util
    found = {}
    for f in sorted(glob.glob(os.path.join(HERE, "src_*.py"))):
        name = "translate_plugin_" + os.path.basename(f)[:-3]
        spec = importlib.util.spec_from_file_location(name, f)
        mod = importlib.util.module_from_spec(spec)
        mod.pysrc = sys.modules[__name__]
        spec.loader.exec_module(mod)
        found[mod.GROUP] = mod
    return found


BASE_GROUPS = ("lattice", "atom", "structure", "cif", "expansion")


def main(outdir=OUTDIR, report_path=None, groups=None):
    report = {}
    plug = plugins()
    if groups is None:
        groups = BASE_GROUPS + tuple(sorted(plug))
    for g in groups:
        if g in plug:
            try:
                text = plug[g].translate(report)
            except Untranslatable as e:  # a plug-in that cannot read its file at all
                report[g] = {"methods": {}, "untranslatable": {"*": str(e)}}
                text = "-- GENERATED by translate/%s — source unreadable\nnamespace DS.Src\ndef %s_untranslatable : String := %s\nend DS.Src\n" % (
                    os.path.basename(plug[g].__file__), g, lean_str(str(e)))
            write_if_changed(os.path.join(outdir, plug[g].OUTFILE), text)
    if "lattice" in groups:
        write_if_changed(os.path.join(outdir, "SrcLattice.lean"), translate_lattice(report))
    if "atom" in groups:
        write_if_changed(os.path.join(outdir, "SrcAtom.lean"), translate_atom(report))
    if "structure" in groups:
        write_if_changed(os.path.join(outdir, "SrcStructure.lean"), translate_structure(report))
    if "cif" in groups:
        write_if_changed(os.path.join(outdir, "SrcCif.lean"), translate_cif(report))
    if "expansion" in groups:
        write_if_changed(os.path.join(outdir, "SrcExpand.lean"), translate_expansion(report))
    if report_path:
        with open(report_path, "w") as f:
            json.dump(report, f, indent=1)
    return report


if __name__ == "__main__":
    a = sys.argv[1:]
    r = main(a[0] if a else OUTDIR, a[1] if len(a) > 1 else None)
    print(json.dumps({k: {"methods": sorted(v["methods"]), "untranslatable": v["untranslatable"]} for k, v in r.items()}, indent=1))
