import DS.Model.Sym
import DS.Model.Formats
import DS.Model.Load
import DS.Model.Sched
import DS.Model.Cli
import DS.Model.SymText
import DS.Gen.Formats
import DS.Model.World
import DS.Model.Orbit
import DS.Model.Constraints
import DS.Model.Lookup
import DS.Model.Cif
import DS.Model.CifNum
import DS.Model.Column
import DS.Model.Partition
import DS.Gen.Lookup
import DS.Model.Adp
import DS.Gen.DIndex
import DS.Model.Parsers
import DS.Gen.Handlers
import DS.Model.Lattice
import DS.Model.Expand
import DS.Model.CifRow
import DS.Model.Rx
import DS.Model.CifSym
/-!
Line-protocol driver: one operation per input line, one canonical result line per operation.
Used by the correspondence checks (harness/*.py).  No Mathlib import anywhere below this file.
-/
open DS

def parseInts (ws : List String) : Option (List Int) := ws.mapM String.toInt?

def findSG (n : Nat) : Option SG := Gen.allSG.find? (fun g => g.number == n)

def showV (v : Int × Int × Int) : String := s!"{v.1} {v.2.1} {v.2.2}"

def symHandle (ws : List String) : Option String :=
  match ws with
  | ["ping"] => some "pong"
  -- sym.act <sgno> <opindex> <k> <x> <y> <z>  : image of (x,y,z)/(24k) under the op, reduced mod 1
  | "sym.act" :: rest =>
    match parseInts rest with
    | some [n, i, k, x, y, z] =>
      match findSG n.toNat with
      | some g =>
        if i.toNat < g.ops.length then some (showV ((getOp g.ops i.toNat).act k (x, y, z))) else some "bad-op"
      | none => some "no-such-sg"
    | _ => some "bad-op"
  -- orbit <sgno> <k> <E> <ox oy oz> <x y z> : expandPosition on coordinates in units 1/(24k)
  | "orbit" :: rest =>
    match parseInts rest with
    | some [n, k, e, ox, oy, oz, x, y, z] =>
      match findSG n.toNat with
      | some g =>
        let (ps, cls, m) := Orbit.result g.ops k e (ox, oy, oz) (x, y, z)
        let pstr := String.intercalate ";" (ps.map showV)
        let cstr := String.intercalate ";" (cls.map (fun c =>
          String.intercalate "," (c.map (fun a => toString (g.ops.idxOf a)))))
        some s!"{m}|{pstr}|{cstr}"
      | none => some "no-such-sg"
    | _ => some "bad-op"
  | _ => none

/-! ### constraints (C05/C06): rationals travel as `p/q` -/

def parseRat (s : String) : Option Rat :=
  match s.splitOn "/" with
  | [p] => p.toInt?.map (fun n => (n : Rat))
  | [p, q] => match p.toInt?, q.toNat? with
    | some n, some d => if d = 0 then none else some ((n : Rat) / (d : Rat))
    | _, _ => none
  | _ => none

def showRat (r : Rat) : String := if r.den = 1 then toString r.num else s!"{r.num}/{r.den}"

def vecs3 : List Rat → List (Vec3 Rat)
  | a :: b :: c :: rest => ⟨a, b, c⟩ :: vecs3 rest
  | _ => []

def mats9 : List Rat → List (Mat3 Rat)
  | a :: b :: c :: d :: e :: f :: g :: h :: i :: rest => ⟨a, b, c, d, e, f, g, h, i⟩ :: mats9 rest
  | _ => []

def showVecQ (v : Vec3 Rat) : String := s!"{showRat v.x} {showRat v.y} {showRat v.z}"
def showMatQ (m : Mat3 Rat) : String :=
  s!"{showRat m.a11} {showRat m.a12} {showRat m.a13} {showRat m.a21} {showRat m.a22} {showRat m.a23} {showRat m.a31} {showRat m.a32} {showRat m.a33}"

/-- `<sgno> <n> <idx…>` → the listed operations of the setting -/
def takeOps (ws : List String) : Option (List Op × List String) :=
  match ws with
  | sg :: n :: rest =>
    match sg.toNat?, n.toNat? with
    | some sgno, some cnt =>
      match findSG sgno with
      | some g =>
        let idx := (rest.take cnt).mapM String.toNat?
        match idx with
        | some is => if is.all (· < g.ops.length) && is.length = cnt then
            some (is.map (getOp g.ops), rest.drop cnt) else none
        | none => none
      | none => none
    | _, _ => none
  | _ => none

def conHandle (ws : List String) : Option String :=
  match ws with
  -- con.free <sgno> <nH> <idx…> <m> <rows 3m> <dual 3m>
  | "con.free" :: rest =>
    match takeOps rest with
    | some (H, m :: nums) =>
      match m.toNat?, nums.mapM parseRat with
      | some mm, some qs =>
        if qs.length ≠ 6 * mm then some "bad-op" else
        let rows := vecs3 (qs.take (3 * mm))
        let dual := vecs3 (qs.drop (3 * mm))
        let a := rows.all (Con.inFree H)
        let b := Con.isDual rows dual
        let c := Con.checkFree H rows dual
        some s!"{c} rowsfree={a} dual={b}"
      | _, _ => some "bad-op"
    | _ => some "bad-op"
  -- con.formula <sgno> 1 <opidx> <m> <rows 3m> <gx gy gz> <ex ey ez>
  | "con.formula" :: rest =>
    match takeOps rest with
    | some ([a], m :: nums) =>
      match m.toNat?, nums.mapM parseRat with
      | some mm, some qs =>
        if qs.length ≠ 3 * mm + 6 then some "bad-op" else
        let rows := vecs3 (qs.take (3 * mm))
        match vecs3 (qs.drop (3 * mm)) with
        | [g, e] =>
          let (vals, tfin) := Con.posParams rows g
          let f := Con.posFormula (Con.rotQ a) rows vals e
          let vs := String.intercalate " " (vals.map showRat)
          let cs := String.intercalate ";" (f.1.map showVecQ)
          some s!"{vs}|{showVecQ tfin}|{cs}|{showVecQ f.2}"
        | _ => some "bad-op"
      | _, _ => some "bad-op"
    | _ => some "bad-op"
  -- con.uspace <sgno> <nH> <idx…> <m> <basis 9m> <dual 9m>
  | "con.uspace" :: rest =>
    match takeOps rest with
    | some (H, m :: nums) =>
      match m.toNat?, nums.mapM parseRat with
      | some mm, some qs =>
        if qs.length ≠ 18 * mm then some "bad-op" else
        let bs := mats9 (qs.take (9 * mm))
        let dual := mats9 (qs.drop (9 * mm))
        let a := bs.all (fun b => Con.inInvT H b && Con.symmB b)
        let b := Con.isDualT bs dual
        let c := Con.checkUspace H bs dual
        some s!"{c} invariant={a} dual={b} ortho={Con.isOrtho bs}"
      | _, _ => some "bad-op"
    | _ => some "bad-op"
  -- con.proj <m> <basis 9m> <U 9>
  | "con.proj" :: m :: nums =>
    match m.toNat?, nums.mapM parseRat with
    | some mm, some qs =>
      if qs.length ≠ 9 * mm + 9 then some "bad-op" else
      let bs := mats9 (qs.take (9 * mm))
      match mats9 (qs.drop (9 * mm)) with
      | [u] => some s!"{String.intercalate " " ((Con.projCoefs bs u).map showRat)}|{showMatQ (Con.proj bs u)}"
      | _ => some "bad-op"
    | _, _ => some "bad-op"
  -- con.rot <sgno> 1 <opidx> <U 9>
  | "con.rot" :: rest =>
    match takeOps rest with
    | some ([a], nums) =>
      match nums.mapM parseRat with
      | some qs => match mats9 qs with
        | [u] => some (showMatQ (Con.rotT (Con.rotQ a) u))
        | _ => some "bad-op"
      | none => some "bad-op"
    | _ => some "bad-op"
  | _ => none

/-! ### lookup (C11): string keys travel hex-encoded (UTF-8 bytes) -/

def hexVal (c : Char) : Option Nat :=
  if '0' ≤ c && c ≤ '9' then some (c.toNat - '0'.toNat)
  else if 'a' ≤ c && c ≤ 'f' then some (c.toNat - 'a'.toNat + 10) else none

def unhexBytes : List Char → Option (List UInt8)
  | [] => some []
  | a :: b :: rest => do
    let x ← hexVal a
    let y ← hexVal b
    let r ← unhexBytes rest
    pure ((x * 16 + y).toUInt8 :: r)
  | _ => none

def unhex (s : String) : Option String := do
  let bs ← unhexBytes s.toList
  String.fromUTF8? (ByteArray.mk bs.toArray)

def hexOf (s : String) : String :=
  let d := fun (n : Nat) => "0123456789abcdef".toList.getD n '0'
  String.ofList (s.toUTF8.toList.flatMap (fun b => [d (b.toNat / 16), d (b.toNat % 16)]))

/-- the identifier table as the model builds it from the generated settings and aliases -/
def theTable : Option Lookup.Table := Lookup.buildTable Gen.allSG Gen.aliases

def parseKey : List String → Option Lookup.Key
  | ["n", v] => v.toNat?.map Lookup.Key.num
  | ["s", h] => (unhex h).map Lookup.Key.str
  | ["s"] => some (Lookup.Key.str "")
  | _ => none

def opsOfInts : List Int → List Op
  | r11 :: r12 :: r13 :: r21 :: r22 :: r23 :: r31 :: r32 :: r33 :: t1 :: t2 :: t3 :: rest =>
    ⟨r11, r12, r13, r21, r22, r23, r31, r32, r33, t1, t2, t3⟩ :: opsOfInts rest
  | _ => []

def lookupHandle (ws : List String) : Option String :=
  match ws with
  | ["lookup.dump"] =>
    match theTable with
    | none => some "keyerror"
    | some t => some (String.intercalate " " (t.map (fun e => match e.1 with
        | .num n => s!"n:{n}={e.2}"
        | .str s => s!"s:{hexOf s}={e.2}")))
  | "lookup.get" :: rest =>
    match theTable, parseKey rest with
    | some t, some k => match Lookup.getSG t k with
      | some i => some (toString i)
      | none => some "ValueError"
    | none, _ => some "keyerror"
    | _, none => some "bad-op"
  -- lookup.find <12 ints per op …> : position of the tabulated setting with the same fingerprint
  | "lookup.find" :: rest =>
    match parseInts rest with
    | some is =>
      if is.length % 12 ≠ 0 then some "bad-op" else
      let ops := opsOfInts is
      match Lookup.findSG Gen.allSG ops with
      | some i => some s!"{i} {Lookup.sameOrder ((Gen.allSG.getD i default).ops) ops}"
      | none => some "ValueError"
    | none => some "bad-op"
  | _ => none

/-! ### CIF expansion (C07) -/

def parseSites : List String → Option (List Cif.Site)
  | [] => some []
  | x :: y :: z :: an :: u1 :: u2 :: u3 :: u4 :: u5 :: u6 :: u7 :: u8 :: u9 :: oc :: rest =>
    match x.toInt?, y.toInt?, z.toInt?, [u1, u2, u3, u4, u5, u6, u7, u8, u9, oc].mapM parseRat with
    | some xi, some yi, some zi, some [v1, v2, v3, v4, v5, v6, v7, v8, v9, o] =>
      (parseSites rest).map (fun more =>
        ({ label := "L", elem := "X", x := (xi, yi, zi), occ := o, aniso := an == "1",
           U := ⟨v1, v2, v3, v4, v5, v6, v7, v8, v9⟩ } : Cif.Site) :: more)
    | _, _, _, _ => none
  | _ => none

def cifHandle (ws : List String) : Option String :=
  match ws with
  -- cif.expand <sgno> <k> <E> then per site: x y z aniso(0/1) U(9 rationals) occ
  | "cif.expand" :: sg :: k :: e :: rest =>
    match sg.toNat?, k.toInt?, e.toInt?, parseSites rest with
    | some sgno, some kk, some ee, some sites =>
      match findSG sgno with
      | some g =>
        let out := Cif.expand g.ops kk ee sites
        some (String.intercalate ";" (out.map (fun a =>
          s!"{a.site} {a.img} {showV a.pos} {showRat a.occ} {if a.aniso then 1 else 0} {showMatQ a.U}")))
      | none => some "no-such-sg"
    | _, _, _, _ => some "bad-op"
  | ["cif.label", l, j] => j.toNat?.map (fun n => Cif.imageLabel l n)
  -- con.partition <sgno> <k> <x y z>… : coremap of SymmetryConstraints on exact positions (units 1/(24k))
  | "con.partition" :: sg :: k :: rest =>
    match sg.toNat?, k.toInt?, parseInts rest with
    | some sgno, some kk, some is =>
      match findSG sgno with
      | some g =>
        let rec trip : List Int → List P3
          | a :: b :: c :: more => (a, b, c) :: trip more
          | _ => []
        let cm := Partition.coremap g.ops kk (trip is)
        some (String.intercalate ";" (cm.map (fun e => s!"{e.1}:" ++ String.intercalate "," (e.2.map toString))))
      | none => some "no-such-sg"
    | _, _, _ => some "bad-op"
  | _ => none

/-- REGISTER model handlers here: each returns `none` for commands it does not own.
Command names are prefixed by the model (`sym.`, `lat.`, `adp.`, `stru.`, ...). -/
def handlers : List (List String → Option String) :=
  [ symHandle
  , conHandle
  , lookupHandle
  , cifHandle
  , DS.Parsers.parsersHandle DS.Gen.parsersCfg
  , fmtHandle
  , DS.Load.loadHandle
  , DS.Sched.schedHandle
  , DS.Cli.cliHandle DS.Gen.cliConfig
  , DS.SymText.symTextHandle
  , DS.World.worldHandle
  , adpHandle
  , latHandle
  , DS.Expand.expandHandle
  , DS.CifNum.cifnumHandle
  , DS.Column.columnHandle
  , DS.CifRow.cifrowHandle
  , DS.Rx.rxHandle
  , DS.CifSym.cifsymHandle
  ]

def handle (ws : List String) : String :=
  (handlers.findSome? (fun h => h ws)).getD "bad-op"

partial def loop (h : IO.FS.Stream) (out : IO.FS.Stream) : IO Unit := do
  let line ← h.getLine
  if line.isEmpty then return ()
  let ws := (line.trimAscii.toString.splitOn " ").filter (· ≠ "")
  out.putStrLn (handle ws)
  loop h out

def main : IO Unit := do
  let out ← IO.getStdout
  loop (← IO.getStdin) out
