import DS.Model.Sym
import DS.Model.Formats
import DS.Model.Load
import DS.Model.Sched
import DS.Model.Cli
import DS.Model.SymText
import DS.Gen.Formats
import DS.Model.World
import DS.Model.Orbit
import DS.Model.Constraints
import DS.Model.Adp
import DS.Gen.DIndex
import DS.Model.Parsers
import DS.Gen.Handlers
import DS.Model.Lattice
import DS.Model.Expand
/-!
Line-protocol driver: one operation per input line, one canonical result line per operation.
Used by the correspondence checks (harness/*.py).  No Mathlib import anywhere below this file.
-/
open DS

def parseInts (ws : List String) : Option (List Int) := ws.mapM String.toInt?

def findSG (n : Nat) : Option SG := Gen.allSG.find? (fun g => g.number == n)

def showV (v : Int × Int × Int) : String := s!"{v.1} {v.2.1} {v.2.2}"

def symHandle (ws : List String) : Option String :=
  match ws with
  | ["ping"] => some "pong"
  -- sym.act <sgno> <opindex> <k> <x> <y> <z>  : image of (x,y,z)/(24k) under the op, reduced mod 1
  | "sym.act" :: rest =>
    match parseInts rest with
    | some [n, i, k, x, y, z] =>
      match findSG n.toNat with
      | some g =>
        if i.toNat < g.ops.length then some (showV ((getOp g.ops i.toNat).act k (x, y, z))) else some "bad-op"
      | none => some "no-such-sg"
    | _ => some "bad-op"
  -- orbit <sgno> <k> <E> <ox oy oz> <x y z> : expandPosition on coordinates in units 1/(24k)
  | "orbit" :: rest =>
    match parseInts rest with
    | some [n, k, e, ox, oy, oz, x, y, z] =>
      match findSG n.toNat with
      | some g =>
        let (ps, cls, m) := Orbit.result g.ops k e (ox, oy, oz) (x, y, z)
        let pstr := String.intercalate ";" (ps.map showV)
        let cstr := String.intercalate ";" (cls.map (fun c =>
          String.intercalate "," (c.map (fun a => toString (g.ops.idxOf a)))))
        some s!"{m}|{pstr}|{cstr}"
      | none => some "no-such-sg"
    | _ => some "bad-op"
  | _ => none

/-! ### constraints (C05/C06): rationals travel as `p/q` -/

def parseRat (s : String) : Option Rat :=
  match s.splitOn "/" with
  | [p] => p.toInt?.map (fun n => (n : Rat))
  | [p, q] => match p.toInt?, q.toNat? with
    | some n, some d => if d = 0 then none else some ((n : Rat) / (d : Rat))
    | _, _ => none
  | _ => none

def showRat (r : Rat) : String := if r.den = 1 then toString r.num else s!"{r.num}/{r.den}"

def vecs3 : List Rat → List (Vec3 Rat)
  | a :: b :: c :: rest => ⟨a, b, c⟩ :: vecs3 rest
  | _ => []

def mats9 : List Rat → List (Mat3 Rat)
  | a :: b :: c :: d :: e :: f :: g :: h :: i :: rest => ⟨a, b, c, d, e, f, g, h, i⟩ :: mats9 rest
  | _ => []

def showVecQ (v : Vec3 Rat) : String := s!"{showRat v.x} {showRat v.y} {showRat v.z}"
def showMatQ (m : Mat3 Rat) : String :=
  s!"{showRat m.a11} {showRat m.a12} {showRat m.a13} {showRat m.a21} {showRat m.a22} {showRat m.a23} {showRat m.a31} {showRat m.a32} {showRat m.a33}"

/-- `<sgno> <n> <idx…>` → the listed operations of the setting -/
def takeOps (ws : List String) : Option (List Op × List String) :=
  match ws with
  | sg :: n :: rest =>
    match sg.toNat?, n.toNat? with
    | some sgno, some cnt =>
      match findSG sgno with
      | some g =>
        let idx := (rest.take cnt).mapM String.toNat?
        match idx with
        | some is => if is.all (· < g.ops.length) && is.length = cnt then
            some (is.map (getOp g.ops), rest.drop cnt) else none
        | none => none
      | none => none
    | _, _ => none
  | _ => none

def conHandle (ws : List String) : Option String :=
  match ws with
  -- con.free <sgno> <nH> <idx…> <m> <rows 3m> <dual 3m>
  | "con.free" :: rest =>
    match takeOps rest with
    | some (H, m :: nums) =>
      match m.toNat?, nums.mapM parseRat with
      | some mm, some qs =>
        if qs.length ≠ 6 * mm then some "bad-op" else
        let rows := vecs3 (qs.take (3 * mm))
        let dual := vecs3 (qs.drop (3 * mm))
        let a := rows.all (Con.inFree H)
        let b := Con.isDual rows dual
        let c := Con.checkFree H rows dual
        some s!"{c} rowsfree={a} dual={b}"
      | _, _ => some "bad-op"
    | _ => some "bad-op"
  -- con.formula <sgno> 1 <opidx> <m> <rows 3m> <gx gy gz> <ex ey ez>
  | "con.formula" :: rest =>
    match takeOps rest with
    | some ([a], m :: nums) =>
      match m.toNat?, nums.mapM parseRat with
      | some mm, some qs =>
        if qs.length ≠ 3 * mm + 6 then some "bad-op" else
        let rows := vecs3 (qs.take (3 * mm))
        match vecs3 (qs.drop (3 * mm)) with
        | [g, e] =>
          let (vals, tfin) := Con.posParams rows g
          let f := Con.posFormula (Con.rotQ a) rows vals e
          let vs := String.intercalate " " (vals.map showRat)
          let cs := String.intercalate ";" (f.1.map showVecQ)
          some s!"{vs}|{showVecQ tfin}|{cs}|{showVecQ f.2}"
        | _ => some "bad-op"
      | _, _ => some "bad-op"
    | _ => some "bad-op"
  -- con.uspace <sgno> <nH> <idx…> <m> <basis 9m> <dual 9m>
  | "con.uspace" :: rest =>
    match takeOps rest with
    | some (H, m :: nums) =>
      match m.toNat?, nums.mapM parseRat with
      | some mm, some qs =>
        if qs.length ≠ 18 * mm then some "bad-op" else
        let bs := mats9 (qs.take (9 * mm))
        let dual := mats9 (qs.drop (9 * mm))
        let a := bs.all (fun b => Con.inInvT H b && Con.symmB b)
        let b := Con.isDualT bs dual
        let c := Con.checkUspace H bs dual
        some s!"{c} invariant={a} dual={b} ortho={Con.isOrtho bs}"
      | _, _ => some "bad-op"
    | _ => some "bad-op"
  -- con.proj <m> <basis 9m> <U 9>
  | "con.proj" :: m :: nums =>
    match m.toNat?, nums.mapM parseRat with
    | some mm, some qs =>
      if qs.length ≠ 9 * mm + 9 then some "bad-op" else
      let bs := mats9 (qs.take (9 * mm))
      match mats9 (qs.drop (9 * mm)) with
      | [u] => some s!"{String.intercalate " " ((Con.projCoefs bs u).map showRat)}|{showMatQ (Con.proj bs u)}"
      | _ => some "bad-op"
    | _, _ => some "bad-op"
  -- con.rot <sgno> 1 <opidx> <U 9>
  | "con.rot" :: rest =>
    match takeOps rest with
    | some ([a], nums) =>
      match nums.mapM parseRat with
      | some qs => match mats9 qs with
        | [u] => some (showMatQ (Con.rotT (Con.rotQ a) u))
        | _ => some "bad-op"
      | none => some "bad-op"
    | _ => some "bad-op"
  | _ => none

/-- REGISTER model handlers here: each returns `none` for commands it does not own.
Command names are prefixed by the model (`sym.`, `lat.`, `adp.`, `stru.`, ...). -/
def handlers : List (List String → Option String) :=
  [ symHandle
  , conHandle
  , DS.Parsers.parsersHandle DS.Gen.parsersCfg
  , fmtHandle
  , DS.Load.loadHandle
  , DS.Sched.schedHandle
  , DS.Cli.cliHandle DS.Gen.cliConfig
  , DS.SymText.symTextHandle
  , DS.World.worldHandle
  , adpHandle
  , latHandle
  , DS.Expand.expandHandle
  ]

def handle (ws : List String) : String :=
  (handlers.findSome? (fun h => h ws)).getD "bad-op"

partial def loop (h : IO.FS.Stream) (out : IO.FS.Stream) : IO Unit := do
  let line ← h.getLine
  if line.isEmpty then return ()
  let ws := (line.trimAscii.toString.splitOn " ").filter (· ≠ "")
  out.putStrLn (handle ws)
  loop h out

def main : IO Unit := do
  let out ← IO.getStdout
  loop (← IO.getStdin) out
