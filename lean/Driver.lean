import DS.Model.Sym
import DS.Model.Formats
import DS.Model.Load
import DS.Model.Sched
import DS.Model.World
import DS.Model.Orbit
import DS.Model.Adp
import DS.Gen.DIndex
import DS.Model.Parsers
import DS.Gen.Handlers
import DS.Model.Lattice
import DS.Model.Expand
/-!
Line-protocol driver: one operation per input line, one canonical result line per operation.
Used by the correspondence checks (harness/*.py).  No Mathlib import anywhere below this file.
-/
open DS

def parseInts (ws : List String) : Option (List Int) := ws.mapM String.toInt?

def findSG (n : Nat) : Option SG := Gen.allSG.find? (fun g => g.number == n)

def showV (v : Int × Int × Int) : String := s!"{v.1} {v.2.1} {v.2.2}"

def symHandle (ws : List String) : Option String :=
  match ws with
  | ["ping"] => some "pong"
  -- sym.act <sgno> <opindex> <k> <x> <y> <z>  : image of (x,y,z)/(24k) under the op, reduced mod 1
  | "sym.act" :: rest =>
    match parseInts rest with
    | some [n, i, k, x, y, z] =>
      match findSG n.toNat with
      | some g =>
        if i.toNat < g.ops.length then some (showV ((getOp g.ops i.toNat).act k (x, y, z))) else some "bad-op"
      | none => some "no-such-sg"
    | _ => some "bad-op"
  -- orbit <sgno> <k> <E> <ox oy oz> <x y z> : expandPosition on coordinates in units 1/(24k)
  | "orbit" :: rest =>
    match parseInts rest with
    | some [n, k, e, ox, oy, oz, x, y, z] =>
      match findSG n.toNat with
      | some g =>
        let (ps, cls, m) := Orbit.result g.ops k e (ox, oy, oz) (x, y, z)
        let pstr := String.intercalate ";" (ps.map showV)
        let cstr := String.intercalate ";" (cls.map (fun c =>
          String.intercalate "," (c.map (fun a => toString (g.ops.idxOf a)))))
        some s!"{m}|{pstr}|{cstr}"
      | none => some "no-such-sg"
    | _ => some "bad-op"
  | _ => none

/-- REGISTER model handlers here: each returns `none` for commands it does not own.
Command names are prefixed by the model (`sym.`, `lat.`, `adp.`, `stru.`, ...). -/
def handlers : List (List String → Option String) :=
  [ symHandle
  , DS.Parsers.parsersHandle DS.Gen.parsersCfg
  , fmtHandle
  , DS.Load.loadHandle
  , DS.Sched.schedHandle
  , DS.World.worldHandle
  , adpHandle
  , latHandle
  , DS.Expand.expandHandle
  ]

def handle (ws : List String) : String :=
  (handlers.findSome? (fun h => h ws)).getD "bad-op"

partial def loop (h : IO.FS.Stream) (out : IO.FS.Stream) : IO Unit := do
  let line ← h.getLine
  if line.isEmpty then return ()
  let ws := (line.trimAscii.toString.splitOn " ").filter (· ≠ "")
  out.putStrLn (handle ws)
  loop h out

def main : IO Unit := do
  let out ← IO.getStdout
  loop (← IO.getStdin) out
