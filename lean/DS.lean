-- Root of the `DS` library.
import DS.Model.Sym
import DS.Gen.Index
