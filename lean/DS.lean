-- Root of the `DS` library: every module that `lake build DS` must check.
import DS.Model.Sym
import DS.Model.SymSpec
import DS.Model.Lin
import DS.Gen.Index
import DS.Gen.DIndex
import DS.Lemmas.Group
import DS.Lemmas.RealElem
import DS.Props.C03
