import DS.Model.Formats
import DS.Lemmas.Dec
import DS.Lemmas.Formats
import DS.Lemmas.FormatsX
import Mathlib.Data.List.Nodup

/-!
# File-level round trip for CIF (`DS.Model.Formats`): `roundtrip_cif`
-/
namespace DS.Formats
open DS.Dec

/-! ## CIF -/

/-! ### lines ↔ text when a line may contain a carriage return (title lines) -/

/-- no line feed -/
def NoLF (s : Str) : Prop := ∀ c ∈ s, c ≠ '\n'

theorem NoLF_of_NoNL {s : Str} (h : NoNL s) : NoLF s := by
  intro c hc e
  have := h c hc
  subst e
  simp [isNL] at this

theorem splitLinesAux_noLF (l rest acc : Str) (h : NoLF l) :
    splitLinesAux (l ++ '\n' :: rest) acc = (acc.reverse ++ l) :: splitLinesAux rest [] := by
  induction l generalizing acc with
  | nil => simp [splitLinesAux]
  | cons c l ih =>
    have hc : (c == '\n') = false := by simpa using h c (by simp)
    simp only [List.cons_append, splitLinesAux, hc, Bool.false_eq_true, if_false]
    rw [ih _ (fun d hd => h d (by simp [hd]))]
    simp

theorem splitLinesAux_last' (l acc : Str) (h : NoLF l) : splitLinesAux l acc = [acc.reverse ++ l] := by
  induction l generalizing acc with
  | nil => simp [splitLinesAux]
  | cons c l ih =>
    have hc : (c == '\n') = false := by simpa using h c (by simp)
    simp only [splitLinesAux, hc, Bool.false_eq_true, if_false]
    rw [ih _ (fun d hd => h d (by simp [hd]))]
    simp

theorem splitLines_joinLines' (L : List Str) (hne : L ≠ []) (h : ∀ l ∈ L, NoLF l) :
    splitLines (joinLines L) = L := by
  induction L with
  | nil => exact absurd rfl hne
  | cons l ls ih =>
    cases ls with
    | nil =>
      simp only [joinLines, splitLines]
      rw [splitLinesAux_last' l [] (h l (by simp))]; simp
    | cons m ms =>
      simp only [joinLines, splitLines]
      rw [splitLinesAux_noLF l _ [] (h l (by simp))]
      have := ih (by simp) (fun x hx => h x (by simp [hx]))
      simp only [splitLines] at this
      rw [this]; simp

/-- `parse(tostring(lines))` gives back the lines when no line contains a line feed and the last
line ends in a character that is not a line break -/
theorem ofText_toText' (init : List Str) (pre : Str) (c : Char) (hc : isNL c = false)
    (h : ∀ l ∈ init ++ [pre ++ [c]], NoLF l) : ofText (toText (init ++ [pre ++ [c]])) = init ++ [pre ++ [c]] := by
  have e : ∃ s, joinLines (init ++ [pre ++ [c]]) = s ++ [c] := by
    rw [joinLines_snoc]; split
    · exact ⟨pre, rfl⟩
    · exact ⟨joinLines init ++ '\n' :: pre, by simp⟩
  obtain ⟨s, hs⟩ := e
  unfold ofText toText
  rw [hs, rstripNL_snoc_nl s c hc, ← hs, splitLines_joinLines' _ (by simp) h]

/-! ### the writer's and reader's literals as character lists -/

def kData : Str := ['d', 'a', 't', 'a', '_', '3', 'D']
def kLoop : Str := ['l', 'o', 'o', 'p', '_']
def tDate : Str := ['_', 'a', 'u', 'd', 'i', 't', '_', 'c', 'r', 'e', 'a', 't', 'i', 'o', 'n', '_', 'd', 'a', 't', 'e']
def tMeth : Str := ['_', 'a', 'u', 'd', 'i', 't', '_', 'c', 'r', 'e', 'a', 't', 'i', 'o', 'n', '_', 'm', 'e', 't', 'h', 'o', 'd']
def tSg : Str := ['_', 's', 'y', 'm', 'm', 'e', 't', 'r', 'y', '_', 's', 'p', 'a', 'c', 'e', '_', 'g', 'r', 'o', 'u', 'p', '_', 'n', 'a', 'm', 'e', '_', 'H', '-', 'M']
def tNum : Str := ['_', 's', 'y', 'm', 'm', 'e', 't', 'r', 'y', '_', 'I', 'n', 't', '_', 'T', 'a', 'b', 'l', 'e', 's', '_', 'n', 'u', 'm', 'b', 'e', 'r']
def tSet : Str := ['_', 's', 'y', 'm', 'm', 'e', 't', 'r', 'y', '_', 'c', 'e', 'l', 'l', '_', 's', 'e', 't', 't', 'i', 'n', 'g']
def tCa : Str := ['_', 'c', 'e', 'l', 'l', '_', 'l', 'e', 'n', 'g', 't', 'h', '_', 'a']
def tCb : Str := ['_', 'c', 'e', 'l', 'l', '_', 'l', 'e', 'n', 'g', 't', 'h', '_', 'b']
def tCc : Str := ['_', 'c', 'e', 'l', 'l', '_', 'l', 'e', 'n', 'g', 't', 'h', '_', 'c']
def tCal : Str := ['_', 'c', 'e', 'l', 'l', '_', 'a', 'n', 'g', 'l', 'e', '_', 'a', 'l', 'p', 'h', 'a']
def tCbe : Str := ['_', 'c', 'e', 'l', 'l', '_', 'a', 'n', 'g', 'l', 'e', '_', 'b', 'e', 't', 'a']
def tCga : Str := ['_', 'c', 'e', 'l', 'l', '_', 'a', 'n', 'g', 'l', 'e', '_', 'g', 'a', 'm', 'm', 'a']
def vDate : Str := ['D', 'A', 'T', 'E']
def vMeth : Str := ['P', '_', 'c', 'i', 'f', '.', 'p', 'y']
def vSg : Str := ['\'', 'P', '1', '\'']
def vNum : Str := ['1']
def vSet : Str := ['t', 'r', 'i', 'c', 'l', 'i', 'n', 'i', 'c']
def sLabel : Str := ['_', 'a', 't', 'o', 'm', '_', 's', 'i', 't', 'e', '_', 'l', 'a', 'b', 'e', 'l']
def sType : Str := ['_', 'a', 't', 'o', 'm', '_', 's', 'i', 't', 'e', '_', 't', 'y', 'p', 'e', '_', 's', 'y', 'm', 'b', 'o', 'l']
def sX : Str := ['_', 'a', 't', 'o', 'm', '_', 's', 'i', 't', 'e', '_', 'f', 'r', 'a', 'c', 't', '_', 'x']
def sY : Str := ['_', 'a', 't', 'o', 'm', '_', 's', 'i', 't', 'e', '_', 'f', 'r', 'a', 'c', 't', '_', 'y']
def sZ : Str := ['_', 'a', 't', 'o', 'm', '_', 's', 'i', 't', 'e', '_', 'f', 'r', 'a', 'c', 't', '_', 'z']
def sUiso : Str := ['_', 'a', 't', 'o', 'm', '_', 's', 'i', 't', 'e', '_', 'U', '_', 'i', 's', 'o', '_', 'o', 'r', '_', 'e', 'q', 'u', 'i', 'v']
def sAdp : Str := ['_', 'a', 't', 'o', 'm', '_', 's', 'i', 't', 'e', '_', 'a', 'd', 'p', '_', 't', 'y', 'p', 'e']
def sOcc : Str := ['_', 'a', 't', 'o', 'm', '_', 's', 'i', 't', 'e', '_', 'o', 'c', 'c', 'u', 'p', 'a', 'n', 'c', 'y']
def aLabel : Str := ['_', 'a', 't', 'o', 'm', '_', 's', 'i', 't', 'e', '_', 'a', 'n', 'i', 's', 'o', '_', 'l', 'a', 'b', 'e', 'l']
def aU11 : Str := ['_', 'a', 't', 'o', 'm', '_', 's', 'i', 't', 'e', '_', 'a', 'n', 'i', 's', 'o', '_', 'U', '_', '1', '1']
def aU22 : Str := ['_', 'a', 't', 'o', 'm', '_', 's', 'i', 't', 'e', '_', 'a', 'n', 'i', 's', 'o', '_', 'U', '_', '2', '2']
def aU33 : Str := ['_', 'a', 't', 'o', 'm', '_', 's', 'i', 't', 'e', '_', 'a', 'n', 'i', 's', 'o', '_', 'U', '_', '3', '3']
def aU12 : Str := ['_', 'a', 't', 'o', 'm', '_', 's', 'i', 't', 'e', '_', 'a', 'n', 'i', 's', 'o', '_', 'U', '_', '1', '2']
def aU13 : Str := ['_', 'a', 't', 'o', 'm', '_', 's', 'i', 't', 'e', '_', 'a', 'n', 'i', 's', 'o', '_', 'U', '_', '1', '3']
def aU23 : Str := ['_', 'a', 't', 'o', 'm', '_', 's', 'i', 't', 'e', '_', 'a', 'n', 'i', 's', 'o', '_', 'U', '_', '2', '3']
def kUiso : Str := ['U', 'i', 's', 'o']
def kUani : Str := ['U', 'a', 'n', 'i']
def kBiso : Str := ['B', 'i', 's', 'o']
theorem kData_eq : "data_3D".toList = kData := rfl
theorem kLoop_eq : "loop_".toList = kLoop := rfl
theorem tDate_eq : "_audit_creation_date".toList = tDate := rfl
theorem tMeth_eq : "_audit_creation_method".toList = tMeth := rfl
theorem tSg_eq : "_symmetry_space_group_name_H-M".toList = tSg := rfl
theorem tNum_eq : "_symmetry_Int_Tables_number".toList = tNum := rfl
theorem tSet_eq : "_symmetry_cell_setting".toList = tSet := rfl
theorem tCa_eq : "_cell_length_a".toList = tCa := rfl
theorem tCb_eq : "_cell_length_b".toList = tCb := rfl
theorem tCc_eq : "_cell_length_c".toList = tCc := rfl
theorem tCal_eq : "_cell_angle_alpha".toList = tCal := rfl
theorem tCbe_eq : "_cell_angle_beta".toList = tCbe := rfl
theorem tCga_eq : "_cell_angle_gamma".toList = tCga := rfl
theorem vDate_eq : "DATE".toList = vDate := rfl
theorem vMeth_eq : "P_cif.py".toList = vMeth := rfl
theorem vSg_eq : "'P1'".toList = vSg := rfl
theorem vNum_eq : "1".toList = vNum := rfl
theorem vSet_eq : "triclinic".toList = vSet := rfl
theorem sLabel_eq : "_atom_site_label".toList = sLabel := rfl
theorem sType_eq : "_atom_site_type_symbol".toList = sType := rfl
theorem sX_eq : "_atom_site_fract_x".toList = sX := rfl
theorem sY_eq : "_atom_site_fract_y".toList = sY := rfl
theorem sZ_eq : "_atom_site_fract_z".toList = sZ := rfl
theorem sUiso_eq : "_atom_site_U_iso_or_equiv".toList = sUiso := rfl
theorem sAdp_eq : "_atom_site_adp_type".toList = sAdp := rfl
theorem sOcc_eq : "_atom_site_occupancy".toList = sOcc := rfl
theorem aLabel_eq : "_atom_site_aniso_label".toList = aLabel := rfl
theorem aU11_eq : "_atom_site_aniso_U_11".toList = aU11 := rfl
theorem aU22_eq : "_atom_site_aniso_U_22".toList = aU22 := rfl
theorem aU33_eq : "_atom_site_aniso_U_33".toList = aU33 := rfl
theorem aU12_eq : "_atom_site_aniso_U_12".toList = aU12 := rfl
theorem aU13_eq : "_atom_site_aniso_U_13".toList = aU13 := rfl
theorem aU23_eq : "_atom_site_aniso_U_23".toList = aU23 := rfl
theorem kUiso_eq : "Uiso".toList = kUiso := rfl
theorem kUani_eq : "Uani".toList = kUani := rfl
theorem kBiso_eq : "Biso".toList = kBiso := rfl

def tagLineS (t v : Str) : Str := padRight 31 t ++ ' ' :: v

def cifTitle (t : Str) : List Str :=
  if (strip t).isEmpty then [] else (splitOnNL t).map (fun l => '#' :: ' ' :: strip l) ++ [[]]

def cifFixed (c : Cell6) : List Str :=
  [kData, tagLineS tDate vDate, tagLineS tMeth vMeth, [], tagLineS tSg vSg, tagLineS tNum vNum, tagLineS tSet vSet, [],
   tagLineS tCa (fmtG 6 c.a), tagLineS tCb (fmtG 6 c.b), tagLineS tCc (fmtG 6 c.c), tagLineS tCal (fmtG 6 c.al),
   tagLineS tCbe (fmtG 6 c.be), tagLineS tCga (fmtG 6 c.ga), []]

def siteTags : List Str := [sLabel, sType, sX, sY, sZ, sUiso, sAdp, sOcc]
def anisoTags : List Str := [aLabel, aU11, aU22, aU33, aU12, aU13, aU23]

/-- the labelled atoms of a document -/
def cifLA (d : CifS) : List (Str × CifAtom) := (cifLabels [] (d.atoms.map (·.el))).zip d.atoms

def cifAni (d : CifS) : List (Str × CifAtom) := (cifLA d).filter (fun p => !uIsIso p.2.u)

theorem writeCif_eq (d : CifS) :
    writeCif d = cifTitle d.title ++ (cifFixed d.cell ++ (kLoop :: (siteTags.map (fun t => ' ' :: ' ' :: t) ++
      ((cifLA d).map (fun p => cifAtomLine p.1 p.2) ++
       (if (cifAni d).isEmpty then [] else
         kLoop :: (anisoTags.map (fun t => ' ' :: ' ' :: t) ++ (cifAni d).map (fun p => cifAnisoLine p.1 p.2))))))) := by
  have : writeCif d = cifTitle d.title ++ (cifFixed d.cell ++ (kLoop :: siteTags.map (fun t => ' ' :: ' ' :: t))) ++
      (cifLA d).map (fun p => cifAtomLine p.1 p.2) ++
      (if (cifAni d).isEmpty then [] else
        (kLoop :: anisoTags.map (fun t => ' ' :: ' ' :: t)) ++ (cifAni d).map (fun p => cifAnisoLine p.1 p.2)) := rfl
  rw [this]
  simp only [List.append_assoc, List.cons_append]

/-! ### single-line items (`_tag value`) -/

def cifItemS (T : Str) (l : Str) : Option Str :=
  match splitWs l with
  | [t, v] => if t == T then some v else none
  | _ => none

theorem cifItem_eq (lines : List Str) (tag : String) : cifItem lines tag = lines.findSome? (cifItemS tag.toList) := rfl

theorem splitWs_tagLineS {t v : Str} (ht : IsTok t) (hv : IsTok v) : splitWs (tagLineS t v) = [t, v] := by
  unfold tagLineS
  rw [padRight_eq, List.append_assoc,
    show List.replicate (31 - t.length) ' ' ++ ' ' :: v = (List.replicate (31 - t.length) ' ' ++ [' ']) ++ v by simp,
    splitWs_tok_blanks ht (AllWs_snoc_space (AllWs_replicate _)) (by simp), splitWs_tok_end hv]

theorem cifItemS_tag_ne {T t v : Str} (ht : IsTok t) (hv : IsTok v) (hne : t ≠ T) : cifItemS T (tagLineS t v) = none := by
  simp [cifItemS, splitWs_tagLineS ht hv, hne]

theorem cifItemS_tag_eq {T v : Str} (ht : IsTok T) (hv : IsTok v) : cifItemS T (tagLineS T v) = some v := by
  simp [cifItemS, splitWs_tagLineS ht hv]

theorem cifItemS_nil (T : Str) : cifItemS T [] = none := rfl

theorem cifItemS_data (T : Str) : cifItemS T kData = none := by
  have : splitWs kData = [kData] := by decide
  simp [cifItemS, this]

/-- a comment line (`# …`) is not an item -/
theorem cifItemS_comment (T r : Str) (hT : T ≠ ['#']) : cifItemS T ('#' :: ' ' :: r) = none := by
  have h : splitWs ('#' :: ' ' :: r) = ['#'] :: splitWs r :=
    splitWs_tok_ws (t := ['#']) (s := r) ⟨by simp, by intro c hc; simp at hc; subst hc; decide⟩ isWs_space
  unfold cifItemS
  rw [h]
  split
  · rename_i t v heq
    simp only [List.cons.injEq] at heq
    have : t ≠ T := by rw [← heq.1]; exact fun e => hT e.symm
    simp [this]
  · rfl

theorem cifItemS_title (T : Str) (hT : T ≠ ['#']) (t : Str) : ∀ l ∈ cifTitle t, cifItemS T l = none := by
  intro l hl
  unfold cifTitle at hl
  split at hl
  · cases hl
  · simp only [List.mem_append, List.mem_map, List.mem_singleton] at hl
    rcases hl with ⟨x, _, rfl⟩ | rfl
    · exact cifItemS_comment T _ hT
    · rfl

theorem findSome?_append_none {α β} (f : α → Option β) (pre rest : List α) (h : ∀ l ∈ pre, f l = none) :
    (pre ++ rest).findSome? f = rest.findSome? f := by
  induction pre with
  | nil => rfl
  | cons a pre ih =>
    rw [List.cons_append, List.findSome?_cons, h a (by simp)]
    exact ih (fun l hl => h l (by simp [hl]))

theorem cifItemS_tag {T t v : Str} (ht : IsTok t) (hv : IsTok v) :
    cifItemS T (tagLineS t v) = if t = T then some v else none := by
  by_cases h : t = T
  · subst h; simp [cifItemS_tag_eq ht hv]
  · simp [cifItemS_tag_ne ht hv h, h]

theorem tok_tags : IsTok tDate ∧ IsTok tMeth ∧ IsTok tSg ∧ IsTok tNum ∧ IsTok tSet ∧ IsTok tCa ∧ IsTok tCb ∧ IsTok tCc ∧
    IsTok tCal ∧ IsTok tCbe ∧ IsTok tCga ∧ IsTok vDate ∧ IsTok vMeth ∧ IsTok vSg ∧ IsTok vNum ∧ IsTok vSet := by
  refine ⟨?_, ?_, ?_, ?_, ?_, ?_, ?_, ?_, ?_, ?_, ?_, ?_, ?_, ?_, ?_, ?_⟩ <;> exact IsTok_lit _ (by decide)

theorem findSome?_tag_cons {T t v : Str} (ht : IsTok t) (hv : IsTok v) (rest : List Str) :
    (tagLineS t v :: rest).findSome? (cifItemS T) = if t = T then some v else rest.findSome? (cifItemS T) := by
  rw [List.findSome?_cons, cifItemS_tag ht hv]
  by_cases h : t = T <;> simp [h]

theorem findSome?_data_cons (T : Str) (rest : List Str) :
    (kData :: rest).findSome? (cifItemS T) = rest.findSome? (cifItemS T) := by
  rw [List.findSome?_cons, cifItemS_data]

theorem findSome?_nil_cons (T : Str) (rest : List Str) :
    (([] : Str) :: rest).findSome? (cifItemS T) = rest.findSome? (cifItemS T) := by
  rw [List.findSome?_cons, cifItemS_nil]

/-- looking a tag up in the fixed part of the written file -/
theorem fixed_lookup (T : Str) (c : Cell6) (rest : List Str) :
    (cifFixed c ++ rest).findSome? (cifItemS T) =
      if tDate = T then some vDate else if tMeth = T then some vMeth else if tSg = T then some vSg else
      if tNum = T then some vNum else if tSet = T then some vSet else
      if tCa = T then some (fmtG 6 c.a) else if tCb = T then some (fmtG 6 c.b) else if tCc = T then some (fmtG 6 c.c) else
      if tCal = T then some (fmtG 6 c.al) else if tCbe = T then some (fmtG 6 c.be) else
      if tCga = T then some (fmtG 6 c.ga) else rest.findSome? (cifItemS T) := by
  obtain ⟨h1, h2, h3, h4, h5, h6, h7, h8, h9, h10, h11, g1, g2, g3, g4, g5⟩ := tok_tags
  unfold cifFixed
  simp only [List.cons_append, List.nil_append]
  rw [findSome?_data_cons, findSome?_tag_cons h1 g1, findSome?_tag_cons h2 g2, findSome?_nil_cons,
    findSome?_tag_cons h3 g3, findSome?_tag_cons h4 g4, findSome?_tag_cons h5 g5, findSome?_nil_cons,
    findSome?_tag_cons h6 (IsTok_fmtG 6 _), findSome?_tag_cons h7 (IsTok_fmtG 6 _), findSome?_tag_cons h8 (IsTok_fmtG 6 _),
    findSome?_tag_cons h9 (IsTok_fmtG 6 _), findSome?_tag_cons h10 (IsTok_fmtG 6 _), findSome?_tag_cons h11 (IsTok_fmtG 6 _),
    findSome?_nil_cons]

/-- the six cell items of a written file -/
theorem cif_cell_items (title : Str) (c : Cell6) (rest : List Str) :
    let lines := cifTitle title ++ (cifFixed c ++ rest)
    cifItem lines "_cell_length_a" = some (fmtG 6 c.a) ∧ cifItem lines "_cell_length_b" = some (fmtG 6 c.b) ∧
    cifItem lines "_cell_length_c" = some (fmtG 6 c.c) ∧ cifItem lines "_cell_angle_alpha" = some (fmtG 6 c.al) ∧
    cifItem lines "_cell_angle_beta" = some (fmtG 6 c.be) ∧ cifItem lines "_cell_angle_gamma" = some (fmtG 6 c.ga) := by
  intro lines
  have key : ∀ T : Str, T ≠ ['#'] → lines.findSome? (cifItemS T) = (cifFixed c ++ rest).findSome? (cifItemS T) :=
    fun T hT => findSome?_append_none _ _ _ (cifItemS_title T hT title)
  refine ⟨?_, ?_, ?_, ?_, ?_, ?_⟩
  · rw [cifItem_eq, tCa_eq, key _ (by decide), fixed_lookup]; rfl
  · rw [cifItem_eq, tCb_eq, key _ (by decide), fixed_lookup]; rfl
  · rw [cifItem_eq, tCc_eq, key _ (by decide), fixed_lookup]; rfl
  · rw [cifItem_eq, tCal_eq, key _ (by decide), fixed_lookup]; rfl
  · rw [cifItem_eq, tCbe_eq, key _ (by decide), fixed_lookup]; rfl
  · rw [cifItem_eq, tCga_eq, key _ (by decide), fixed_lookup]; rfl

/-! ### loops -/

theorem cifLoops_nil (n : Nat) : cifLoops n [] = [] := by cases n <;> rfl

theorem cifLoops_succ_cons (n : Nat) (l : Str) (rest : List Str) :
    cifLoops (n + 1) (l :: rest) =
      if splitWs l == [kLoop] then
        ((rest.takeWhile isTagLine).map strip, loopRows (rest.dropWhile isTagLine)) :: cifLoops n (rest.dropWhile isTagLine)
      else cifLoops n rest := rfl

/-- enough fuel is as good as any -/
theorem cifLoops_fuel : ∀ (n m : Nat) (lines : List Str), lines.length ≤ n → lines.length ≤ m →
    cifLoops n lines = cifLoops m lines := by
  intro n
  induction n with
  | zero =>
    intro m lines h1 _
    have : lines = [] := List.length_eq_zero_iff.1 (by omega)
    subst this
    rw [cifLoops_nil, cifLoops_nil]
  | succ n ih =>
    intro m lines h1 h2
    cases lines with
    | nil => rw [cifLoops_nil, cifLoops_nil]
    | cons l rest =>
      cases m with
      | zero => simp at h2
      | succ m =>
        simp only [List.length_cons] at h1 h2
        have hd : (rest.dropWhile isTagLine).length ≤ rest.length := (List.dropWhile_sublist _).length_le
        rw [cifLoops_succ_cons, cifLoops_succ_cons, ih m rest (by omega) (by omega),
          ih m (rest.dropWhile isTagLine) (by omega) (by omega)]

/-- `cifLoops` with the fuel the reader gives it -/
def cifLoopsU (lines : List Str) : List (List Str × List (List Str)) := cifLoops lines.length lines

theorem cifLoopsU_nil : cifLoopsU [] = [] := rfl

theorem cifLoopsU_skip (l : Str) (rest : List Str) (h : (splitWs l == [kLoop]) = false) :
    cifLoopsU (l :: rest) = cifLoopsU rest := by
  unfold cifLoopsU
  rw [List.length_cons, cifLoops_succ_cons, h]
  rfl

theorem cifLoopsU_skips (pre rest : List Str) (h : ∀ l ∈ pre, (splitWs l == [kLoop]) = false) :
    cifLoopsU (pre ++ rest) = cifLoopsU rest := by
  induction pre with
  | nil => rfl
  | cons a pre ih =>
    rw [List.cons_append, cifLoopsU_skip _ _ (h a (by simp))]
    exact ih (fun l hl => h l (by simp [hl]))

theorem cifLoopsU_loop (rest : List Str) :
    cifLoopsU (kLoop :: rest) =
      ((rest.takeWhile isTagLine).map strip, loopRows (rest.dropWhile isTagLine)) :: cifLoopsU (rest.dropWhile isTagLine) := by
  have hk : (splitWs kLoop == [kLoop]) = true := by decide
  have hd : (rest.dropWhile isTagLine).length ≤ rest.length := (List.dropWhile_sublist _).length_le
  unfold cifLoopsU
  rw [List.length_cons, cifLoops_succ_cons, hk, if_pos rfl,
    cifLoops_fuel rest.length _ (rest.dropWhile isTagLine) hd (Nat.le_refl _)]

/-! ### site labels -/

def isLetterA (c : Char) : Bool := isUpperA c || isLowerA c

/-- what `cifElemOk` gives: a token that starts with a letter and does not end in a digit -/
theorem cifElemOk_spec {e : Str} (h : cifElemOk e = true) :
    IsTok e ∧ (∃ c cs, e = c :: cs ∧ isLetterA c = true) ∧ (∀ c ∈ e.reverse.head?, isDigit c = false) := by
  unfold cifElemOk at h
  simp only [Bool.and_eq_true, Bool.not_eq_true', Bool.or_eq_true] at h
  obtain ⟨hl, hr⟩ := h
  have hsplit : e = e.takeWhile (fun c => isUpperA c || isLowerA c) ++ e.dropWhile (fun c => isUpperA c || isLowerA c) :=
    (List.takeWhile_append_dropWhile).symm
  generalize hL : e.takeWhile (fun c => isUpperA c || isLowerA c) = L at hl hsplit
  generalize hR : e.dropWhile (fun c => isUpperA c || isLowerA c) = R at hr hsplit
  have hLall : ∀ c ∈ L, isLetterA c = true := by
    intro c hc; rw [← hL] at hc; exact takeWhile_all _ _ c hc
  have hletter_ws : ∀ c, isLetterA c = true → isWs c = false ∧ isDigit c = false := by
    intro c hc
    simp only [isLetterA, isUpperA, isLowerA, Bool.or_eq_true, Bool.and_eq_true, decide_eq_true_eq] at hc
    simp only [isWs, isDigit]
    constructor <;> (simp only [Bool.or_eq_false_iff, Bool.and_eq_false_iff, decide_eq_false_iff_not, beq_eq_false_iff_ne]; omega)
  cases L with
  | nil => simp at hl
  | cons c0 L0 =>
    have hc0 := hLall c0 (by simp)
    rcases hr with hr | hr
    · have : R = [] := by simpa using hr
      subst this
      simp only [List.append_nil] at hsplit
      refine ⟨⟨by rw [hsplit]; simp, fun c hc => (hletter_ws c (hLall c (hsplit ▸ hc))).1⟩, ⟨c0, L0, hsplit, hc0⟩, ?_⟩
      intro c hc
      rw [hsplit] at hc
      have : c ∈ (c0 :: L0) := by
        have := List.mem_of_mem_head? hc
        rw [List.mem_reverse] at this
        exact this
      exact (hletter_ws c (hLall c this)).2
    · split at hr
      · rename_i dg sg
        simp only [Bool.and_eq_true, Bool.or_eq_true, beq_iff_eq] at hr
        obtain ⟨hdg, hsg⟩ := hr
        refine ⟨⟨by rw [hsplit]; simp, ?_⟩, ⟨c0, L0 ++ [dg, sg], by rw [hsplit]; simp, hc0⟩, ?_⟩
        · intro c hc
          rw [hsplit] at hc
          simp only [List.mem_append, List.mem_cons, List.not_mem_nil, or_false] at hc
          rcases hc with hc | rfl | rfl
          · exact (hletter_ws c (hLall c (by simpa using hc))).1
          · exact isWs_of_isDigit hdg
          · rcases hsg with rfl | rfl <;> decide
        · intro c hc
          rw [hsplit] at hc
          simp only [List.reverse_append, List.reverse_cons, List.reverse_nil, List.nil_append, List.cons_append,
            List.head?_cons, Option.mem_def, Option.some.injEq] at hc
          subst hc
          rcases hsg with rfl | rfl <;> decide
      · cases hr

/-- a label `element ++ digits` determines both parts when the element does not end in a digit -/
theorem label_split (e ds : Str) (hd : allDigits ds = true) (he : ∀ c ∈ e.reverse.head?, isDigit c = false) :
    ((e ++ ds).reverse.takeWhile isDigit).reverse = ds ∧ ((e ++ ds).reverse.dropWhile isDigit).reverse = e := by
  have hd' : allDigits ds.reverse = true := by simpa [allDigits] using hd
  have := takeWhile_digits ds.reverse e.reverse hd' he
  rw [List.reverse_append, this.1, this.2]
  simp

theorem label_inj {e e' ds ds' : Str} (hd : allDigits ds = true) (hd' : allDigits ds' = true)
    (he : ∀ c ∈ e.reverse.head?, isDigit c = false) (he' : ∀ c ∈ e'.reverse.head?, isDigit c = false)
    (h : e ++ ds = e' ++ ds') : e = e' ∧ ds = ds' := by
  have h1 := label_split e ds hd he
  have h2 := label_split e' ds' hd' he'
  rw [h] at h1
  exact ⟨h1.2.symm.trans h2.2, h1.1.symm.trans h2.1⟩

theorem natDigits_inj {a b : Nat} (h : natDigits a = natDigits b) : a = b := by
  have := congrArg numOf h
  rwa [numOf_natDigits, numOf_natDigits] at this

def cnt (e : Str) (seen : List Str) : Nat := (seen.filter (· == e)).length

theorem cifLabels_cons (seen : List Str) (e : Str) (es : List Str) :
    cifLabels seen (e :: es) = (e ++ natDigits (cnt e seen + 1)) :: cifLabels (e :: seen) es := rfl

theorem cnt_cons_self (e : Str) (seen : List Str) : cnt e (e :: seen) = cnt e seen + 1 := by
  simp [cnt]

theorem cnt_cons_le (e x : Str) (seen : List Str) : cnt e seen ≤ cnt e (x :: seen) := by
  unfold cnt
  rw [List.filter_cons]
  split <;> simp

theorem cifLabels_mem (es : List Str) : ∀ (seen : List Str) (l : Str), l ∈ cifLabels seen es →
    ∃ e ∈ es, ∃ k, cnt e seen < k ∧ l = e ++ natDigits k := by
  induction es with
  | nil => intro seen l h; cases h
  | cons e es ih =>
    intro seen l h
    rw [cifLabels_cons, List.mem_cons] at h
    rcases h with rfl | h
    · exact ⟨e, by simp, cnt e seen + 1, by omega, rfl⟩
    · obtain ⟨e', he', k, hk, rfl⟩ := ih (e :: seen) l h
      exact ⟨e', by simp [he'], k, Nat.lt_of_le_of_lt (cnt_cons_le e' e seen) hk, rfl⟩

theorem cifLabels_length (es : List Str) : ∀ seen, (cifLabels seen es).length = es.length := by
  induction es with
  | nil => intro _; rfl
  | cons e es ih => intro seen; rw [cifLabels_cons, List.length_cons, ih, List.length_cons]

theorem cifLabels_nodup (es : List Str) (hok : ∀ e ∈ es, ∀ c ∈ e.reverse.head?, isDigit c = false) :
    ∀ seen, (cifLabels seen es).Nodup := by
  induction es with
  | nil => intro _; exact List.nodup_nil
  | cons e es ih =>
    intro seen
    rw [cifLabels_cons, List.nodup_cons]
    refine ⟨?_, ih (fun x hx => hok x (by simp [hx])) _⟩
    intro hmem
    obtain ⟨e', he', k, hk, heq⟩ := cifLabels_mem es (e :: seen) _ hmem
    obtain ⟨h1, h2⟩ := label_inj (allDigits_natDigits _) (allDigits_natDigits _) (hok e (by simp))
      (hok e' (by simp [he'])) heq
    subst h1
    have := natDigits_inj h2
    rw [cnt_cons_self] at hk
    omega

/-- what the proof needs of a site label -/
structure LabelOK (lb : Str) : Prop where
  tok : IsTok lb
  head : ∃ c cs, lb = c :: cs ∧ isLetterA c = true
  notLoop : lb ≠ kLoop

theorem labelOK_of_mem (es : List Str) (hok : ∀ e ∈ es, cifElemOk e = true) (seen : List Str) (lb : Str)
    (h : lb ∈ cifLabels seen es) : LabelOK lb := by
  obtain ⟨e, he, k, _, rfl⟩ := cifLabels_mem es seen lb h
  obtain ⟨htok, ⟨c, cs, hcs, hc⟩, hlast⟩ := cifElemOk_spec (hok e he)
  refine ⟨⟨by simp [htok.1], NoWs_append htok.2 (IsTok_natDigits k).2⟩, ⟨c, cs ++ natDigits k, by rw [hcs]; rfl, hc⟩, ?_⟩
  intro heq
  have h1 := (label_split e (natDigits k) (allDigits_natDigits k) hlast).1
  rw [heq] at h1
  have h2 : ((kLoop.reverse.takeWhile isDigit).reverse) = [] := by decide
  rw [h2] at h1
  exact natDigits_ne_nil k h1.symm

theorem letter_ne {c : Char} (h : isLetterA c = true) : c ≠ '_' ∧ c ≠ '#' := by
  constructor <;> (intro e; subst e; revert h; decide)

theorem ssv_cons2 (f g : Str) (gs : List Str) : ssv (f :: g :: gs) = f ++ ' ' :: ssv (g :: gs) := by
  simp [ssv, joinSep]

/-- a row line `  label …` is not a tag line -/
theorem isTagLine_row {lb : Str} (hlb : LabelOK lb) (X : Str) : isTagLine (sp 2 ++ (padRight 5 lb ++ X)) = false := by
  obtain ⟨c, cs, hcs, hc⟩ := hlb.head
  unfold isTagLine
  rw [lstrip_allWs_append (AllWs_sp 2), padRight_eq, List.append_assoc, lstrip_tok_head hlb.tok, hcs]
  simp [(letter_ne hc).1]

/-- the rows of a loop: lines whose first word is a label -/
theorem loopRows_rows (lines : List Str) (tail : List Str)
    (h : ∀ l ∈ lines, ∃ lb ws, LabelOK lb ∧ splitWs l = lb :: ws) :
    loopRows (lines ++ tail) = lines.map splitWs ++ loopRows tail := by
  induction lines with
  | nil => rfl
  | cons l lines ih =>
    obtain ⟨lb, ws, hlb, hw⟩ := h l (by simp)
    obtain ⟨c, cs, hcs, hc⟩ := hlb.head
    have h1 : (lb == "loop_".toList) = false := by
      rw [kLoop_eq]; simpa using hlb.notLoop
    have h2 : (lb.head? == some '_') = false := by rw [hcs]; simp [(letter_ne hc).1]
    have h3 : (lb.head? == some '#') = false := by rw [hcs]; simp [(letter_ne hc).2]
    rw [List.cons_append, loopRows, hw]
    simp only [h1, h2, h3, Bool.or_self, Bool.false_eq_true, if_false, List.map_cons, List.cons_append]
    rw [← hw, ih (fun x hx => h x (by simp [hx]))]

theorem loopRows_nil : loopRows [] = [] := rfl

theorem loopRows_loop (rest : List Str) : loopRows (kLoop :: rest) = [] := by
  have : splitWs kLoop = [kLoop] := by decide
  rw [loopRows, this]
  simp [kLoop_eq]

theorem takeWhile_append_stop {α} (p : α → Bool) (H R : List α) (hH : ∀ x ∈ H, p x = true)
    (hR : ∀ x ∈ R.head?, p x = false) : (H ++ R).takeWhile p = H ∧ (H ++ R).dropWhile p = R := by
  induction H with
  | nil =>
    cases R with
    | nil => simp
    | cons r R => simp at hR; simp [hR]
  | cons a H ih =>
    have := ih (fun x hx => hH x (by simp [hx]))
    simp [hH a (by simp), this]

/-! ### the lines of the written file, one kind at a time -/

theorem splitWs_cifAtomLine (lb : Str) (a : CifAtom) (hl : IsTok lb) (he : IsTok a.el) :
    splitWs (cifAtomLine lb a) =
      [lb, a.el, fmtFbody 6 a.xyz.x, fmtFbody 6 a.xyz.y, fmtFbody 6 a.xyz.z, fmtFbody 6 a.uiso,
       (if uIsIso a.u then kUiso else kUani), fmtFbody 4 a.occ] :=
  (cif_row_roundtrip lb a hl he).1

theorem splitWs_cifAnisoLine (lb : Str) (a : CifAtom) (hl : IsTok lb) :
    splitWs (cifAnisoLine lb a) = lb :: [0, 4, 8, 1, 2, 5].map (fun k => fmtFbody 6 (a.u.getD k 0)) := by
  unfold cifAnisoLine
  rw [splitWs_allWs_append (AllWs_sp 2)]
  exact splitWs_joinSep_pad AllWs_one (by simp) _ _
    (.cons (PadOf_padRight 5 _ hl) (.cons (PadOf_fmtF _ _ _) (.cons (PadOf_fmtF _ _ _) (.cons (PadOf_fmtF _ _ _)
      (.cons (PadOf_fmtF _ _ _) (.cons (PadOf_fmtF _ _ _) (.cons (PadOf_fmtF _ _ _) .nil)))))))

theorem cifAtomLine_form (lb : Str) (a : CifAtom) : ∃ X, cifAtomLine lb a = sp 2 ++ (padRight 5 lb ++ X) :=
  ⟨_, by unfold cifAtomLine; rw [ssv_cons2]⟩

theorem cifAnisoLine_form (lb : Str) (a : CifAtom) : ∃ X, cifAnisoLine lb a = sp 2 ++ (padRight 5 lb ++ X) :=
  ⟨_, by unfold cifAnisoLine; simp only [List.map_cons]; rw [ssv_cons2]⟩

theorem notLoop_of_len {l : Str} {w0 w1 : Str} {ws : List Str} (h : splitWs l = w0 :: w1 :: ws) :
    (splitWs l == [kLoop]) = false := by
  rw [h]; simp

theorem notLoop_title (t : Str) : ∀ l ∈ cifTitle t, (splitWs l == [kLoop]) = false := by
  intro l hl
  unfold cifTitle at hl
  split at hl
  · cases hl
  · simp only [List.mem_append, List.mem_map, List.mem_singleton] at hl
    rcases hl with ⟨x, _, rfl⟩ | rfl
    · have h : splitWs ('#' :: ' ' :: strip x) = ['#'] :: splitWs (strip x) :=
        splitWs_tok_ws (t := ['#']) ⟨by simp, by intro c hc; simp at hc; subst hc; decide⟩ isWs_space
      rw [h]
      simp [kLoop]
    · rfl

theorem notLoop_fixed (c : Cell6) : ∀ l ∈ cifFixed c, (splitWs l == [kLoop]) = false := by
  obtain ⟨h1, h2, h3, h4, h5, h6, h7, h8, h9, h10, h11, g1, g2, g3, g4, g5⟩ := tok_tags
  intro l hl
  simp only [cifFixed, List.mem_cons, List.not_mem_nil, or_false] at hl
  rcases hl with rfl | rfl | rfl | rfl | rfl | rfl | rfl | rfl | rfl | rfl | rfl | rfl | rfl | rfl | rfl
  · decide
  · exact notLoop_of_len (splitWs_tagLineS h1 g1)
  · exact notLoop_of_len (splitWs_tagLineS h2 g2)
  · rfl
  · exact notLoop_of_len (splitWs_tagLineS h3 g3)
  · exact notLoop_of_len (splitWs_tagLineS h4 g4)
  · exact notLoop_of_len (splitWs_tagLineS h5 g5)
  · rfl
  · exact notLoop_of_len (splitWs_tagLineS h6 (IsTok_fmtG 6 _))
  · exact notLoop_of_len (splitWs_tagLineS h7 (IsTok_fmtG 6 _))
  · exact notLoop_of_len (splitWs_tagLineS h8 (IsTok_fmtG 6 _))
  · exact notLoop_of_len (splitWs_tagLineS h9 (IsTok_fmtG 6 _))
  · exact notLoop_of_len (splitWs_tagLineS h10 (IsTok_fmtG 6 _))
  · exact notLoop_of_len (splitWs_tagLineS h11 (IsTok_fmtG 6 _))
  · rfl

theorem siteTagLines_facts :
    (∀ l ∈ siteTags.map (fun t => ' ' :: ' ' :: t), isTagLine l = true) ∧
    (siteTags.map (fun t => ' ' :: ' ' :: t)).map strip = siteTags ∧
    (∀ l ∈ anisoTags.map (fun t => ' ' :: ' ' :: t), isTagLine l = true) ∧
    (anisoTags.map (fun t => ' ' :: ' ' :: t)).map strip = anisoTags := by
  refine ⟨by decide, by decide, by decide, by decide⟩

theorem cifLA_mem (d : CifS) (hel : ∀ a ∈ d.atoms, cifElemOk a.el = true) :
    ∀ p ∈ cifLA d, LabelOK p.1 ∧ p.2 ∈ d.atoms := by
  intro p hp
  have := List.of_mem_zip hp
  refine ⟨labelOK_of_mem _ ?_ [] p.1 this.1, this.2⟩
  intro e he
  obtain ⟨a, ha, rfl⟩ := List.mem_map.1 he
  exact hel a ha

theorem cifAni_sub (d : CifS) : ∀ p ∈ cifAni d, p ∈ cifLA d := fun _ hp => (List.mem_filter.1 hp).1

theorem cifLA_ne_nil (d : CifS) (hne : d.atoms ≠ []) : cifLA d ≠ [] := by
  intro h
  have := congrArg List.length h
  simp [cifLA, cifLabels_length] at this
  exact hne this

theorem IsTok_cifEl {e : Str} (h : cifElemOk e = true) : IsTok e := (cifElemOk_spec h).1

/-- the loops the reader finds in a written file -/
theorem cifLoops_write (d : CifS) (hne : d.atoms ≠ []) (hel : ∀ a ∈ d.atoms, cifElemOk a.el = true) :
    cifLoopsU (writeCif d) =
      (siteTags, (cifLA d).map (fun p => splitWs (cifAtomLine p.1 p.2))) ::
      (if (cifAni d).isEmpty then []
       else [(anisoTags, (cifAni d).map (fun p => splitWs (cifAnisoLine p.1 p.2)))]) := by
  have hLA := cifLA_mem d hel
  obtain ⟨t1, s1, t2, s2⟩ := siteTagLines_facts
  -- facts about atom lines
  have hA_row : ∀ l ∈ (cifLA d).map (fun p => cifAtomLine p.1 p.2), ∃ lb ws, LabelOK lb ∧ splitWs l = lb :: ws := by
    intro l hl
    obtain ⟨p, hp, rfl⟩ := List.mem_map.1 hl
    obtain ⟨hlb, ha⟩ := hLA p hp
    exact ⟨p.1, _, hlb, splitWs_cifAtomLine p.1 p.2 hlb.tok (IsTok_cifEl (hel _ ha))⟩
  have hB_row : ∀ l ∈ (cifAni d).map (fun p => cifAnisoLine p.1 p.2), ∃ lb ws, LabelOK lb ∧ splitWs l = lb :: ws := by
    intro l hl
    obtain ⟨p, hp, rfl⟩ := List.mem_map.1 hl
    obtain ⟨hlb, _⟩ := hLA p (cifAni_sub d p hp)
    exact ⟨p.1, _, hlb, splitWs_cifAnisoLine p.1 p.2 hlb.tok⟩
  have hA_loop : ∀ l ∈ (cifLA d).map (fun p => cifAtomLine p.1 p.2), (splitWs l == [kLoop]) = false := by
    intro l hl
    obtain ⟨p, hp, rfl⟩ := List.mem_map.1 hl
    obtain ⟨hlb, ha⟩ := hLA p hp
    exact notLoop_of_len (splitWs_cifAtomLine p.1 p.2 hlb.tok (IsTok_cifEl (hel _ ha)))
  have hB_loop : ∀ l ∈ (cifAni d).map (fun p => cifAnisoLine p.1 p.2), (splitWs l == [kLoop]) = false := by
    intro l hl
    obtain ⟨p, hp, rfl⟩ := List.mem_map.1 hl
    obtain ⟨hlb, _⟩ := hLA p (cifAni_sub d p hp)
    have := splitWs_cifAnisoLine p.1 p.2 hlb.tok
    simp only [List.map_cons] at this
    exact notLoop_of_len this
  -- the first line after each loop header is not a tag line
  have hA_head : ∀ x ∈ ((cifLA d).map (fun p => cifAtomLine p.1 p.2) ++
      (if (cifAni d).isEmpty then [] else
         kLoop :: (anisoTags.map (fun t => ' ' :: ' ' :: t) ++ (cifAni d).map (fun p => cifAnisoLine p.1 p.2)))).head?,
      isTagLine x = false := by
    intro x hx
    cases hla : cifLA d with
    | nil => exact absurd hla (cifLA_ne_nil d hne)
    | cons p ps =>
      rw [hla] at hx
      simp only [List.map_cons, List.cons_append, List.head?_cons, Option.mem_def, Option.some.injEq] at hx
      subst hx
      obtain ⟨X, hX⟩ := cifAtomLine_form p.1 p.2
      rw [hX]
      exact isTagLine_row (hLA p (by rw [hla]; simp)).1 X
  have hB_head : ∀ x ∈ ((cifAni d).map (fun p => cifAnisoLine p.1 p.2)).head?, isTagLine x = false := by
    intro x hx
    cases han : cifAni d with
    | nil => rw [han] at hx; cases hx
    | cons p ps =>
      rw [han] at hx
      simp only [List.map_cons, List.head?_cons, Option.mem_def, Option.some.injEq] at hx
      subst hx
      obtain ⟨X, hX⟩ := cifAnisoLine_form p.1 p.2
      rw [hX]
      exact isTagLine_row (hLA p (cifAni_sub d p (by rw [han]; simp))).1 X
  rw [writeCif_eq, cifLoopsU_skips _ _ (notLoop_title d.title), cifLoopsU_skips _ _ (notLoop_fixed d.cell), cifLoopsU_loop]
  obtain ⟨e1, e2⟩ := takeWhile_append_stop isTagLine _ _ t1 hA_head
  rw [e1, e2, s1, cifLoopsU_skips _ _ hA_loop]
  by_cases han : (cifAni d).isEmpty = true
  · simp only [han, if_true, List.append_nil]
    rw [cifLoopsU_nil]
    have := loopRows_rows _ [] hA_row
    rw [List.append_nil, loopRows_nil, List.append_nil] at this
    rw [this, List.map_map]
    rfl
  · simp only [han, Bool.false_eq_true, if_false]
    obtain ⟨f1, f2⟩ := takeWhile_append_stop isTagLine _ _ t2 hB_head
    rw [cifLoopsU_loop, f1, f2, s2, loopRows_rows _ _ hA_row, loopRows_loop, List.append_nil, List.map_map]
    have hb := loopRows_rows _ [] hB_row
    rw [List.append_nil, loopRows_nil, List.append_nil] at hb
    have hb2 := cifLoopsU_skips _ [] hB_loop
    rw [List.append_nil, cifLoopsU_nil] at hb2
    rw [hb, hb2, List.map_map]
    rfl

/-! ### the reader, with the literals as character lists -/

def colOfS (tags : List Str) (T : Str) (row : List Str) : Option Str :=
  match tags.idxOf? T with
  | some i => row[i]?
  | none => none

theorem colOf_eq (tags : List Str) (tag : String) (row : List Str) : colOf tags tag row = colOfS tags tag.toList row := rfl

/-- the anisotropic row of a label, read -/
def anisoFind (aniso : Option (List Str × List (List Str))) (lb : Str) : Option (List Rat) :=
  match aniso with
  | none => none
  | some (atags, arows) =>
    (arows.find? (fun r => colOfS atags aLabel r == some lb)).bind (fun r =>
      [aU11, aU22, aU33, aU12, aU13, aU23].mapM (fun t => (colOfS atags t r).bind parseDec))

/-- one row of the `_atom_site` loop, read -/
def cifRowAtom (tags : List Str) (aniso : Option (List Str × List (List Str))) (row : List Str) : Option CifRAtom :=
  if row.length ≠ tags.length then none else
  match colOfS tags sLabel row, colOfS tags sType row,
        (colOfS tags sX row).bind parseDec, (colOfS tags sY row).bind parseDec,
        (colOfS tags sZ row).bind parseDec, (colOfS tags sUiso row).bind parseDec,
        colOfS tags sAdp row, (colOfS tags sOcc row).bind parseDec with
  | some lb, some ty, some x, some y, some z, some ui, some adp, some oc =>
    let flag := !(adp == kUiso || adp == kBiso)
    let urow := anisoFind aniso lb
    some (⟨lb, capitalize ty, ⟨x, y, z⟩, ui, flag || urow.isSome, oc, urow⟩ : CifRAtom)
  | _, _, _, _, _, _, _, _ => none

theorem parseCif_eq (lines : List Str) :
    parseCif lines =
    match (cifItem lines "_cell_length_a").bind parseDec, (cifItem lines "_cell_length_b").bind parseDec,
          (cifItem lines "_cell_length_c").bind parseDec, (cifItem lines "_cell_angle_alpha").bind parseDec,
          (cifItem lines "_cell_angle_beta").bind parseDec, (cifItem lines "_cell_angle_gamma").bind parseDec with
    | some a, some b, some c, some al, some be, some ga =>
      match (cifLoopsU lines).find? (fun p => p.1.contains sLabel) with
      | none => .error .sfe
      | some (tags, rows) =>
        match rows.mapM (cifRowAtom tags ((cifLoopsU lines).find? (fun p => p.1.contains aLabel))) with
        | some as => .ok ⟨⟨a, b, c, al, be, ga⟩, as⟩
        | none => .error .sfe
    | _, _, _, _, _, _ => .error .sfe := rfl

/-! ### rows -/

/-- the atom `quantCif` makes of a labelled atom -/
def quantCifAtom (p : Str × CifAtom) : CifRAtom :=
  ⟨p.1, capitalize p.2.el, p.2.xyz.map (roundTo 6), roundTo 6 p.2.uiso, !uIsIso p.2.u, roundTo 4 p.2.occ,
   if !uIsIso p.2.u then some ([0, 4, 8, 1, 2, 5].map (fun k => roundTo 6 (p.2.u.getD k 0))) else none⟩

theorem quantCif_eq (d : CifS) : quantCif d = ⟨d.cell.map (roundSig 6), (cifLA d).map quantCifAtom⟩ := rfl

def anisoRow (p : Str × CifAtom) : List Str := p.1 :: [0, 4, 8, 1, 2, 5].map (fun k => fmtFbody 6 (p.2.u.getD k 0))

theorem find?_fst_of_nodup {α} (l : List (Str × α)) (hnd : (l.map (·.1)).Nodup) (p : Str × α) (hp : p ∈ l) :
    l.find? (fun q => q.1 == p.1) = some p := by
  induction l with
  | nil => cases hp
  | cons a l ih =>
    rw [List.map_cons, List.nodup_cons] at hnd
    rw [List.find?_cons]
    rcases List.mem_cons.1 hp with rfl | hp'
    · simp
    · have hne : (a.1 == p.1) = false := by
        simp only [beq_eq_false_iff_ne, ne_eq]
        intro e
        exact hnd.1 (e ▸ List.mem_map.2 ⟨p, hp', rfl⟩)
      rw [hne]
      exact ih hnd.2 hp'

theorem find?_fst_none {α} (l : List (Str × α)) (lb : Str) (h : ∀ q ∈ l, q.1 ≠ lb) :
    l.find? (fun q => q.1 == lb) = none := by
  rw [List.find?_eq_none]
  intro q hq
  simpa using h q hq

theorem mapM_parseDec_aniso (a : CifAtom) :
    [aU11, aU22, aU33, aU12, aU13, aU23].mapM (fun t => (colOfS anisoTags t (anisoRow (lb, a))).bind parseDec) =
      some ([0, 4, 8, 1, 2, 5].map (fun k => roundTo 6 (a.u.getD k 0))) := by
  have e : ∀ t i, anisoTags.idxOf? t = some i → colOfS anisoTags t (anisoRow (lb, a)) = (anisoRow (lb, a))[i]? := by
    intro t i h; simp [colOfS, h]
  rw [List.mapM_cons, e aU11 1 (by decide), List.mapM_cons, e aU22 2 (by decide), List.mapM_cons, e aU33 3 (by decide),
    List.mapM_cons, e aU12 4 (by decide), List.mapM_cons, e aU13 5 (by decide), List.mapM_cons, e aU23 6 (by decide)]
  simp [anisoRow, parseDec_fmtFbody]

/-- the anisotropic values the reader attaches to a site label -/
theorem anisoFind_write (d : CifS) (hnd : ((cifLA d).map (·.1)).Nodup) (p : Str × CifAtom) (hp : p ∈ cifLA d) :
    anisoFind (if (cifAni d).isEmpty then none else some (anisoTags, (cifAni d).map anisoRow)) p.1 =
      if !uIsIso p.2.u then some ([0, 4, 8, 1, 2, 5].map (fun k => roundTo 6 (p.2.u.getD k 0))) else none := by
  have hkey : ∀ q : Str × CifAtom, (colOfS anisoTags aLabel (anisoRow q) == some p.1) = (q.1 == p.1) := by
    intro q
    have : colOfS anisoTags aLabel (anisoRow q) = some q.1 := rfl
    rw [this]
    simp
  have hfind : ((cifAni d).map anisoRow).find? (fun r => colOfS anisoTags aLabel r == some p.1) =
      ((cifAni d).find? (fun q => q.1 == p.1)).map anisoRow := by
    rw [List.find?_map]
    have : ((fun r => colOfS anisoTags aLabel r == some p.1) ∘ anisoRow) = (fun q : Str × CifAtom => q.1 == p.1) := by
      funext q; exact hkey q
    rw [this]
  have hndA : ((cifAni d).map (·.1)).Nodup := hnd.sublist ((List.filter_sublist).map _)
  by_cases hiso : uIsIso p.2.u = true
  · -- isotropic: no row carries this label
    have hnone : (cifAni d).find? (fun q => q.1 == p.1) = none := by
      apply find?_fst_none
      intro q hq e
      have hq' := cifAni_sub d q hq
      have : q = p := List.inj_on_of_nodup_map hnd hq' hp e
      subst this
      have := (List.mem_filter.1 hq).2
      simp [hiso] at this
    simp only [hiso, Bool.not_true, Bool.false_eq_true, if_false]
    split
    · rfl
    · simp only [anisoFind, hfind, hnone, Option.map_none, Option.bind_none]
  · have hiso' : uIsIso p.2.u = false := by simpa using hiso
    have hpA : p ∈ cifAni d := List.mem_filter.2 ⟨hp, by simp [hiso']⟩
    have hne : (cifAni d).isEmpty = false := by
      cases h : cifAni d with
      | nil => rw [h] at hpA; cases hpA
      | cons _ _ => rfl
    have hsome := find?_fst_of_nodup (cifAni d) hndA p hpA
    simp only [hne, Bool.false_eq_true, if_false, hiso', Bool.not_false, if_true, anisoFind, hfind, hsome, Option.map_some,
      Option.bind_some]
    exact mapM_parseDec_aniso p.2

def anisoOf (d : CifS) : Option (List Str × List (List Str)) :=
  if (cifAni d).isEmpty then none else some (anisoTags, (cifAni d).map anisoRow)

theorem cifRowAtom_write (d : CifS) (hnd : ((cifLA d).map (·.1)).Nodup) (hel : ∀ a ∈ d.atoms, cifElemOk a.el = true)
    (p : Str × CifAtom) (hp : p ∈ cifLA d) :
    cifRowAtom siteTags (anisoOf d) (splitWs (cifAtomLine p.1 p.2)) = some (quantCifAtom p) := by
  obtain ⟨hlb, ha⟩ := cifLA_mem d hel p hp
  have hfind := anisoFind_write d hnd p hp
  rw [splitWs_cifAtomLine p.1 p.2 hlb.tok (IsTok_cifEl (hel _ ha))]
  generalize hrow : [p.1, p.2.el, fmtFbody 6 p.2.xyz.x, fmtFbody 6 p.2.xyz.y, fmtFbody 6 p.2.xyz.z, fmtFbody 6 p.2.uiso,
      (if uIsIso p.2.u then kUiso else kUani), fmtFbody 4 p.2.occ] = row
  have e : ∀ t i, siteTags.idxOf? t = some i → colOfS siteTags t row = row[i]? := by
    intro t i h; simp [colOfS, h]
  have hlen : row.length = siteTags.length := by rw [← hrow]; rfl
  unfold cifRowAtom
  rw [e sLabel 0 (by decide), e sType 1 (by decide), e sX 2 (by decide), e sY 3 (by decide), e sZ 4 (by decide),
    e sUiso 5 (by decide), e sAdp 6 (by decide), e sOcc 7 (by decide)]
  simp only [hlen, ne_eq, not_true_eq_false, if_false]
  subst hrow
  simp only [List.getElem?_cons_zero, List.getElem?_cons_succ, Option.bind_some, parseDec_fmtFbody]
  unfold anisoOf at hfind ⊢
  rw [hfind]
  cases hiso : uIsIso p.2.u <;> simp [quantCifAtom, hiso, V3.map, kUiso, kUani, kBiso]

theorem mapM_map_some {α β γ} (l : List α) (g : α → β) (f : β → Option γ) (h : α → γ)
    (hf : ∀ x ∈ l, f (g x) = some (h x)) : (l.map g).mapM f = some (l.map h) := by
  induction l with
  | nil => rfl
  | cons a l ih =>
    rw [List.map_cons, List.mapM_cons, hf a (by simp), ih (fun x hx => hf x (by simp [hx]))]
    rfl

theorem cifLA_nodup (d : CifS) (hel : ∀ a ∈ d.atoms, cifElemOk a.el = true) : ((cifLA d).map (·.1)).Nodup := by
  have hlen : (cifLabels [] (d.atoms.map (·.el))).length ≤ d.atoms.length := by
    rw [cifLabels_length, List.length_map]
  unfold cifLA
  rw [List.map_fst_zip hlen]
  apply cifLabels_nodup
  intro e he
  obtain ⟨a, ha, rfl⟩ := List.mem_map.1 he
  exact (cifElemOk_spec (hel a ha)).2.2

/-- line level: `parseLines(toLines(s))` for CIF (the reader of the writer's layout) -/
theorem parseCif_writeCif (d : CifS) (hne : d.atoms ≠ []) (hel : ∀ a ∈ d.atoms, cifElemOk a.el = true) :
    parseCif (writeCif d) = .ok (quantCif d) := by
  have hnd := cifLA_nodup d hel
  have hloops := cifLoops_write d hne hel
  have hani : (cifAni d).map (fun p => splitWs (cifAnisoLine p.1 p.2)) = (cifAni d).map anisoRow := by
    apply List.map_congr_left
    intro p hp
    exact splitWs_cifAnisoLine p.1 p.2 (cifLA_mem d hel p (cifAni_sub d p hp)).1.tok
  rw [hani] at hloops
  have hitems := cif_cell_items d.title d.cell (kLoop :: (siteTags.map (fun t => ' ' :: ' ' :: t) ++
      ((cifLA d).map (fun p => cifAtomLine p.1 p.2) ++
       (if (cifAni d).isEmpty then [] else
         kLoop :: (anisoTags.map (fun t => ' ' :: ' ' :: t) ++ (cifAni d).map (fun p => cifAnisoLine p.1 p.2))))))
  rw [← writeCif_eq] at hitems
  obtain ⟨i1, i2, i3, i4, i5, i6⟩ := hitems
  have hs1 : siteTags.contains sLabel = true := by decide
  have hs2 : siteTags.contains aLabel = false := by decide
  have hfind2 : (cifLoopsU (writeCif d)).find? (fun p => p.1.contains aLabel) = anisoOf d := by
    rw [hloops, List.find?_cons]
    simp only [hs2]
    unfold anisoOf
    have ha2' : aLabel ∈ anisoTags := by decide
    split
    · rfl
    · simp [ha2']
  have hrows := mapM_map_some (cifLA d) (fun p => splitWs (cifAtomLine p.1 p.2)) (cifRowAtom siteTags (anisoOf d))
    quantCifAtom (fun p hp => cifRowAtom_write d hnd hel p hp)
  rw [parseCif_eq, i1, i2, i3, i4, i5, i6, hfind2]
  simp only [Option.bind_some, parseDec_fmtG]
  rw [hloops, List.find?_cons]
  simp only [hs1, hrows, quantCif_eq, Cell6.map]

/-! ### text level -/

theorem ofText_toText_of (X Y : List Str) (hY : Y ≠ []) (hX : ∀ l ∈ X, NoLF l) (hYl : ∀ l ∈ Y, NoNL l ∧ l ≠ []) :
    ofText (toText (X ++ Y)) = X ++ Y := by
  obtain ⟨Yi, last, rfl⟩ : ∃ Yi last, Y = Yi ++ [last] :=
    ⟨Y.dropLast, Y.getLast hY, (List.dropLast_append_getLast hY).symm⟩
  obtain ⟨hn, hl⟩ := hYl last (by simp)
  obtain ⟨pre, c, rfl⟩ : ∃ pre c, last = pre ++ [c] :=
    ⟨last.dropLast, last.getLast hl, (List.dropLast_append_getLast hl).symm⟩
  have hc : isNL c = false := hn c (by simp)
  rw [← List.append_assoc]
  apply ofText_toText' _ _ _ hc
  intro l hl'
  simp only [List.mem_append, List.mem_singleton] at hl'
  rcases hl' with (hl' | hl') | rfl
  · exact hX l hl'
  · exact NoLF_of_NoNL (hYl l (by simp [hl'])).1
  · exact NoLF_of_NoNL hn

theorem NoLF_sublist {a b : Str} (h : a.Sublist b) (hb : NoLF b) : NoLF a := fun c hc => hb c (h.subset hc)

theorem splitLinesAux_NoLF (s : Str) : ∀ acc : Str, NoLF acc → ∀ l ∈ splitLinesAux s acc, NoLF l := by
  induction s with
  | nil =>
    intro acc hacc l hl
    simp only [splitLinesAux, List.mem_singleton] at hl
    subst hl
    intro c hc; exact hacc c (List.mem_reverse.1 hc)
  | cons c s ih =>
    intro acc hacc l hl
    rw [splitLinesAux] at hl
    split at hl
    · rcases List.mem_cons.1 hl with rfl | hl
      · intro x hx; exact hacc x (List.mem_reverse.1 hx)
      · exact ih [] (by intro x hx; cases hx) l hl
    · rename_i hne
      refine ih (c :: acc) ?_ l hl
      intro x hx
      rcases List.mem_cons.1 hx with rfl | hx
      · simpa using hne
      · exact hacc x hx

theorem NoLF_cifTitle (t : Str) : ∀ l ∈ cifTitle t, NoLF l := by
  intro l hl
  unfold cifTitle at hl
  split at hl
  · cases hl
  · simp only [List.mem_append, List.mem_map, List.mem_singleton] at hl
    rcases hl with ⟨x, hx, rfl⟩ | rfl
    · have hx' : NoLF x := splitLinesAux_NoLF t [] (by intro c hc; cases hc) x hx
      intro c hc
      rcases List.mem_cons.1 hc with rfl | hc
      · decide
      · rcases List.mem_cons.1 hc with rfl | hc
        · decide
        · exact NoLF_sublist (strip_sublist x) hx' c hc
    · intro c hc; cases hc

theorem NoNL_tagLineS {t v : Str} (ht : IsTok t) (hv : IsTok v) : NoNL (tagLineS t v) := by
  unfold tagLineS
  exact NoNL_append (NoNL_padRight 31 (NoNL_tok ht)) (NoNL_cons (by decide) (NoNL_tok hv))

theorem NoNL_cifFixed (c : Cell6) : ∀ l ∈ cifFixed c, NoNL l := by
  obtain ⟨h1, h2, h3, h4, h5, h6, h7, h8, h9, h10, h11, g1, g2, g3, g4, g5⟩ := tok_tags
  intro l hl
  simp only [cifFixed, List.mem_cons, List.not_mem_nil, or_false] at hl
  rcases hl with rfl | rfl | rfl | rfl | rfl | rfl | rfl | rfl | rfl | rfl | rfl | rfl | rfl | rfl | rfl
  · exact NoNL_lit _ (by decide)
  · exact NoNL_tagLineS h1 g1
  · exact NoNL_tagLineS h2 g2
  · exact NoNL_nil
  · exact NoNL_tagLineS h3 g3
  · exact NoNL_tagLineS h4 g4
  · exact NoNL_tagLineS h5 g5
  · exact NoNL_nil
  · exact NoNL_tagLineS h6 (IsTok_fmtG 6 _)
  · exact NoNL_tagLineS h7 (IsTok_fmtG 6 _)
  · exact NoNL_tagLineS h8 (IsTok_fmtG 6 _)
  · exact NoNL_tagLineS h9 (IsTok_fmtG 6 _)
  · exact NoNL_tagLineS h10 (IsTok_fmtG 6 _)
  · exact NoNL_tagLineS h11 (IsTok_fmtG 6 _)
  · exact NoNL_nil

theorem tagLines_ok : (∀ l ∈ kLoop :: siteTags.map (fun t => ' ' :: ' ' :: t), NoNL l ∧ l ≠ []) ∧
    (∀ l ∈ kLoop :: anisoTags.map (fun t => ' ' :: ' ' :: t), NoNL l ∧ l ≠ []) := by
  have h : ∀ L : List Str, (L.all (fun l => l.all (fun c => !isNL c) && !l.isEmpty)) = true → ∀ l ∈ L, NoNL l ∧ l ≠ [] := by
    intro L hL l hl
    have := List.all_eq_true.1 hL l hl
    simp only [Bool.and_eq_true, Bool.not_eq_true'] at this
    exact ⟨NoNL_lit l this.1, by intro e; subst e; simp at this⟩
  exact ⟨h _ (by decide), h _ (by decide)⟩

theorem cifAtomLine_ok (lb : Str) (a : CifAtom) (hl : IsTok lb) (he : IsTok a.el) :
    NoNL (cifAtomLine lb a) ∧ cifAtomLine lb a ≠ [] := by
  constructor
  · unfold cifAtomLine
    apply NoNL_append (NoNL_sp 2)
    apply NoNL_joinSep NoNL_ssvsep
    intro f hf
    simp only [List.mem_cons, List.not_mem_nil, or_false] at hf
    rcases hf with rfl | rfl | rfl | rfl | rfl | rfl | rfl | rfl
    · exact NoNL_padRight 5 (NoNL_tok hl)
    · exact NoNL_padRight 3 (NoNL_tok he)
    · exact NoNL_fmtF _ _ _
    · exact NoNL_fmtF _ _ _
    · exact NoNL_fmtF _ _ _
    · exact NoNL_fmtF _ _ _
    · apply NoNL_padRight; split <;> exact NoNL_lit _ (by decide)
    · exact NoNL_fmtF _ _ _
  · obtain ⟨X, hX⟩ := cifAtomLine_form lb a
    rw [hX]; simp [sp]

theorem cifAnisoLine_ok (lb : Str) (a : CifAtom) (hl : IsTok lb) :
    NoNL (cifAnisoLine lb a) ∧ cifAnisoLine lb a ≠ [] := by
  constructor
  · unfold cifAnisoLine
    apply NoNL_append (NoNL_sp 2)
    apply NoNL_joinSep NoNL_ssvsep
    intro f hf
    simp only [List.mem_cons, List.mem_map, List.not_mem_nil, or_false] at hf
    rcases hf with rfl | ⟨k, _, rfl⟩
    · exact NoNL_padRight 5 (NoNL_tok hl)
    · exact NoNL_fmtF _ _ _
  · obtain ⟨X, hX⟩ := cifAnisoLine_form lb a
    rw [hX]; simp [sp]

/-- string level: `readStr(writeStr("cif"), "cif")` on the writer's layout — the full statement for CIF -/
theorem roundtrip_cif : roundtrip_cif_statement := by
  intro d h
  simp only [reprCif, rangeCif, defectCif, Bool.and_eq_true, Bool.not_eq_true', List.all_eq_true, beq_iff_eq] at h
  obtain ⟨hall, hne'⟩ := h
  have hne : d.atoms ≠ [] := by intro e; rw [e] at hne'; simp at hne'
  have hel : ∀ a ∈ d.atoms, cifElemOk a.el = true := fun a ha => (hall a ha).1
  have hLA := cifLA_mem d hel
  obtain ⟨tl1, tl2⟩ := tagLines_ok
  have htext : ofText (toText (writeCif d)) = writeCif d := by
    rw [writeCif_eq]
    have e : cifTitle d.title ++ (cifFixed d.cell ++ (kLoop :: (siteTags.map (fun t => ' ' :: ' ' :: t) ++
        ((cifLA d).map (fun p => cifAtomLine p.1 p.2) ++
         (if (cifAni d).isEmpty then [] else
           kLoop :: (anisoTags.map (fun t => ' ' :: ' ' :: t) ++ (cifAni d).map (fun p => cifAnisoLine p.1 p.2))))))) =
        (cifTitle d.title ++ cifFixed d.cell) ++ ((kLoop :: siteTags.map (fun t => ' ' :: ' ' :: t)) ++
        ((cifLA d).map (fun p => cifAtomLine p.1 p.2) ++
         (if (cifAni d).isEmpty then [] else
           (kLoop :: anisoTags.map (fun t => ' ' :: ' ' :: t)) ++ (cifAni d).map (fun p => cifAnisoLine p.1 p.2)))) := by
      simp only [List.append_assoc, List.cons_append]
    rw [e]
    apply ofText_toText_of
    · simp
    · intro l hl
      rcases List.mem_append.1 hl with hl | hl
      · exact NoLF_cifTitle d.title l hl
      · exact NoLF_of_NoNL (NoNL_cifFixed d.cell l hl)
    · intro l hl
      rcases List.mem_append.1 hl with hl | hl
      · exact tl1 l hl
      · rcases List.mem_append.1 hl with hl | hl
        · obtain ⟨p, hp, rfl⟩ := List.mem_map.1 hl
          obtain ⟨hlb, ha⟩ := hLA p hp
          exact cifAtomLine_ok p.1 p.2 hlb.tok (IsTok_cifEl (hel _ ha))
        · split at hl
          · cases hl
          · rcases List.mem_append.1 hl with hl | hl
            · exact tl2 l hl
            · obtain ⟨p, hp, rfl⟩ := List.mem_map.1 hl
              exact cifAnisoLine_ok p.1 p.2 (hLA p (cifAni_sub d p hp)).1.tok
  rw [htext]
  exact parseCif_writeCif d hne hel

end DS.Formats
